// Package gen holds generators shared by several properties. Every random
// choice is drawn from rapid so shrinking and seeded replay work.
package gen

import (
	"strings"

	"pgregory.net/rapid"
)

// MetaTokens are strings that mean something to murex's parsers.
var MetaTokens = []string{
	" ", "  ", "\t", "'", "\"", "$", "@", "~", "*", "?", ";", "|", "&", "&&", "||",
	"{", "}", "(", ")", "[", "]", "<", ">", "#", "\\", "`", "->", "=>", "|>", ">>", "?:", "??",
	"${", "@{", "$(", "%[", "%{", "%(", "=", "==", ":", ",", "-", "--", "..", "!", "%", "^", "+", "/", ".",
	"$x", "@x", "~root", "${out x}", "; out INJECTED", "| out INJECTED", "&& out INJECTED", "{out x}",
	"<err>", "<!out>", "<null>", "-> ", "\\n", "\\t", "\\s", "\\x", "a b", "*.go", "?x",
	"é", "日本", "🙂", " ", "​", " ",
}

// Words are harmless fillers.
var Words = []string{"a", "b", "foo", "bar", "x1", "0", "1", "-1", "1.5", "true", "false", "null", "yes", "no", "on", "off", "Z", "_"}

// StrOpts tunes HostileString.
type StrOpts struct {
	MaxParts  int  // default 8
	Newlines  bool // allow \n and \r
	Control   bool // allow control characters other than \t \n \r (never NUL unless NUL)
	NUL       bool
	BadUTF8   bool     // allow invalid UTF-8 byte sequences
	Exclude   string   // characters never to emit
	ExtraToks []string // additional tokens
}

// HostileString builds strings by concatenating meta tokens, words and
// arbitrary runes. Biased towards short strings; the empty string is likely.
func HostileString(o StrOpts) *rapid.Generator[string] {
	max := o.MaxParts
	if max == 0 {
		max = 8
	}
	toks := append([]string{}, MetaTokens...)
	toks = append(toks, o.ExtraToks...)
	if o.Newlines {
		toks = append(toks, "\n", "\r\n", "\r", "\n\n")
	}
	if o.Control {
		toks = append(toks, "\x01", "\x07", "\x08", "\x0b", "\x0c", "\x1b", "\x1b[0m", "\x7f")
	}
	if o.NUL {
		toks = append(toks, "\x00")
	}
	if o.BadUTF8 {
		toks = append(toks, "\xff", "\xc3", "\xe2\x82", "\xf0\x9f", "\xc0\x80", "\xed\xa0\x80")
	}
	return rapid.Custom(func(t *rapid.T) string {
		n := rapid.IntRange(0, max).Draw(t, "parts")
		var b strings.Builder
		for i := 0; i < n; i++ {
			switch rapid.IntRange(0, 9).Draw(t, "k") {
			case 0, 1, 2, 3, 4:
				b.WriteString(rapid.SampledFrom(toks).Draw(t, "tok"))
			case 5, 6, 7:
				b.WriteString(rapid.SampledFrom(Words).Draw(t, "word"))
			default:
				r := rapid.Rune().Draw(t, "rune")
				b.WriteRune(r)
			}
		}
		s := b.String()
		if !o.Newlines {
			s = strings.NewReplacer("\n", "", "\r", "", " ", "").Replace(s)
		}
		if !o.Control {
			s = strings.Map(func(r rune) rune {
				if r < 0x20 && r != '\t' && r != '\n' && r != '\r' && !(r == 0 && o.NUL) {
					return -1
				}
				if r == 0x7f {
					return -1
				}
				return r
			}, s)
		}
		if !o.NUL {
			s = strings.ReplaceAll(s, "\x00", "")
		}
		if o.Exclude != "" {
			s = strings.Map(func(r rune) rune {
				if strings.ContainsRune(o.Exclude, r) {
					return -1
				}
				return r
			}, s)
		}
		return s
	})
}

// JSONOpts tunes JSONValue.
type JSONOpts struct {
	MaxDepth int // default 3
	MaxWidth int // default 4
	Str      *rapid.Generator[string]
	Key      *rapid.Generator[string]
	NoNull   bool
	NoFloat  bool
}

// JSONValue generates a JSON-representable Go value (map[string]any, []any,
// string, float64, bool, nil).
func JSONValue(o JSONOpts) *rapid.Generator[any] {
	if o.MaxDepth == 0 {
		o.MaxDepth = 3
	}
	if o.MaxWidth == 0 {
		o.MaxWidth = 4
	}
	if o.Str == nil {
		o.Str = HostileString(StrOpts{MaxParts: 4})
	}
	if o.Key == nil {
		o.Key = rapid.StringMatching(`[a-zA-Z_][a-zA-Z0-9_]{0,5}`)
	}
	var val func(t *rapid.T, depth int) any
	scalar := func(t *rapid.T) any {
		switch rapid.IntRange(0, 5).Draw(t, "scalar") {
		case 0, 1:
			return o.Str.Draw(t, "str")
		case 2:
			return float64(rapid.IntRange(-1000000, 1000000).Draw(t, "int"))
		case 3:
			if o.NoFloat {
				return float64(rapid.IntRange(-5, 5).Draw(t, "int"))
			}
			return rapid.Float64Range(-1e9, 1e9).Draw(t, "float")
		case 4:
			return rapid.Bool().Draw(t, "bool")
		default:
			if o.NoNull {
				return o.Str.Draw(t, "str")
			}
			return nil
		}
	}
	val = func(t *rapid.T, depth int) any {
		k := rapid.IntRange(0, 5).Draw(t, "kind")
		if depth >= o.MaxDepth || k < 3 {
			return scalar(t)
		}
		n := rapid.IntRange(0, o.MaxWidth).Draw(t, "width")
		if k == 3 {
			a := make([]any, 0, n)
			for i := 0; i < n; i++ {
				a = append(a, val(t, depth+1))
			}
			return a
		}
		m := map[string]any{}
		for i := 0; i < n; i++ {
			m[o.Key.Draw(t, "key")] = val(t, depth+1)
		}
		return m
	}
	return rapid.Custom(func(t *rapid.T) any { return val(t, 0) })
}
