package gen

import (
	"fmt"
	"strings"
	"sync"

	"github.com/lmorg/murex/lang"
	"github.com/lmorg/murex/lang/types"
	"pgregory.net/rapid"
)

var regOnce sync.Once

// RegisterProgBuiltins defines the helper builtin the generated programs use:
// `vcat <tag>` reads all of stdin and writes "<tag>[<stdin>]\n"; it never fails.
func RegisterProgBuiltins() {
	regOnce.Do(func() {
		lang.DefineMethod("vcat", func(p *lang.Process) error {
			tag, _ := p.Parameters.String(0)
			p.Stdout.SetDataType(types.String)
			var in []byte
			if p.IsMethod {
				in, _ = p.Stdin.ReadAll()
			}
			p.Stdout.Writeln([]byte(tag + "[" + string(in) + "]"))
			return nil
		}, types.Any, types.String)
	})
}

// ProgOpts tunes Program.
type ProgOpts struct {
	// EarlyExits adds break / return / failing try blocks / compile errors in
	// nested blocks / piping to nothing (used by C28).
	EarlyExits bool
	// MaxDepth bounds block nesting (default 3).
	MaxDepth int
	// MaxStmts bounds statements per block (default 4).
	MaxStmts int
}

// Prog is a generated murex program together with the features it contains.
type Prog struct {
	Src  string         `json:"src"`
	Feat map[string]int `json:"feat"`
}

// Program generates sequential, deterministic murex programs: no background
// jobs, parallel loops, timers, randomness or external commands. The
// generator tracks which fragments may write to stderr and never lets two
// concurrently running pipeline stages both do so (that interleaving would be
// legitimately schedule dependent), and never lets a fallible method be
// followed by another stage.
func Program(o ProgOpts) *rapid.Generator[Prog] {
	if o.MaxDepth == 0 {
		o.MaxDepth = 3
	}
	if o.MaxStmts == 0 {
		o.MaxStmts = 4
	}
	return rapid.Custom(func(t *rapid.T) Prog {
		g := &progGen{t: t, o: o, feat: map[string]int{}}
		g.id = rapid.Uint32().Draw(t, "progid")
		nf := rapid.IntRange(0, 3).Draw(t, "nfuncs")
		var b strings.Builder
		// functions are defined first; function i may only call functions < i
		for i := 0; i < nf; i++ {
			g.inFunc = true
			body, _ := g.block(1)
			g.inFunc = false
			fmt.Fprintf(&b, "function %s {\n%s%s}\n", g.fname(i), g.varInit(), body)
			g.nfuncs = i + 1
		}
		b.WriteString(g.varInit())
		body, _ := g.block(0)
		b.WriteString(body)
		// every function is called at least once, some as a pipeline source
		for i := 0; i < nf; i++ {
			g.feat["call"]++
			if g.pick("callform", 3) == 0 {
				g.feat["pipeline"]++
				fmt.Fprintf(&b, "%s %s -> vcat %s\n", g.fname(i), g.newTag(), g.newTag())
			} else {
				fmt.Fprintf(&b, "%s %s\n", g.fname(i), g.newTag())
			}
		}
		return Prog{Src: b.String(), Feat: g.feat}
	})
}

type progGen struct {
	t      *rapid.T
	o      ProgOpts
	id     uint32
	tag    int
	nfuncs int
	inFunc bool
	inLoop int
	feat   map[string]int
}

func (g *progGen) fname(i int) string { return fmt.Sprintf("vf%x_%d", g.id, i) }

func (g *progGen) varInit() string { return "v1 = 1\nv2 = \"s\"\nv3 = %[c,a,b]\n" }

func (g *progGen) newTag() string { g.tag++; return fmt.Sprintf("t%d", g.tag) }

func (g *progGen) pick(label string, n int) int { return rapid.IntRange(0, n-1).Draw(g.t, label) }

// block returns statements (each terminated by newline) and whether the block
// may write to stderr.
func (g *progGen) block(depth int) (string, bool) {
	n := rapid.IntRange(1, g.o.MaxStmts).Draw(g.t, "stmts")
	var b strings.Builder
	stderr := false
	for i := 0; i < n; i++ {
		s, e := g.stmt(depth)
		stderr = stderr || e
		b.WriteString(s)
		if g.pick("sep", 4) == 0 {
			b.WriteString(" ;\n")
		} else {
			b.WriteString("\n")
		}
	}
	return b.String(), stderr
}

func (g *progGen) stmt(depth int) (string, bool) {
	max := 12
	if depth >= g.o.MaxDepth {
		max = 6
	}
	extra := 0
	if g.o.EarlyExits {
		extra = 5
	}
	k := g.pick("stmt", max+extra)
	if k >= max {
		return g.earlyExit(depth, k-max)
	}
	switch k {
	case 0, 1:
		return g.simple()
	case 2, 3:
		return g.pipeline()
	case 4:
		return g.logicChain()
	case 5:
		return g.assign()
	case 6:
		g.feat["if"]++
		cond := g.cond()
		a, e1 := g.block(depth + 1)
		if g.pick("else", 2) == 0 {
			return fmt.Sprintf("if { %s } then {\n%s}", cond, a), e1
		}
		bb, e2 := g.block(depth + 1)
		return fmt.Sprintf("if { %s } then {\n%s} else {\n%s}", cond, a, bb), e1 || e2
	case 7:
		g.feat["foreach"]++
		g.inLoop++
		body, e := g.block(depth + 1)
		g.inLoop--
		v := "x" + fmt.Sprint(depth)
		body = fmt.Sprintf("out \"%s:$%s\"\n", g.newTag(), v) + body
		return fmt.Sprintf("%s -> foreach %s {\n%s}", g.arraySource(), v, body), e
	case 8:
		g.feat["try"]++
		body, _ := g.block(depth + 1)
		kw := rapid.SampledFrom([]string{"try", "trypipe", "try", "tryerr"}).Draw(g.t, "trykw")
		s := fmt.Sprintf("%s {\n%s}", kw, body)
		if g.pick("catch", 3) == 0 {
			s += fmt.Sprintf("\ncatch {\nout %s\n}", g.newTag())
		}
		// a failing try block reports on stderr
		return s, true
	case 9:
		if g.nfuncs == 0 {
			return g.simple()
		}
		g.feat["call"]++
		return fmt.Sprintf("%s %s", g.fname(g.pick("fn", g.nfuncs)), g.newTag()), true
	case 10:
		g.feat["switch"]++
		a, e1 := g.block(depth + 1)
		bb, e2 := g.block(depth + 1)
		return fmt.Sprintf("switch {\ncase { %s } {\n%s}\ndefault {\n%s}\n}", g.cond(), a, bb), e1 || e2
	default:
		g.feat["subshell"]++
		inner, e := g.simpleStdout()
		return fmt.Sprintf("out \"%s=${%s}\"", g.newTag(), inner), e
	}
}

func (g *progGen) cond() string {
	switch g.pick("cond", 6) {
	case 0:
		return "true"
	case 1:
		return "false"
	case 2:
		return fmt.Sprintf("$v1 == %d", g.pick("n", 3))
	case 3:
		return fmt.Sprintf("$v1 < %d", g.pick("n", 4))
	case 4:
		return "$v2 == \"s\""
	default:
		return "out " + g.newTag()
	}
}

func (g *progGen) assign() (string, bool) {
	g.feat["assign"]++
	switch g.pick("assign", 5) {
	case 0:
		return fmt.Sprintf("v1 = $v1 + %d", g.pick("n", 5)), false
	case 1:
		return fmt.Sprintf("v1 = (%d * 2 - $v1)", g.pick("n", 5)), false
	case 2:
		return fmt.Sprintf("v2 = \"%s\"", g.newTag()), false
	case 3:
		return fmt.Sprintf("out %s -> set v2", g.newTag()), false
	default:
		return fmt.Sprintf("v3 = %%[%s]", strings.Join(g.words(), ",")), false
	}
}

func (g *progGen) words() []string {
	n := rapid.IntRange(1, 4).Draw(g.t, "nwords")
	w := make([]string, n)
	for i := range w {
		w[i] = rapid.SampledFrom([]string{"a", "b", "c", "ab", "ba", "z", "a1", "q"}).Draw(g.t, "w")
	}
	return w
}

// simple returns one simple command.
func (g *progGen) simple() (string, bool) {
	switch g.pick("simple", 11) {
	case 0, 1, 2:
		return "out " + g.newTag(), false
	case 3:
		return "err " + g.newTag(), true
	case 4:
		return fmt.Sprintf("out \"%s:$v1:$v2\"", g.newTag()), false
	case 5:
		return fmt.Sprintf("(%d + $v1 * %d)", g.pick("n", 9), g.pick("n", 9)), false
	case 6:
		g.feat["redirect"]++
		return "out <err> " + g.newTag(), true
	case 7:
		g.feat["redirect"]++
		return "out <null> " + g.newTag(), false
	case 8:
		g.feat["redirect"]++
		return "err <!null> " + g.newTag(), false
	case 9:
		return fmt.Sprintf("tout json ([\"%s\",\"b\",\"a\"])", g.newTag()), false
	default:
		return "$v3", false
	}
}

// simpleStdout returns a command that writes to stdout only.
func (g *progGen) simpleStdout() (string, bool) {
	switch g.pick("sso", 3) {
	case 0:
		return "out " + g.newTag(), false
	case 1:
		return fmt.Sprintf("(%d + $v1)", g.pick("n", 9)), false
	default:
		s, e := g.pipeline()
		return s, e
	}
}

func (g *progGen) arraySource() string {
	switch g.pick("arrsrc", 4) {
	case 0:
		return "%[" + strings.Join(g.words(), ",") + "]"
	case 1:
		return fmt.Sprintf("ja [%d..%d]", g.pick("m", 3), 2+g.pick("n", 4))
	case 2:
		return "$v3"
	default:
		return fmt.Sprintf("a [%s]", strings.Join(g.words(), ","))
	}
}

var infallible = []string{"msort", "mtac", "prepend p", "append q", "prefix <", "suffix >", "format json", "cast json", "format yaml -> format json"}
var fallible = []string{"[0]", "[1]", "[-1]", "[5]", "match a", "!match a", "regexp m/a/", "regexp s/a/X/", "left 1", "right 1", "mjoin ,", "count", "[[/0]]", "format jsonl", "cast str", "[0..1]", "[2..]"}

func (g *progGen) pipeline() (string, bool) {
	g.feat["pipeline"]++
	arrow := func() string { return rapid.SampledFrom([]string{" -> ", " | ", " -> "}).Draw(g.t, "arrow") }
	// A last stage that does not read its stdin (`out`), fed by a stage that
	// keeps writing to stderr for a while: the statement is only finished when
	// every stage has finished, so what follows must come after the upstream
	// stage's output whatever the schedule.
	if g.pick("nonconsuming-tail", 6) == 0 {
		g.feat["nonconsuming-tail"]++
		var src string
		switch g.pick("nctsrc", 3) {
		case 0:
			src = "err " + g.newTag()
		case 1:
			if g.nfuncs > 0 {
				g.feat["call"]++
				src = fmt.Sprintf("%s %s", g.fname(g.pick("fn", g.nfuncs)), g.newTag())
				break
			}
			fallthrough
		default:
			n := rapid.SampledFrom([]int{3, 20, 60}).Draw(g.t, "nctloop")
			src = fmt.Sprintf("a [1..%d] -> foreach x9 { err \"%s:$x9\" }", n, g.newTag())
		}
		return src + arrow() + "out " + g.newTag(), true
	}
	var b strings.Builder
	stderr := false
	switch g.pick("psrc", 6) {
	case 0, 1, 2:
		b.WriteString(g.arraySource())
	case 3:
		// a stage that writes stderr feeding infallible methods only
		b.WriteString("err " + g.newTag())
		stderr = true
	case 4:
		if g.nfuncs > 0 {
			g.feat["call"]++
			b.WriteString(fmt.Sprintf("%s %s", g.fname(g.pick("fn", g.nfuncs)), g.newTag()))
			stderr = true
		} else {
			b.WriteString(g.arraySource())
		}
	default:
		b.WriteString(fmt.Sprintf("tout json ([\"%s\",\"b\",\"a\"])", g.newTag()))
	}
	n := rapid.IntRange(1, 3).Draw(g.t, "nmeth")
	for i := 0; i < n; i++ {
		b.WriteString(arrow())
		last := i == n-1
		switch {
		case stderr:
			// the source may write to stderr (and its stdout may be of any
			// type): only the never-failing pass-through method may follow,
			// otherwise two stages could write to stderr concurrently.
			b.WriteString("vcat " + g.newTag())
		case last && g.pick("fallible", 2) == 0:
			b.WriteString(rapid.SampledFrom(fallible).Draw(g.t, "meth"))
			stderr = true
		default:
			b.WriteString(rapid.SampledFrom(infallible).Draw(g.t, "meth"))
		}
	}
	return b.String(), stderr
}

func (g *progGen) logicChain() (string, bool) {
	g.feat["logic"]++
	n := rapid.IntRange(2, 4).Draw(g.t, "nlogic")
	var b strings.Builder
	stderr := false
	for i := 0; i < n; i++ {
		if i > 0 {
			b.WriteString(rapid.SampledFrom([]string{" && ", " || "}).Draw(g.t, "join"))
		}
		var s string
		var e bool
		switch g.pick("lunit", 5) {
		case 0:
			s = "true"
		case 1:
			s = "false"
		case 2:
			s, e = g.pipeline()
		default:
			s, e = g.simple()
		}
		stderr = stderr || e
		b.WriteString(s)
	}
	return b.String(), stderr
}

// earlyExit produces constructs that abort processes early.
func (g *progGen) earlyExit(depth, k int) (string, bool) {
	g.feat["early-exit"]++
	switch k {
	case 0:
		if g.inLoop > 0 {
			return "if { $v1 == 1 } then { break foreach }", true
		}
		if g.inFunc {
			return fmt.Sprintf("return %d", g.pick("rc", 3)), true
		}
		return "try { false ; out " + g.newTag() + " }", true
	case 1:
		return fmt.Sprintf("try { out %s ; err %s ; out %s -> msort -> mtac ; out %s }", g.newTag(), g.newTag(), g.newTag(), g.newTag()), true
	case 2:
		return fmt.Sprintf("trypipe { %%[a,b] -> [7] -> msort -> mtac ; out %s }", g.newTag()), true
	case 4:
		// a call that fails before the function body runs: the argument
		// cannot be converted to the declared parameter type
		name := fmt.Sprintf("vt%x_%d", g.id, g.tag)
		g.tag++
		if g.inFunc || depth > 0 {
			return fmt.Sprintf("out %s", g.newTag()), false
		}
		return fmt.Sprintf("function %s (a: int) { out $a }\n%s notanumber", name, name), true
	default:
		if g.inLoop > 0 {
			return "if { $v1 > 0 } then { continue foreach }", true
		}
		return fmt.Sprintf("if { true } then { out %s ; false && out x || out y -> msort }", g.newTag()), true
	}
}
