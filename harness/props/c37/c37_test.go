// C37 — Syntax highlighting never changes the typed text.
//
// Domain: rune strings of up to ~300 runes without ESC (0x1b), biased towards
// murex syntax (quotes, pipes, braces, sigils, escapes, comments, the arrow
// pipes `->` `=>` directly after an escape, redirections, multi-byte runes).
// Oracle: strip(highlight(x)) == x, where highlight is parser.Parse(x, 0) —
// exactly what shell.syntaxHighlight hands to readline — and strip removes
// exactly the SGR sequences ESC [ digits;… m (every code the highlighter emits
// has that shape: utils/ansi/codes Reset/Bold/Fg*/Invert).
package c37

import (
	"fmt"
	"strings"
	"testing"

	"pgregory.net/rapid"
	"verif/harness/core"
	"verif/harness/props/c37/oracle"
)

func TestMain(m *testing.M) { core.Main(m, "C37") }

type Case struct {
	Text string `json:"text"`
}

// ---------------------------------------------------------------------------
// generator

var tokens = []string{
	// whitespace
	" ", " ", " ", "  ", "\t", "\n",
	// quotes
	"'", "\"", "(", ")", "%(", "'a b'", "\"a $b\"", "(a (b) c)",
	// pipes and flow tokens
	"|", "->", "=>", "|>", "|>>", " >> ", ">>", ">", " ? ", "?:", "??", "&&", "||", ";", "&", "?",
	" -> ", " => ", " | ", "-", "=", "-->", "==>", "->>", "=>>",
	// braces / blocks
	"{", "}", "[", "]", "[[", "]]", "%[", "%{", "{ out x }", "${", "@{", "${out x}",
	// variables
	"$", "@", "$x", "@x", "$(", "$(x)", "@(x)", "$x.y", "$x[", "@ ", "$-", "$=",
	// escapes
	"\\", "\\\\", "\\-", "\\=", "\\->", "\\=>", "\\s", "\\n", "\\t", "\\$", "\\'", "\\\"", "\\|", "\\>", "\\#", "\\{", "\\}", "\\ ", "\\(", "\\)", "\\;", "\\&", "\\?", "\\:", "\\[", "\\]", "\\<", "\\@", "\\é",
	// comments
	"#", " # x", "/#", "#/",
	// redirection
	"<", "<err>", "<!out>", "<null>", "<pipe>",
	// colon forms
	":", ": ", "out:", "cast: ",
	// words
	"out", "echo", "a", "b", "x", "foo", "bar", "0", "1", "5", "true", "if", "cat", "exit", "a=b", "a = 5", "--flag", "-f",
	// multi-byte and odd runes
	"é", "日本", "🙂", " ", "​", " ", "�", "́", "\x00", "\x01", "\x07", "\x7f", "\r", "\x08", "\x9b", "[0m", "[1;32m",
}

var genPart = rapid.Custom(func(t *rapid.T) string {
	switch k := rapid.IntRange(0, 11).Draw(t, "k"); {
	case k <= 9:
		return rapid.SampledFrom(tokens).Draw(t, "tok")
	case k == 10:
		return string(rapid.RuneFrom(asciiPrintable).Draw(t, "ascii"))
	default:
		return string(rapid.Rune().Draw(t, "rune"))
	}
})

// genText concatenates 0-24 parts (one case in 16: 25-90 parts); a slice
// generator is used so that rapid can delete parts while shrinking.
func genText(t *rapid.T) string {
	var parts []string
	if rapid.IntRange(0, 15).Draw(t, "long") == 15 {
		parts = rapid.SliceOfN(genPart, 25, 90).Draw(t, "parts")
	} else {
		parts = rapid.SliceOfN(genPart, 0, 24).Draw(t, "parts")
	}
	return normalise(strings.Join(parts, ""))
}

var asciiPrintable = func() []rune {
	var r []rune
	for c := rune(0x20); c < 0x7f; c++ {
		r = append(r, c)
	}
	return r
}()

func gen(t *rapid.T) Case { return Case{Text: genText(t)} }

func normalise(s string) string { return oracle.Normalise(s) }

func check(c Case) *core.Violation {
	if kind, msg := oracle.Check(c.Text); kind != "" {
		return core.Violf(kind, "%s", msg)
	}
	return nil
}

// ---------------------------------------------------------------------------
// classification

func classify(c Case) core.Class {
	text := normalise(c.Text)
	cl := oracle.TokenClasses(text)
	out := core.Class{Key: text, NonTrivial: len(cl) >= 2}
	switch {
	case len(cl) >= 4:
		out.Label = "classes>=4"
	case len(cl) >= 2:
		out.Label = fmt.Sprintf("classes=%d", len(cl))
	default:
		out.Label = "classes<2"
	}
	if out.NonTrivial && (strings.Contains(text, "\\->") || strings.Contains(text, "\\=>")) {
		out.Label += ",escaped-arrow"
	}
	return out
}

// ---------------------------------------------------------------------------
// known findings

// known: see oracle.Known (C37-escaped-arrow-chops-escape-sequence).
func known(c Case, v *core.Violation) string { return oracle.Known(c.Text, v.Kind) }

var spec = core.Spec[Case]{
	ID: "C37", Gen: gen, Check: check, Classify: classify, Known: known,
	Sample: func(c Case) any { return c.Text },
}

func TestProp(t *testing.T)   { core.RunProp(t, spec) }
func TestReplay(t *testing.T) { core.Replay(t, spec) }

// FuzzHighlight is the native coverage-guided target of the thorough tier.
// The oracle is the same check; inputs are normalised into the domain. The
// same target exists in ./fz, a package that does not link harness/core (all
// of murex) and therefore fuzzes about ten times faster; this copy is what the
// driver runs as long as it has no per-target package setting.
func FuzzHighlight(f *testing.F) {
	for _, s := range []string{"out \\->x", "out \\=>", "out 'a' -> b", "a | b # c", "$(x)->@{y}"} {
		f.Add(s)
	}
	f.Fuzz(func(t *testing.T, s string) {
		if msg := oracle.FuzzOne(s); msg != "" {
			t.Fatalf("C37 violated: %s", msg)
		}
	})
}
