// C37 — Syntax highlighting never changes the typed text.
//
// Domain: rune strings of up to ~300 runes without ESC (0x1b), biased towards
// murex syntax (quotes, pipes, braces, sigils, escapes, comments, the arrow
// pipes `->` `=>` directly after an escape, redirections, multi-byte runes).
// Oracle: strip(highlight(x)) == x, where highlight is parser.Parse(x, 0) —
// exactly what shell.syntaxHighlight hands to readline — and strip removes
// exactly the SGR sequences ESC [ digits;… m (every code the highlighter emits
// has that shape: utils/ansi/codes Reset/Bold/Fg*/Invert).
package c37

import (
	"fmt"
	"regexp"
	"strings"
	"testing"
	"unicode/utf8"

	"github.com/lmorg/murex/utils/parser"
	"pgregory.net/rapid"
	"verif/harness/core"
)

func TestMain(m *testing.M) { core.Main(m, "C37") }

type Case struct {
	Text string `json:"text"`
}

// ---------------------------------------------------------------------------
// generator

var tokens = []string{
	// whitespace
	" ", " ", " ", "  ", "\t", "\n",
	// quotes
	"'", "\"", "(", ")", "%(", "'a b'", "\"a $b\"", "(a (b) c)",
	// pipes and flow tokens
	"|", "->", "=>", "|>", "|>>", " >> ", ">>", ">", " ? ", "?:", "??", "&&", "||", ";", "&", "?",
	" -> ", " => ", " | ", "-", "=", "-->", "==>", "->>", "=>>",
	// braces / blocks
	"{", "}", "[", "]", "[[", "]]", "%[", "%{", "{ out x }", "${", "@{", "${out x}",
	// variables
	"$", "@", "$x", "@x", "$(", "$(x)", "@(x)", "$x.y", "$x[", "@ ", "$-", "$=",
	// escapes
	"\\", "\\\\", "\\-", "\\=", "\\->", "\\=>", "\\s", "\\n", "\\t", "\\$", "\\'", "\\\"", "\\|", "\\>", "\\#", "\\{", "\\}", "\\ ", "\\(", "\\)", "\\;", "\\&", "\\?", "\\:", "\\[", "\\]", "\\<", "\\@", "\\é",
	// comments
	"#", " # x", "/#", "#/",
	// redirection
	"<", "<err>", "<!out>", "<null>", "<pipe>",
	// colon forms
	":", ": ", "out:", "cast: ",
	// words
	"out", "echo", "a", "b", "x", "foo", "bar", "0", "1", "5", "true", "if", "cat", "exit", "a=b", "a = 5", "--flag", "-f",
	// multi-byte and odd runes
	"é", "日本", "🙂", " ", "​", " ", "�", "́", "\x00", "\x01", "\x07", "\x7f", "\r", "\x08", "\x9b", "[0m", "[1;32m",
}

var genPart = rapid.Custom(func(t *rapid.T) string {
	switch k := rapid.IntRange(0, 11).Draw(t, "k"); {
	case k <= 9:
		return rapid.SampledFrom(tokens).Draw(t, "tok")
	case k == 10:
		return string(rapid.RuneFrom(asciiPrintable).Draw(t, "ascii"))
	default:
		return string(rapid.Rune().Draw(t, "rune"))
	}
})

// genText concatenates 0-24 parts (one case in 16: 25-90 parts); a slice
// generator is used so that rapid can delete parts while shrinking.
func genText(t *rapid.T) string {
	var parts []string
	if rapid.IntRange(0, 15).Draw(t, "long") == 15 {
		parts = rapid.SliceOfN(genPart, 25, 90).Draw(t, "parts")
	} else {
		parts = rapid.SliceOfN(genPart, 0, 24).Draw(t, "parts")
	}
	return normalise(strings.Join(parts, ""))
}

var asciiPrintable = func() []rune {
	var r []rune
	for c := rune(0x20); c < 0x7f; c++ {
		r = append(r, c)
	}
	return r
}()

func gen(t *rapid.T) Case { return Case{Text: genText(t)} }

// normalise maps any string into the domain: valid UTF-8 (what a []rune
// typed on a terminal converts to), no ESC, at most 300 runes.
func normalise(s string) string {
	if !utf8.ValidString(s) {
		s = string([]rune(s))
	}
	if strings.ContainsRune(s, 0x1b) {
		s = strings.ReplaceAll(s, "\x1b", "")
	}
	if utf8.RuneCountInString(s) > 300 {
		s = string([]rune(s)[:300])
	}
	return s
}

// ---------------------------------------------------------------------------
// oracle

var rxSGR = regexp.MustCompile("\x1b\\[[0-9;]*m")

func highlight(text string) (hl string, panicked any) {
	defer func() {
		if r := recover(); r != nil {
			panicked = r
		}
	}()
	_, hl = parser.Parse([]rune(text), 0)
	return
}

func check(c Case) *core.Violation {
	text := normalise(c.Text)
	hl, p := highlight(text)
	if p != nil {
		return core.Violf("panic", "parser.Parse(%q, 0) panicked: %v", text, p)
	}
	got := rxSGR.ReplaceAllString(hl, "")
	if got != text {
		return core.Violf("text-changed", "input       %q\nhighlighted %q\nstripped    %q\nfirst difference at byte %d", text, hl, got, firstDiff(text, got))
	}
	return nil
}

func firstDiff(a, b string) int {
	n := len(a)
	if len(b) < n {
		n = len(b)
	}
	for i := 0; i < n; i++ {
		if a[i] != b[i] {
			return i
		}
	}
	return n
}

// ---------------------------------------------------------------------------
// classification

func tokenClasses(s string) []string {
	var cl []string
	add := func(ok bool, name string) {
		if ok {
			cl = append(cl, name)
		}
	}
	add(strings.ContainsAny(s, "'\"()"), "quote")
	add(strings.ContainsAny(s, "|;&?\n") || strings.Contains(s, "->") || strings.Contains(s, "=>") || strings.Contains(s, ">>"), "pipe")
	add(strings.ContainsAny(s, "{}[]"), "brace")
	add(strings.ContainsAny(s, "$@"), "var")
	add(strings.Contains(s, "\\"), "escape")
	add(strings.Contains(s, "#"), "comment")
	return cl
}

func classify(c Case) core.Class {
	text := normalise(c.Text)
	cl := tokenClasses(text)
	out := core.Class{Key: text, NonTrivial: len(cl) >= 2}
	switch {
	case len(cl) >= 4:
		out.Label = "classes>=4"
	case len(cl) >= 2:
		out.Label = fmt.Sprintf("classes=%d", len(cl))
	default:
		out.Label = "classes<2"
	}
	if out.NonTrivial && (strings.Contains(text, "\\->") || strings.Contains(text, "\\=>")) {
		out.Label += ",escaped-arrow"
	}
	return out
}

// ---------------------------------------------------------------------------
// known findings

// rxChopMinus / rxChopEquals match the exact damage of the known finding in
// the SGR-stripped output: the escaped `-` (`=`), the colour reset that lost
// its final `m`, and the `-` (`=`) written a second time in front of `>`.
var (
	rxChopMinus  = regexp.MustCompile("-\x1b\\[[0-9;]*->")
	rxChopEquals = regexp.MustCompile("=\x1b\\[[0-9;]*=>")
)

// known: C37-escaped-arrow-chops-escape-sequence. Root cause: the `->`/`=>`
// branch of parser.Parse removes the last *byte* of the highlighted string,
// assuming it is the `-`/`=` just written, and writes that character again in
// the pipe colour; when the character was escaped (`\->`, `\=>`) the last
// byte is the `m` of the colour reset that follows an escaped character.
// Matched only when (a) the text has an arrow whose first character directly
// follows a backslash and (b) undoing exactly that damage (`-ESC[digits->`
// back to `->`, same for `=`) gives back the text.
func known(c Case, v *core.Violation) string {
	if v.Kind != "text-changed" {
		return ""
	}
	text := normalise(c.Text)
	if !strings.Contains(text, "\\->") && !strings.Contains(text, "\\=>") {
		return ""
	}
	hl, p := highlight(text)
	if p != nil {
		return ""
	}
	got := rxSGR.ReplaceAllString(hl, "")
	got = rxChopMinus.ReplaceAllString(got, "->")
	got = rxChopEquals.ReplaceAllString(got, "=>")
	if got == text {
		return "C37-escaped-arrow-chops-escape-sequence"
	}
	return ""
}

var spec = core.Spec[Case]{
	ID: "C37", Gen: gen, Check: check, Classify: classify, Known: known,
	Sample: func(c Case) any { return c.Text },
}

func TestProp(t *testing.T)   { core.RunProp(t, spec) }
func TestReplay(t *testing.T) { core.Replay(t, spec) }

// FuzzHighlight is the native coverage-guided target of the thorough tier.
// The oracle is the same check; inputs are normalised into the domain.
func FuzzHighlight(f *testing.F) {
	for _, s := range []string{"out \\->x", "out \\=>", "out 'a' -> b", "a | b # c", "$(x)->@{y}", ""} {
		f.Add(s)
	}
	f.Fuzz(func(t *testing.T, s string) {
		c := Case{Text: normalise(s)}
		if v := core.Eval(spec, c, false); v != nil {
			t.Fatalf("C37 violated: %s", v.Error())
		}
	})
}
