// Package oracle holds the C37 oracle. It imports only utils/parser so that
// the native fuzz target in ../fz links a small binary (linking all of murex
// through harness/core makes `go test -fuzz` about ten times slower: every
// dependency is coverage-instrumented and scanned after each input).
package oracle

import (
	"encoding/json"
	"fmt"
	"os"
	"regexp"
	"strings"
	"unicode/utf8"

	"github.com/lmorg/murex/utils/parser"
)

// Normalise maps any string into the domain: valid UTF-8 (what a []rune typed
// on a terminal converts to), no ESC, at most 300 runes.
func Normalise(s string) string {
	if !utf8.ValidString(s) {
		s = string([]rune(s))
	}
	if strings.ContainsRune(s, 0x1b) {
		s = strings.ReplaceAll(s, "\x1b", "")
	}
	if utf8.RuneCountInString(s) > 300 {
		s = string([]rune(s)[:300])
	}
	return s
}

var rxSGR = regexp.MustCompile("\x1b\\[[0-9;]*m")

// Highlight is shell.syntaxHighlight: parser.Parse(line, 0).
func Highlight(text string) (hl string, panicked any) {
	defer func() {
		if r := recover(); r != nil {
			panicked = r
		}
	}()
	_, hl = parser.Parse([]rune(text), 0)
	return
}

// Check returns ("", "") when strip(highlight(text)) == text.
func Check(text string) (kind, msg string) {
	text = Normalise(text)
	hl, p := Highlight(text)
	if p != nil {
		return "panic", fmt.Sprintf("parser.Parse(%q, 0) panicked: %v", text, p)
	}
	got := rxSGR.ReplaceAllString(hl, "")
	if got != text {
		return "text-changed", fmt.Sprintf("input       %q\nhighlighted %q\nstripped    %q\nfirst difference at byte %d", text, hl, got, firstDiff(text, got))
	}
	return "", ""
}

func firstDiff(a, b string) int {
	n := len(a)
	if len(b) < n {
		n = len(b)
	}
	for i := 0; i < n; i++ {
		if a[i] != b[i] {
			return i
		}
	}
	return n
}

// rxChopMinus / rxChopEquals match the exact damage of the known finding in
// the SGR-stripped output: the escaped `-` (`=`), the colour reset that lost
// its final `m`, and the `-` (`=`) written a second time in front of `>`.
var (
	rxChopMinus  = regexp.MustCompile("-\x1b\\[[0-9;]*->")
	rxChopEquals = regexp.MustCompile("=\x1b\\[[0-9;]*=>")
)

// Known: C37-escaped-arrow-chops-escape-sequence. Root cause: the `->`/`=>`
// branch of parser.Parse removes the last *byte* of the highlighted string,
// assuming it is the `-`/`=` just written, and writes that character again in
// the pipe colour; when the character was escaped (`\->`, `\=>`) the last
// byte is the `m` of the colour reset that follows an escaped character.
// Matched only when (a) the text has an arrow whose first character directly
// follows a backslash and (b) undoing exactly that damage (`-ESC[digits->`
// back to `->`, same for `=`) gives back the text.
func Known(text, kind string) string {
	if kind != "text-changed" {
		return ""
	}
	text = Normalise(text)
	if !strings.Contains(text, "\\->") && !strings.Contains(text, "\\=>") {
		return ""
	}
	hl, p := Highlight(text)
	if p != nil {
		return ""
	}
	got := rxSGR.ReplaceAllString(hl, "")
	got = rxChopMinus.ReplaceAllString(got, "->")
	got = rxChopEquals.ReplaceAllString(got, "=>")
	if got == text {
		return "C37-escaped-arrow-chops-escape-sequence"
	}
	return ""
}

// TokenClasses lists the syntax classes present in s.
func TokenClasses(s string) []string {
	var cl []string
	add := func(ok bool, name string) {
		if ok {
			cl = append(cl, name)
		}
	}
	add(strings.ContainsAny(s, "'\"()"), "quote")
	add(strings.ContainsAny(s, "|;&?\n") || strings.Contains(s, "->") || strings.Contains(s, "=>") || strings.Contains(s, ">>"), "pipe")
	add(strings.ContainsAny(s, "{}[]"), "brace")
	add(strings.ContainsAny(s, "$@"), "var")
	add(strings.Contains(s, "\\"), "escape")
	add(strings.Contains(s, "#"), "comment")
	return cl
}

// IsKnownOpen reports whether id is an open entry of known_findings.json
// (same rule as core.IsKnownOpen; duplicated here to keep this package light).
func IsKnownOpen(id string) bool {
	if id == "" {
		return false
	}
	path := os.Getenv("VERIF_KNOWN")
	if path == "" {
		path = "/verif/known_findings.json"
	}
	b, err := os.ReadFile(path)
	if err != nil {
		return false
	}
	var doc struct {
		Findings []struct {
			ID     string `json:"id"`
			Status string `json:"status"`
		} `json:"findings"`
	}
	if json.Unmarshal(b, &doc) != nil {
		return false
	}
	for _, f := range doc.Findings {
		if f.ID == id && f.Status == "open" {
			return true
		}
	}
	return false
}

// FuzzOne is the body of the native fuzz target: "" = holds or known finding.
func FuzzOne(s string) string {
	text := Normalise(s)
	kind, msg := Check(text)
	if kind == "" {
		return ""
	}
	if id := Known(text, kind); id != "" && knownOpenCached(id) {
		return ""
	}
	return kind + ": " + msg
}

var knownCache = map[string]bool{}

func knownOpenCached(id string) bool {
	v, ok := knownCache[id]
	if !ok {
		v = IsKnownOpen(id)
		knownCache[id] = v
	}
	return v
}
