// Package fz holds the native fuzz target of C37 in a package that links only
// utils/parser (see ../oracle). The seed corpus is ../testdata (symlink).
package fz

import (
	"testing"

	"verif/harness/props/c37/oracle"
)

func FuzzHighlight(f *testing.F) {
	for _, s := range []string{"out \\->x", "out \\=>", "out 'a' -> b", "a | b # c", "$(x)->@{y}"} {
		f.Add(s)
	}
	f.Fuzz(func(t *testing.T, s string) {
		if msg := oracle.FuzzOne(s); msg != "" {
			t.Fatalf("C37 violated: %s", msg)
		}
	})
}
