// C27 — Job IDs stay stable while jobs run.
//
// Domain: histories of add / terminate / garbage-collect / lookup operations
// on a fresh lang.NewJobs() registry (the type behind lang.Jobs, which `jobs`,
// `fg` and `bg` read).
// Oracle: a model that *learns* the id of each job when it is first listed
// (the statement does not fix which number a new job gets) and then checks,
// after every step, the four clauses of the statement against List, Get,
// GetLatest and GetFromCommandLine.
package c27

import (
	"fmt"
	"os"
	"sort"
	"strconv"
	"strings"
	"testing"

	"github.com/lmorg/murex/lang"
	"pgregory.net/rapid"
	"verif/harness/core"
)

func TestMain(m *testing.M) { core.Main(m, "C27") }

// Op is one step of a history.
//
//	add        register a new running job
//	term  Arg  the (Arg mod running)-th running job (ascending id) finishes
//	gc         Jobs.GarbageCollect()
//	get   Arg  Jobs.Get(Arg) (checked like every other id, adds out-of-range ids)
type Op struct {
	Kind string `json:"kind"`
	Arg  int    `json:"arg,omitempty"`
}

type Case struct {
	Ops []Op `json:"ops"`
}

const maxAlive = 8

// The generator is stateless (a slice of independent ops) so that rapid can
// delete any op while shrinking; the "at most 8 running jobs" bound of the
// quantifier is applied by check (an add beyond it is skipped, see there).
var opGen = rapid.Custom(func(t *rapid.T) Op {
	k := rapid.SampledFrom([]string{"get", "gc", "gc", "gc", "term", "term", "term", "add", "add", "add", "add"}).Draw(t, "op")
	op := Op{Kind: k}
	switch k {
	case "term":
		op.Arg = rapid.IntRange(0, maxAlive-1).Draw(t, "which")
	case "get":
		op.Arg = rapid.IntRange(-2, 14).Draw(t, "id")
	}
	return op
})

func gen(t *rapid.T) Case {
	min := rapid.IntRange(1, 30).Draw(t, "minlen") // rapid's slices are short by default
	return Case{Ops: rapid.SliceOfN(opGen, min, 40).Draw(t, "ops")}
}

// job is the model's view of one job.
type job struct {
	p       *lang.Process
	n       int // creation number (for messages)
	id      int // learned when first listed
	running bool
}

func parseJobID(s string) (int, bool) {
	if !strings.HasPrefix(s, "%") {
		return 0, false
	}
	n, err := strconv.Atoi(s[1:])
	return n, err == nil
}

func check(c Case) *core.Violation {
	jobs := lang.NewJobs()
	var (
		all     []*job // every job ever added
		byProc  = map[*lang.Process]*job{}
		running = map[int]*job{} // id -> running job
		used    = map[int]bool{} // ids ever issued
		maxID   = 0
		trace   []string
	)
	fail := func(kind, format string, a ...any) *core.Violation {
		return core.Violf(kind, "%s\nhistory so far: %s", fmt.Sprintf(format, a...), strings.Join(trace, " "))
	}
	runningIDs := func() []int {
		var ids []int
		for id := range running {
			ids = append(ids, id)
		}
		sort.Ints(ids)
		return ids
	}

	for step, op := range c.Ops {
		var added *job
		switch op.Kind {
		case "add":
			if len(running) >= maxAlive {
				trace = append(trace, "add(skipped)")
				break
			}
			p := new(lang.Process)
			added = &job{p: p, n: len(all) + 1, running: true}
			all = append(all, added)
			byProc[p] = added
			jobs.Add(p)
			trace = append(trace, fmt.Sprintf("add(j%d)", added.n))
		case "term":
			ids := runningIDs()
			if len(ids) == 0 {
				trace = append(trace, "term(-)")
				break
			}
			j := running[ids[op.Arg%len(ids)]]
			j.p.SetTerminatedState(true)
			j.running = false
			delete(running, j.id)
			trace = append(trace, fmt.Sprintf("term(j%d=%%%d)", j.n, j.id))
		case "gc":
			jobs.GarbageCollect()
			trace = append(trace, "gc")
		case "get":
			trace = append(trace, fmt.Sprintf("get(%d)", op.Arg))
		default:
			return core.Violf("bad-case", "unknown op %q", op.Kind)
		}

		// ---- observe: `jobs` -------------------------------------------------
		list := jobs.List()
		seenID := map[int]bool{}
		seenJob := map[*job]bool{}
		for _, e := range list {
			id, ok := parseJobID(e.JobId)
			if !ok || id < 1 {
				return fail("bad-id", "step %d: List returned job id %q", step, e.JobId)
			}
			if seenID[id] {
				return fail("duplicate-id", "step %d: List shows id %%%d twice", step, id)
			}
			seenID[id] = true
			j := byProc[e.Process]
			if j == nil {
				return fail("foreign-process", "step %d: List shows a process under %%%d that was never added (nil=%v)", step, id, e.Process == nil)
			}
			if seenJob[j] {
				return fail("duplicate-job", "step %d: List shows job j%d twice", step, j.n)
			}
			seenJob[j] = true
			if !j.running {
				return fail("finished-listed", "step %d: List shows finished job j%d as %%%d", step, j.n, id)
			}
			if j == added {
				// a new job: learn its id and check the reuse rule
				if other := running[id]; other != nil {
					return fail("id-of-running-job", "step %d: new job j%d got id %%%d which running job j%d holds", step, j.n, id, other.n)
				}
				if used[id] {
					for _, rid := range runningIDs() {
						if rid >= id {
							return fail("early-reuse", "step %d: new job j%d reuses id %%%d while job j%d with id %%%d still runs", step, j.n, id, running[rid].n, rid)
						}
					}
				}
				j.id = id
				used[id] = true
				running[id] = j
				if id > maxID {
					maxID = id
				}
				continue
			}
			if j.id != id {
				return fail("renumbered", "step %d: running job j%d was %%%d and is now listed as %%%d", step, j.n, j.id, id)
			}
		}
		if added != nil && !seenJob[added] {
			return fail("running-not-listed", "step %d: newly added job j%d is not listed", step, added.n)
		}
		for id, j := range running {
			if !seenJob[j] {
				return fail("running-not-listed", "step %d: running job j%d (%%%d) is missing from List", step, j.n, id)
			}
		}

		// ---- observe: `fg`/`bg` %n lookups -------------------------------------
		lo, hi := -1, maxID+3
		if op.Kind == "get" {
			if op.Arg < lo {
				lo = op.Arg
			}
			if op.Arg > hi {
				hi = op.Arg
			}
		}
		for id := lo; id <= hi; id++ {
			p, err := jobs.Get(id)
			want := running[id]
			switch {
			case want == nil && err == nil:
				what := "an unknown process"
				if j := byProc[p]; j != nil {
					what = fmt.Sprintf("finished job j%d", j.n)
					if j.running {
						what = fmt.Sprintf("running job j%d whose id is %%%d", j.n, j.id)
					}
				} else if p == nil {
					what = "a nil process without an error"
				}
				return fail("get-not-running", "step %d: Get(%d) returned %s; no running job has that id", step, id, what)
			case want != nil && err != nil:
				return fail("get-running-failed", "step %d: Get(%d) failed (%v) but job j%d runs under that id", step, id, err, want.n)
			case want != nil && p != want.p:
				return fail("get-wrong-job", "step %d: Get(%d) returned another process than job j%d", step, id, want.n)
			}
		}

		// ---- observe: `fg`/`bg` without / with a command-line argument ----------
		for _, q := range []struct {
			name string
			f    func() (*lang.Process, error)
		}{
			{"GetLatest", jobs.GetLatest},
			{"GetFromCommandLine", func() (*lang.Process, error) { return jobs.GetFromCommandLine("") }},
		} {
			p, err := q.f()
			if err != nil {
				if len(running) > 0 {
					return fail("latest-failed", "step %d: %s failed (%v) although %d jobs run", step, q.name, err, len(running))
				}
				continue
			}
			j := byProc[p]
			if j == nil || !j.running {
				return fail("latest-not-running", "step %d: %s returned a process that is not a running job (known=%v)", step, q.name, j != nil)
			}
		}
	}
	return nil
}

// shape replays the history on a plain reference numbering (slice with
// trailing trim) — used ONLY to classify cases, never as an oracle.
//
//	gap : a gc collected a finished job while a job with a higher id still ran
//	      (renumbering hazard)
//	trim: a gc collected a finished job above which nothing ran while a job
//	      with a lower id still ran (id reuse hazard)
func shape(c Case) (gap, trim, addAfter, reuse bool, gcs int) {
	var slots []int // 0 = empty, 1 = running, 2 = finished (not collected)
	used := map[int]bool{}
	for _, op := range c.Ops {
		switch op.Kind {
		case "add":
			nrun := 0
			for _, s := range slots {
				if s == 1 {
					nrun++
				}
			}
			if nrun >= maxAlive {
				continue
			}
			slots = append(slots, 1)
			if gap || trim {
				addAfter = true
			}
			if used[len(slots)] {
				reuse = true
			}
			used[len(slots)] = true
		case "term":
			var run []int
			for i, s := range slots {
				if s == 1 {
					run = append(run, i)
				}
			}
			if len(run) > 0 {
				slots[run[op.Arg%len(run)]] = 2
			}
		case "gc":
			gcs++
			highestRunning, lowestRunning := -1, -1
			for i, s := range slots {
				if s == 1 {
					highestRunning = i
					if lowestRunning < 0 {
						lowestRunning = i
					}
				}
			}
			for i, s := range slots {
				if s != 2 {
					continue
				}
				slots[i] = 0
				if i < highestRunning {
					gap = true
				} else if lowestRunning >= 0 {
					trim = true
				}
			}
			for len(slots) > 0 && slots[len(slots)-1] == 0 {
				slots = slots[:len(slots)-1]
			}
		}
	}
	return
}

func classify(c Case) core.Class {
	var b strings.Builder
	for _, op := range c.Ops {
		b.WriteString(op.Kind[:2])
		if op.Kind == "term" || op.Kind == "get" {
			b.WriteString(strconv.Itoa(op.Arg))
		}
		b.WriteByte(' ')
	}
	gap, trim, addAfter, reuse, gcs := shape(c)
	cl := core.Class{Key: b.String(), NonTrivial: (gap || trim) && addAfter}
	switch {
	case cl.NonTrivial:
		var l []string
		if gap {
			l = append(l, "gc-below-running")
		}
		if trim {
			l = append(l, "gc-above-running")
		}
		l = append(l, "later-add")
		if reuse {
			l = append(l, "id-reused")
		}
		cl.Label = strings.Join(l, ",")
	case gcs > 0:
		cl.Label = "gc-trivial"
	default:
		cl.Label = "no-gc"
	}
	return cl
}

func known(c Case, v *core.Violation) string { return "" }

var spec = core.Spec[Case]{
	ID: "C27", Gen: gen, Check: check, Classify: classify, Known: known,
	Sample: func(c Case) any {
		var s []string
		for _, op := range c.Ops {
			if op.Kind == "term" || op.Kind == "get" {
				s = append(s, fmt.Sprintf("%s(%d)", op.Kind, op.Arg))
			} else {
				s = append(s, op.Kind)
			}
		}
		return strings.Join(s, " ")
	},
}

func TestProp(t *testing.T) { core.RunProp(t, spec) }
func TestReplay(t *testing.T) {
	// a concurrent-mode case (conc_test.go) is recognised by its "adders" field
	if b, err := os.ReadFile(os.Getenv("VERIF_REPLAY")); err == nil && strings.Contains(string(b), "\"adders\"") {
		s := concSpec
		s.Check = func(c ConcCase) *core.Violation {
			c.Rounds *= 50 // the window is narrow
			return checkConc(c)
		}
		core.Replay(t, s)
		return
	}
	core.Replay(t, spec)
}
