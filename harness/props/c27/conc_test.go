package c27

// Concurrent mode: job control is used from several goroutines at once (every
// `bg` block and every process with a job id calls Jobs.Add from its own
// goroutine, and every finishing job calls GarbageCollect). In every round a
// registry is prepared with some running jobs followed by finished ones, then
// a garbage collection and 1-3 Add calls run at the same moment. Whatever the
// interleaving: every job that was added and is still running must be listed
// exactly once under an id that Get resolves to it, and the jobs that were
// already running keep their ids.

import (
	"fmt"
	"runtime"
	"sync"
	"testing"

	"github.com/lmorg/murex/lang"
	"pgregory.net/rapid"
	"verif/harness/core"
)

type ConcCase struct {
	Running  int `json:"running"`  // running jobs at the front
	Finished int `json:"finished"` // finished jobs behind them
	Adders   int `json:"adders"`
	GCs      int `json:"gcs"`
	Rounds   int `json:"rounds"`
	Procs    int `json:"gomaxprocs"`
}

func genConc(t *rapid.T) ConcCase {
	return ConcCase{
		Running:  rapid.IntRange(0, 3).Draw(t, "running"),
		Finished: rapid.IntRange(1, 5).Draw(t, "finished"),
		Adders:   rapid.IntRange(1, 3).Draw(t, "adders"),
		GCs:      rapid.IntRange(1, 2).Draw(t, "gcs"),
		Rounds:   rapid.SampledFrom([]int{500, 2000, 5000}).Draw(t, "rounds"),
		Procs:    rapid.SampledFrom([]int{2, 4, 16}).Draw(t, "procs"),
	}
}

func checkConc(c ConcCase) *core.Violation {
	old := runtime.GOMAXPROCS(c.Procs)
	defer runtime.GOMAXPROCS(old)
	for r := 0; r < c.Rounds; r++ {
		jobs := lang.NewJobs()
		var before []*lang.Process
		for i := 0; i < c.Running; i++ {
			p := new(lang.Process)
			jobs.Add(p)
			before = append(before, p)
		}
		for i := 0; i < c.Finished; i++ {
			p := new(lang.Process)
			jobs.Add(p)
			p.SetTerminatedState(true)
		}
		start := make(chan struct{})
		var wg sync.WaitGroup
		added := make([]*lang.Process, c.Adders)
		for i := range added {
			added[i] = new(lang.Process)
			wg.Add(1)
			go func(p *lang.Process) { defer wg.Done(); <-start; jobs.Add(p) }(added[i])
		}
		for i := 0; i < c.GCs; i++ {
			wg.Add(1)
			go func() { defer wg.Done(); <-start; jobs.GarbageCollect() }()
		}
		close(start)
		wg.Wait()

		ids := map[*lang.Process]int{}
		seen := map[int]bool{}
		for _, e := range jobs.List() {
			id, ok := parseJobID(e.JobId)
			if !ok || id < 1 {
				return core.Violf("bad-id", "round %d: List returned job id %q", r, e.JobId)
			}
			if seen[id] {
				return core.Violf("duplicate-id", "round %d: List shows id %%%d twice", r, id)
			}
			seen[id] = true
			if _, dup := ids[e.Process]; dup {
				return core.Violf("listed-twice", "round %d: a job is listed twice", r)
			}
			ids[e.Process] = id
		}
		for i, p := range before {
			if ids[p] != i+1 {
				return core.Violf("renumbered", "round %d: job %%%d was running throughout but `jobs` now shows it as %%%d (0 = not listed); %d running + %d finished jobs, %d concurrent adds, %d concurrent collections",
					r, i+1, ids[p], c.Running, c.Finished, c.Adders, c.GCs)
			}
		}
		for i, p := range added {
			id, ok := ids[p]
			if !ok {
				return core.Violf("running-not-listed", "round %d: job number %d added while a garbage collection ran is running but missing from `jobs`; %d running + %d finished jobs before, %d concurrent adds, %d concurrent collections",
					r, i, c.Running, c.Finished, c.Adders, c.GCs)
			}
			if got, err := jobs.Get(id); err != nil || got != p {
				return core.Violf("get-mismatch", "round %d: `jobs` lists an added job as %%%d but Get(%d) = %v, %v", r, id, id, got != nil, err)
			}
		}
	}
	core.Count("conc_rounds", c.Rounds)
	return nil
}

var concSpec = core.Spec[ConcCase]{
	ID: "C27", Gen: genConc, Check: checkConc,
	Classify: func(c ConcCase) core.Class {
		return core.Class{NonTrivial: true, Label: fmt.Sprintf("conc:gc-vs-%d-adds", c.Adders),
			Key: fmt.Sprintf("conc %d %d %d %d %d %d", c.Running, c.Finished, c.Adders, c.GCs, c.Rounds, c.Procs)}
	},
}

func TestPropConc(t *testing.T) { core.RunProp(t, concSpec) }
