// C33 — Redirections route output exactly as written.
//
// Domain (Kind "stream"): one emitter command writing a chosen payload to its
// stdout and another to its stderr (a Go builtin, a murex function wrapping it,
// a `try` block wrapping it, or the `out` / `err` builtins), carrying any
// combination of one stdout redirection (<err>, <null>, <out>, none) and one
// stderr redirection (<!out>, <!null>, <!err>, none); placed last in the block,
// followed by another command, or piped into a reader; at top level, inside a
// function, inside `try`, inside `if`.
// Domain (Kind "file"): the emitter piped into `|>`, `>`, `fwrite` (truncate)
// or `>>`, `fappend` (append) with a target file that does not exist, is empty
// or holds previous bytes.
// Oracle: routing table of the statement.
package c33

import (
	"bytes"
	"fmt"
	"os"
	"path/filepath"
	"strings"
	"testing"

	"github.com/lmorg/murex/lang"
	"github.com/lmorg/murex/lang/types"
	"pgregory.net/rapid"
	"verif/harness/core"
)

const findingBangOut = "C33-bangout-without-pipe-loses-stderr"

// Payload is Lit repeated Rep times (Rep 0 = once). Keeps big payloads small
// in replay files.
type Payload struct {
	Lit []byte `json:"lit"`
	Rep int    `json:"rep,omitempty"`
}

func (p Payload) Bytes() []byte {
	if p.Rep <= 1 {
		return p.Lit
	}
	return bytes.Repeat(p.Lit, p.Rep)
}

type Case struct {
	Kind     string   `json:"kind"`    // stream | file
	Emitter  string   `json:"emitter"` // go | fn | try | out | err
	Out      Payload  `json:"out"`     // go/fn/try: bytes written to stdout
	Err      Payload  `json:"err"`     // go/fn/try: bytes written to stderr
	ErrFirst bool     `json:"err_first,omitempty"`
	Text     string   `json:"text,omitempty"` // out/err emitters: the printed word
	Redir    []string `json:"redir"`          // redirection tokens, in source order
	Context  string   `json:"context"`        // top | function | try | if
	Position string   `json:"position"`       // last | middle | piped | arrow
	Out2     Payload  `json:"out2"`           // payloads of the follow-up command (position middle)
	Err2     Payload  `json:"err2"`
	// file kind
	Op      string  `json:"op,omitempty"` // "|>" "| >" "-> fwrite" ">>" "| fappend" "-> fappend"
	// OpFlag: a flag of the file writers placed in front of the file name
	// ("" | -w | --wait-for-eof | -i | --ignore-pipeline-check); none of them
	// changes what ends up in the file.
	OpFlag string `json:"op_flag,omitempty"`
	HasPrev bool    `json:"has_prev,omitempty"`
	Prev    Payload `json:"prev"`
}

// cur is the case being executed: the emitter builtins take their payloads
// from it (no quoting involved).
var cur Case

func writeChunked(w interface{ Write([]byte) (int, error) }, b []byte) {
	const chunk = 32 * 1024
	if len(b) <= 2*chunk {
		w.Write(b)
		return
	}
	for len(b) > 0 {
		n := chunk
		if n > len(b) {
			n = len(b)
		}
		w.Write(b[:n])
		b = b[n:]
	}
}

func TestMain(m *testing.M) {
	core.InitMurex()
	// c33emit a|b: writes the case's payloads to stdout and stderr.
	lang.DefineFunction("c33emit", func(p *lang.Process) error {
		which, _ := p.Parameters.String(0)
		o, e := cur.Out.Bytes(), cur.Err.Bytes()
		if which == "b" {
			o, e = cur.Out2.Bytes(), cur.Err2.Bytes()
		}
		p.Stdout.SetDataType(types.Generic)
		if cur.ErrFirst {
			writeChunked(p.Stderr, e)
			writeChunked(p.Stdout, o)
		} else {
			writeChunked(p.Stdout, o)
			writeChunked(p.Stderr, e)
		}
		return nil
	}, types.Generic)
	// c33cat: copies stdin to stdout between brackets.
	lang.DefineMethod("c33cat", func(p *lang.Process) error {
		b, err := p.Stdin.ReadAll()
		if err != nil {
			return err
		}
		p.Stdout.SetDataType(types.Generic)
		p.Stdout.Write(append(append([]byte("["), b...), ']'))
		return nil
	}, types.Any, types.Generic)
	if r := core.Run("function c33fn {\n    c33emit a\n}\n"); r.Err != nil || r.Exit != 0 {
		fmt.Fprintln(os.Stderr, "cannot define c33fn:", r.Err, string(r.Stderr))
		os.Exit(2)
	}
	core.Main(m, "C33")
}

var workDir string

// scratch creates the per-process scratch directory; the returned function
// removes it (core.Main ends in os.Exit, so the tests clean up themselves).
func scratch() func() {
	workDir = core.WorkDir("C33")
	return func() { core.CleanWorkDir("C33") }
}

// ---------------------------------------------------------------------------
// model

func (c Case) payloads() (o, e []byte) {
	switch c.Emitter {
	case "out":
		return []byte(c.Text + "\n"), nil
	case "err":
		return nil, []byte(c.Text + "\n")
	}
	return c.Out.Bytes(), c.Err.Bytes()
}

// dests: where the emitter's stdout and stderr are sent: "out", "err", "null".
func (c Case) dests() (outDest, errDest string) {
	outDest, errDest = "out", "err"
	for _, r := range c.Redir {
		switch r {
		case "<err>":
			outDest = "err"
		case "<null>":
			outDest = "null"
		case "<out>":
			outDest = "out"
		case "<!out>":
			errDest = "out"
		case "<!null>":
			errDest = "null"
		case "<!err>":
			errDest = "err"
		}
	}
	return
}

// routed: the byte sequences arriving at the emitter's stdout destination and
// at stderr. Each is a list of parts whose relative order is not asserted.
func (c Case) routed() (toOut, toErr [][]byte) {
	o, e := c.payloads()
	od, ed := c.dests()
	add := func(dst string, b []byte) {
		if len(b) == 0 {
			return
		}
		switch dst {
		case "out":
			toOut = append(toOut, b)
		case "err":
			toErr = append(toErr, b)
		}
	}
	add(od, o)
	add(ed, e)
	return
}

// orders: every concatenation order of the parts (at most two parts).
func orders(parts [][]byte) [][]byte {
	switch len(parts) {
	case 0:
		return [][]byte{{}}
	case 1:
		return [][]byte{parts[0]}
	}
	return [][]byte{
		append(append([]byte{}, parts[0]...), parts[1]...),
		append(append([]byte{}, parts[1]...), parts[0]...),
	}
}

func wrapAll(alts [][]byte, pre, post []byte) [][]byte {
	out := make([][]byte, len(alts))
	for i, a := range alts {
		out[i] = append(append(append([]byte{}, pre...), a...), post...)
	}
	return out
}

func anyEqual(alts [][]byte, got []byte) bool {
	for _, a := range alts {
		if bytes.Equal(a, got) {
			return true
		}
	}
	return false
}

// ---------------------------------------------------------------------------
// source

func (c Case) emitterSrc() string {
	redir := ""
	if len(c.Redir) > 0 {
		redir = " " + strings.Join(c.Redir, " ")
	}
	switch c.Emitter {
	case "go":
		return "c33emit" + redir + " a"
	case "fn":
		return "c33fn" + redir
	case "try":
		return "try" + redir + " { c33emit a }"
	case "out":
		return "out" + redir + " " + c.Text
	case "err":
		return "err" + redir + " " + c.Text
	}
	panic("bad emitter " + c.Emitter)
}

func (c Case) target() string { return filepath.Join(workDir, "target.bin") }

func (c Case) Source() string {
	stmt := c.emitterSrc()
	if c.Kind == "file" {
		tgt := c.target()
		if c.OpFlag != "" {
			tgt = c.OpFlag + " " + tgt
		}
		switch c.Op {
		case "|>", ">>":
			stmt += " " + c.Op + " " + tgt
		case "| >", "| fappend":
			stmt += " | " + c.Op[2:] + " " + tgt
		case "-> fwrite", "-> fappend":
			stmt += " " + c.Op + " " + tgt
		default:
			panic("bad op " + c.Op)
		}
	} else {
		switch c.Position {
		case "middle":
			stmt += "\nc33emit b"
		case "piped":
			stmt += " | c33cat"
		case "arrow":
			stmt += " -> c33cat"
		}
	}
	switch c.Context {
	case "function":
		return "function c33ctx {\n" + stmt + "\n}\nc33ctx\n"
	case "try":
		return "try {\n" + stmt + "\n}\n"
	case "if":
		return "if { true } then {\n" + stmt + "\n}\n"
	}
	return stmt + "\n"
}

// ---------------------------------------------------------------------------
// check

func clip(b []byte) string {
	if len(b) > 120 {
		return fmt.Sprintf("%q… (%d bytes)", b[:120], len(b))
	}
	return fmt.Sprintf("%q", b)
}

func clipAlts(alts [][]byte) string {
	var s []string
	for _, a := range alts {
		s = append(s, clip(a))
	}
	return strings.Join(s, " or ")
}

func check(c Case) *core.Violation {
	cur = c
	core.Count("emitter="+c.Emitter, 1)
	core.Count("context="+c.Context, 1)
	src := c.Source()
	toOut, toErr := c.routed()
	piped := c.Kind == "file" || c.Position == "piped" || c.Position == "arrow"

	var wantStdout, wantStderr [][]byte
	var wantFile [][]byte
	if c.Kind == "file" {
		os.Remove(c.target())
		if c.HasPrev {
			if err := os.WriteFile(c.target(), c.Prev.Bytes(), 0o644); err != nil {
				panic(err)
			}
		}
		wantStdout = [][]byte{{}}
		wantStderr = orders(toErr)
		wantFile = orders(toOut)
		if c.HasPrev && (strings.Contains(c.Op, ">>") || strings.Contains(c.Op, "fappend")) {
			wantFile = wrapAll(wantFile, c.Prev.Bytes(), nil)
		}
	} else {
		switch c.Position {
		case "last":
			wantStdout, wantStderr = orders(toOut), orders(toErr)
		case "middle":
			wantStdout = wrapAll(orders(toOut), nil, c.Out2.Bytes())
			wantStderr = wrapAll(orders(toErr), nil, c.Err2.Bytes())
		case "piped", "arrow":
			wantStdout = wrapAll(orders(toOut), []byte("["), []byte("]"))
			wantStderr = orders(toErr)
		}
	}

	r := core.Run(src)
	if r.Hung {
		return core.Violf("hang", "program did not finish\n%s", src)
	}
	if r.Err != nil {
		return core.Violf("exec-error", "%s\nerr=%v", src, r.Err)
	}
	okStreams := anyEqual(wantStdout, r.Stdout) && anyEqual(wantStderr, r.Stderr)
	var gotFile []byte
	okFile := true
	if c.Kind == "file" {
		b, err := os.ReadFile(c.target())
		os.Remove(c.target())
		switch {
		case err != nil && len(wantFile[0]) == 0 && !c.HasPrev:
			// nothing was piped in and there was no file: a missing file holds no bytes
		case err != nil:
			return core.Violf("file-missing", "%s\nfile not readable afterwards: %v\nwant %s\nstdout=%s stderr=%s", src, err, clipAlts(wantFile), clip(r.Stdout), clip(r.Stderr))
		default:
			gotFile = b
			okFile = anyEqual(wantFile, b)
		}
	}
	if okStreams && okFile {
		return nil
	}
	kind := "mismatch"
	if c.Kind == "file" && !okFile {
		kind = "file-mismatch"
	}
	// The one listed defect: `<!out>` on a command that is not followed by a
	// pipe sends stderr nowhere. Recognise exactly that outcome.
	if _, ed := c.dests(); ed == "out" && !piped {
		_, e := c.payloads()
		if len(e) > 0 {
			lost := c
			lost.Emitter, lost.Text = "go", ""
			o, _ := c.payloads()
			lost.Out, lost.Err = Payload{Lit: o}, Payload{}
			lo, le := lost.routed()
			ws, we := orders(lo), orders(le)
			if c.Position == "middle" {
				ws = wrapAll(ws, nil, c.Out2.Bytes())
				we = wrapAll(we, nil, c.Err2.Bytes())
			}
			if anyEqual(ws, r.Stdout) && anyEqual(we, r.Stderr) {
				kind = "bangout-unpiped-stderr-lost"
			}
		}
	}
	msg := fmt.Sprintf("%s\nemitter writes stdout=%s stderr=%s\nwant stdout=%s stderr=%s\ngot  stdout=%s stderr=%s",
		src, clip(first(c.payloads())), clip(second(c.payloads())), clipAlts(wantStdout), clipAlts(wantStderr), clip(r.Stdout), clip(r.Stderr))
	if c.Kind == "file" {
		msg += fmt.Sprintf("\nprevious file contents (exists=%v)=%s\nwant file=%s\ngot  file=%s", c.HasPrev, clip(c.Prev.Bytes()), clipAlts(wantFile), clip(gotFile))
	}
	return core.Violf(kind, "%s", msg)
}

func first(a, _ []byte) []byte  { return a }
func second(_, b []byte) []byte { return b }

// known: `<!out>` present, command not followed by a pipe, stderr payload
// non-empty, and the observed outcome is exactly "those stderr bytes vanished".
func known(c Case, v *core.Violation) string {
	if v.Kind == "bangout-unpiped-stderr-lost" {
		return findingBangOut
	}
	return ""
}

// ---------------------------------------------------------------------------
// generator

var words = []string{"foo", "bar", "x", "hello", "A1", "zz9", "ünï", "日本"}

func genPayload(t *rapid.T, label string, maxTotal int) Payload {
	switch rapid.IntRange(0, 11).Draw(t, label+"-kind") {
	case 0:
		return Payload{Lit: []byte{}}
	case 1, 2, 3:
		return Payload{Lit: []byte(rapid.SampledFrom(words).Draw(t, label+"-w") + "\n")}
	case 4, 5:
		return Payload{Lit: []byte(rapid.SampledFrom(words).Draw(t, label+"-w"))} // no trailing newline
	case 6:
		return Payload{Lit: []byte("l1\nl2\r\n\nl4\n")}
	case 7, 8:
		return Payload{Lit: rapid.SliceOfN(rapid.Byte(), 1, 48).Draw(t, label+"-bin")}
	case 9:
		return Payload{Lit: []byte("\x00\xff\x1b[31m\xc3\x28\n\x00")}
	default:
		lit := rapid.SliceOfN(rapid.Byte(), 1, 32).Draw(t, label+"-lit")
		total := rapid.SampledFrom([]int{1000, 4096, 65536, 70001, 300000, 1<<20 + 3, 3 << 20}).Draw(t, label+"-size")
		if total > maxTotal {
			total = maxTotal
		}
		return Payload{Lit: lit, Rep: total/len(lit) + 1}
	}
}

var outRedirs = []string{"", "", "<err>", "<err>", "<null>", "<out>"}
var errRedirs = []string{"", "", "<!out>", "<!out>", "<!null>", "<!err>"}

func genRedir(t *rapid.T) []string {
	o := rapid.SampledFrom(outRedirs).Draw(t, "oredir")
	e := rapid.SampledFrom(errRedirs).Draw(t, "eredir")
	var r []string
	if o != "" {
		r = append(r, o)
	}
	if e != "" {
		r = append(r, e)
	}
	if len(r) == 2 && rapid.Bool().Draw(t, "swap-order") {
		r[0], r[1] = r[1], r[0]
	}
	if r == nil {
		r = []string{}
	}
	return r
}

func genStream(t *rapid.T) Case {
	c := Case{Kind: "stream"}
	c.Emitter = rapid.SampledFrom([]string{"go", "go", "go", "fn", "fn", "try", "out", "err"}).Draw(t, "emitter")
	c.Redir = genRedir(t)
	c.Context = rapid.SampledFrom([]string{"top", "top", "function", "try", "if"}).Draw(t, "context")
	c.Position = rapid.SampledFrom([]string{"last", "last", "middle", "piped", "arrow"}).Draw(t, "position")
	// the harness reads the captured stdout/stderr only after the program
	// ends and a murex stream holds 1 MiB: keep the total well below it
	const max = 200000
	switch c.Emitter {
	case "out", "err":
		c.Text = rapid.SampledFrom(words).Draw(t, "text")
		if c.Emitter == "err" && c.Context == "try" && c.Position == "middle" {
			c.Position = "last" // `err` fails: `try` would not run the follow-up
		}
	default:
		c.Out = genPayload(t, "out", max)
		c.Err = genPayload(t, "err", max)
		c.ErrFirst = rapid.IntRange(0, 3).Draw(t, "errfirst") == 0
	}
	if c.Position == "middle" {
		c.Out2 = genPayload(t, "out2", max)
		c.Err2 = genPayload(t, "err2", max)
	}
	return c
}

func genFile(t *rapid.T) Case {
	c := Case{Kind: "file", Position: "piped"}
	c.Emitter = rapid.SampledFrom([]string{"go", "go", "fn", "try", "out"}).Draw(t, "emitter")
	c.Redir = genRedir(t)
	c.Context = rapid.SampledFrom([]string{"top", "top", "function", "try"}).Draw(t, "context")
	c.Op = rapid.SampledFrom([]string{"|>", "|>", "| >", "-> fwrite", ">>", ">>", "| fappend", "-> fappend"}).Draw(t, "op")
	c.OpFlag = rapid.SampledFrom([]string{"", "", "", "-w", "--wait-for-eof", "-i", "--ignore-pipeline-check"}).Draw(t, "opflag")
	if c.Emitter == "out" {
		c.Text = rapid.SampledFrom(words).Draw(t, "text")
	} else {
		// whatever ends on the captured stdout/stderr must stay far below
		// the 1 MiB a murex stream buffers (nobody reads them until the end)
		maxOut, maxErr := 4<<20, 200000
		od, ed := c.dests()
		if od == "err" {
			maxOut = 200000
		}
		if ed == "out" {
			maxErr = 2 << 20
		}
		c.Out = genPayload(t, "out", maxOut)
		c.Err = genPayload(t, "err", maxErr)
	}
	c.HasPrev = rapid.IntRange(0, 3).Draw(t, "hasprev") != 0
	if c.HasPrev {
		c.Prev = genPayload(t, "prev", 2<<20)
	}
	return c
}

// ---------------------------------------------------------------------------
// classification

func classify(c Case) core.Class {
	o, e := c.payloads()
	od, ed := c.dests()
	redirected := od != "out" || ed != "err"
	label := c.Kind + ":"
	if c.Kind == "file" {
		app := strings.Contains(c.Op, ">>") || strings.Contains(c.Op, "fappend")
		nt := c.HasPrev && len(c.Prev.Bytes()) > 0
		l := "truncate"
		if app {
			l = "append"
		}
		switch {
		case !c.HasPrev:
			l += ",new-file"
		case !nt:
			l += ",empty-file"
		default:
			l += ",prev-content"
		}
		if redirected {
			l += ",redirected"
		}
		return core.Class{NonTrivial: nt, Label: "file:" + l}
	}
	nt := redirected && len(o) > 0 && len(e) > 0 && !bytes.Equal(o, e)
	l := "out→" + od + ",err→" + ed + ":" + c.Position
	if !nt && redirected {
		l += ":one-stream-empty-or-equal"
	}
	return core.Class{NonTrivial: nt, Label: label + l}
}

func sample(c Case) any {
	o, e := c.payloads()
	return map[string]string{"source": c.Source(), "stdout_payload": clip(o), "stderr_payload": clip(e)}
}

var specStream = core.Spec[Case]{ID: "C33", Gen: genStream, Check: check, Classify: classify, Known: known, Sample: sample, Journal: true}
var specFile = core.Spec[Case]{ID: "C33", Gen: genFile, Check: check, Classify: classify, Known: known, Sample: sample, Journal: true}

func TestPropStream(t *testing.T) { defer scratch()(); core.RunProp(t, specStream) }
func TestPropFile(t *testing.T)   { defer scratch()(); core.RunProp(t, specFile) }
func TestReplay(t *testing.T)     { defer scratch()(); core.Replay(t, specStream) }
