// C19 — Murex code never crashes or hangs the shell.
//
// Adversarial program generator over the builtin vocabulary (an allow-list of
// builtins that compute in memory or only read the file system; interactive,
// destructive, network and non-terminating-by-design commands are left out),
// with malformed flags, wrong data types on stdin, out-of-range indexes,
// repeated pipe closes, undefined variables, odd quoting and nested blocks.
// Each program runs in-process in this test binary, which is the "shell
// process" of the statement: the driver journals every case, so a case that
// kills the process (a panic in a bare goroutine, fatal error: concurrent map
// writes, SIGSEGV) is attributed and reported.
package c19

import (
	"fmt"
	"os"
	"regexp"
	"strings"
	"sync"
	"testing"
	"time"

	"github.com/lmorg/murex/lang"
	"pgregory.net/rapid"
	"verif/harness/core"
)

var crashLog *os.File
var crashOff int64

func TestMain(m *testing.M) {
	core.InitMurex()
	core.HangBudget = 120 * time.Second
	// crash.Handler writes its "Murex has crashed" report to os.Stderr (the
	// variable), not to the program's stderr stream: capture it in a file so
	// check() can see it. Go runtime fatal errors still go to fd 2 (shard log).
	dir := core.WorkDir("C19")
	f, err := os.Create(dir + "/crash.log")
	if err == nil {
		crashLog = f
		os.Stderr = f
	}
	core.MainWith(m, "C19", func() { core.CleanWorkDir("C19") })
}

// newCrashText returns what crash.Handler printed since the last call.
func newCrashText() string {
	if crashLog == nil {
		return ""
	}
	st, err := crashLog.Stat()
	if err != nil || st.Size() <= crashOff {
		return ""
	}
	b := make([]byte, st.Size()-crashOff)
	n, _ := crashLog.ReadAt(b, crashOff)
	crashOff += int64(n)
	// ordinary error messages of processes whose stderr is the terminal also
	// land here; only crash reports count
	t := string(b[:n])
	for _, m := range crashMarkers {
		if strings.Contains(t, m) {
			return t
		}
	}
	return ""
}

type Case struct {
	Stmts []string `json:"stmts"`
}

func (c Case) Source() string { return strings.Join(c.Stmts, "\n") + "\n" }

// commands that only compute in memory (or read the file system). `pipe` and
// `!pipe` only appear in templates that close every pipe they open: a named
// pipe left open makes any later reader of it (or `get-type <name>`) block by
// design, and so does a `<name>` redirection later in the same block (it holds
// the pipe open from compile time on): the argument pool never names a pipe
// that a template creates.
var allow = []string{
	"!", "!and", "!or", "!if", "!match", "!regexp", "!escape", "!eschtml", "!escurl", "!set", "!global", "!catch",
	"!function", "!alias", "!private", "!test", "!base64", "!gz", "!bz2", "!summary", "!f", "!g", "!rx",
	"2darray", "=", "a", "addheading", "alias", "alter", "and", "append", "args", "base64", "bexists", "break",
	"cast", "catch", "continue", "count", "cpuarch", "cpucount", "datetime", "err", "escape", "esccli", "eschtml", "escurl",
	"exitnum", "f", "false", "fexec", "fid-list", "foreach", "format", "function", "g", "get-type", "global", "gz",
	"if", "is-null", "ja", "jsplit", "left", "let", "list.case", "map", "match", "method", "mjoin", "msort", "mtac",
	"murex-parser", "null", "or", "os", "out", "prefix", "prepend", "pretty", "printf", "private", "regexp", "return",
	"right", "round", "runmode", "runtime", "rx", "set", "struct-keys", "suffix", "summary", "switch", "ta", "tabulate", "test",
	"tout", "true", "try", "tryerr", "trypipe", "trypipeerr", "type", "unsafe", "unset", "version", "which", "~>", "history",
	"jobs", "autocomplete", "rand", "time",
}

var words = []string{"vfoo", "vbar", "vbaz", "vq1", "vq2"}

var argPool = []string{
	"--bad", "-x", "--", "-", "--help", "--str", "--num", "-b", "--flag=val", "-1", "0", "1", "2", "-4", "99999999999999999999", "1.5", "1e400", "NaN",
	"''", "\"\"", "\"a b\"", "'a\"b'", "%(a (b) c)", "%[1,2,3]", "%[]", "%{a:1,b:[1,2]}", "%{}", "$undef", "@undef", "$vfoo", "@vfoo", "$vfoo.a.b", "$vfoo[0]", "$vfoo[[/a]]",
	"*", "?", "~", "~nouser", "<err>", "<!out>", "<null>", "<nopipe>", "foo=bar", "vfoo=1", "=", ":", ",", "json", "str", "int", "num", "bool", "yaml", "jsonl", "csv", "toml", "*", "generic", "badtype",
	"s/a/b/", "m/(/", "f/x/", "s/a/", "m/a/", "f,a,", "[1..3]", "[..]", "[-1..]", "[a..z]", "[3..1]", "[01..10]", "[1..3,a..b]", "[",
	"{ out x }", "{ }", "{ err e }", "{ (1/0) }", "{ $undef }", "{ false }", "{ true }", "{ break vfoo }", "{ return 3 }", "{", "}",
	"(1+", "1/0", "a.b.c", "/a/b", "/0", "/-1", "-1", "a", "b", "c", "then", "else", "case", "default", "on", "off", "enable", "disable",
	"unit", "function", "run", "config", "define", "state", "report", "builtin", "get", "set", "--variables", "--fids", "--functions", "--aliases", "--named-pipes", "--globals", "--config", "--memstats", "--not-a-flag",
	"--down", "--up", "1e-1", "0.1", "5", "*0", "*1", "*2", "*-1", ":0", ":a", "0:", "1:", "2:", ":1",
	"é", "日本", "\\n", "\\x", "\\", "a\\ b", "#c", "vfoo", "vbar", "std", "file", "0x10", "--parallel", "--step", "--jmap", "--trypipe",
}

var stdinPool = []string{
	"", // no stdin
	"%[1,2,3]", "%[a,b,c]", "%[]", "%{a:1,b:%[1,2],c:%{d:e}}", "%{}", "%[%[1,2],%[3,4]]", "%[%{a:1},%{a:2}]",
	"out \"a b c\"", "out ''", "a [1..5]", "ja [1..5]", "tout json '{bad json'", "tout json ''", "tout yaml 'a: [1,2'", "tout csv 'a,b\n1,2\n3'",
	"tout jsonl '[1,2]\n[3'", "tout int notanumber", "tout num 1.5", "tout bool maybe", "tout toml 'a = '", "tout badtype x", "tout str \"é\\x00\\xff\"", "out 3", "true", "false",
	"tout xml '<a><b>1</b>'", "tout hcl 'a {'", "tout * x", "tout null x", "tout generic \"a\\tb\\nc\\td\"",
}

// templates for things the parser treats specially
var templates = []string{
	"%s -> [%s]", "%s -> [[%s]]", "%s -> ![%s]", "%s -> [%s %s]", "%s -> [%s..%s]", "%s -> [%s..%s]e", "%s -> @[%s..%s]",
	"%s -> foreach v { out $v }", "%s -> foreach { }", "%s -> foreach v { break vfoo }", "%s -> formap k v { out $k }",
	"function vfoo { args a %%{Flags: %%{--x: str}} ; out $a }\nvfoo %s",
	"function vfoo { args a %%{AllowAdditional: true, Flags: %%{--n: num, -b: bool, -a: --n}} ; out $a }\nvfoo %s %s",
	"function vbar (a: int, b: str [x]) { out $a $b }\nvbar %s %s",
	"function vbar (a: int \"d\", !b: bool) { out $a }\nvbar %s",
	"pipe vp1\n!pipe vp1\n!pipe vp1", "pipe vp1\npipe vp1\n!pipe vp1", "!pipe vp2", "pipe vp1\nout x -> <vp1>\n!pipe vp1\n<vp1>",
	// a pipe whose constructor fails, then ordinary named-pipe use
	"pipe vp1 --tcp-dial 127.0.0.1:1\npipe vp1\n!pipe vp1", "pipe vp1 --file /no/such/dir/f\npipe vp2\n!pipe vp2", "pipe vp1 --badflag\n!pipe vp1\nruntime --named-pipes",

	"vfoo = %s\n$vfoo.a.b = %s\nout $vfoo", "vfoo = %s\nout $vfoo[%s]", "vfoo = %s\nout @vfoo[%s]", "vfoo = %s\n$vfoo -> [%s]",
	"set %s vfoo = %s", "global %s vfoo = %s", "(%s %s %s)", "(%s)", "out ${%s}", "out @{%s}", "out \"${ %s }\"",
	"switch %s { case %s { out a } default { out b } }", "if { %s } then { out y } else { out n }", "if %s %s %s",
	"try { %s }\ncatch { out c }", "trypipe { %s -> %s }", "unsafe { %s }", "runmode %s %s",
	"test unit function vfoo %%{ StdoutMatch: %s }\ntest run vfoo", "test %s %s", "alias vfoo=%s %s\nvfoo", "method define vfoo %s",
	"%s -> alter %s %s", "%s -> format %s", "%s -> cast %s", "%s -> select %s", "%s -> struct-keys %s", "%s -> ~> %s",
	"%s -> regexp %s", "%s -> match %s", "%s -> left %s", "%s -> right %s", "%s -> mjoin %s", "%s -> jsplit %s", "%s -> 2darray %s", "%s -> addheading %s",
	"%s -> count %s", "%s -> pretty %s", "%s -> tabulate %s", "%s -> round %s", "a %s", "ja %s", "ta %s %s", "rand %s %s", "datetime %s %s", "printf %s %s",
	"round %s %s %s", "%s -> [ %s %s ]", "%s -> [ %s ]", "map { %s } { %s }", "map { a: [1..5] } { a: %s }",
	"exitnum", "return %s", "break %s", "continue %s", "history %s", "jobs %s", "fid-list %s", "runtime %s", "time { out x }", "which %s", "type %s",
	// size and nesting stress
	"out " + strings.Repeat("x", 70000) + " -> %s %s", "out %s " + strings.Repeat("${out ", 40) + "x" + strings.Repeat("}", 40),
	strings.Repeat("if { true } then { ", 60) + "out %s" + strings.Repeat(" }", 60), "out " + strings.Repeat("%%[", 150) + "%s" + strings.Repeat("]", 150),
	"(" + strings.Repeat("(1+", 120) + "%s" + strings.Repeat(")", 120) + ")", "a [1..3000] -> foreach v { } -> %s %s", "%s " + strings.Repeat("a ", 3000),
	"out " + strings.Repeat("a\\ ", 500) + "-> %s", "tout json (" + strings.Repeat("[", 300) + strings.Repeat("]", 300) + ") -> %s %s",
	"alias vbar=vbaz\nalias vbaz=vbar\nvbar %s", "function vq3 { out $1 -> vq4 }\nfunction vq4 { <stdin> -> %s %s }\nvq3 %s",
	"%s -> formap k v { out $k $v }", "for ( i=0; i<3; i++ ) { %s %s }", "v = 0\nwhile { $v < 3 } { v = $v + 1 ; %s %s }", "%s -> foreach --parallel %s v { out $v }",
	"%s -> foreach --step %s v { out $v }", "%s -> foreach --jmap k { $k } { %s }", "test define vq2 %s\nout x -> <test_vq2> -> null", "%s -> <%s>",
	"config get %s %s", "config eval %s %s { %s }", "!config %s %s", "runmode %s function\nout x", "%s -> tabulate --map --key-value %s", "%s -> tabulate --split-comma --joiner %s",
	"%s -> select * from stdin where %s", "%s -> select count(*), %s group by 1", "%s -> jsplit %s -> [%s]", "datetime --in {now} --out %s", "datetime --in %s --value %s --out {unix}",
	"%s -> list.case upper %s", "%s -> escape %s", "%s -> !escape", "%s -> gz -> !gz -> %s", "%s -> base64 -> !base64 %s", "%s -> !bz2", "%s -> !gz",
}

func gen(t *rapid.T) Case {
	var c Case
	n := rapid.IntRange(1, 3).Draw(t, "stmts")
	arg := func() string {
		if rapid.IntRange(0, 5).Draw(t, "w") == 0 {
			return rapid.SampledFrom(words).Draw(t, "word")
		}
		return rapid.SampledFrom(argPool).Draw(t, "arg")
	}
	src := func() string {
		s := rapid.SampledFrom(stdinPool).Draw(t, "stdin")
		if s == "" {
			return "out x"
		}
		return s
	}
	for i := 0; i < n; i++ {
		if rapid.IntRange(0, 2).Draw(t, "form") == 0 {
			tpl := rapid.SampledFrom(templates).Draw(t, "tpl")
			if strings.Contains(tpl, "vp1") || strings.Contains(tpl, "vp2") {
				// a closed pipe lingers for 2 s: give every case its own names
				sfx := fmt.Sprintf("_%d", rapid.IntRange(0, 99999).Draw(t, "pipe"))
				tpl = strings.ReplaceAll(strings.ReplaceAll(tpl, "vp1", "vp1"+sfx), "vp2", "vp2"+sfx)
			}
			k := strings.Count(tpl, "%s")
			args := make([]any, k)
			for j := range args {
				if j == 0 && strings.HasPrefix(tpl, "%s -> ") {
					args[j] = src()
				} else {
					args[j] = arg()
				}
			}
			c.Stmts = append(c.Stmts, fmt.Sprintf(tpl, args...))
			continue
		}
		var b strings.Builder
		in := rapid.SampledFrom(stdinPool).Draw(t, "stdin")
		if in != "" {
			b.WriteString(in + " -> ")
		}
		b.WriteString(rapid.SampledFrom(allow).Draw(t, "cmd"))
		na := rapid.IntRange(0, 4).Draw(t, "nargs")
		for j := 0; j < na; j++ {
			b.WriteString(" " + arg())
		}
		if rapid.IntRange(0, 5).Draw(t, "tail") == 0 {
			b.WriteString(" -> " + rapid.SampledFrom(allow).Draw(t, "cmd2") + " " + arg())
		}
		c.Stmts = append(c.Stmts, b.String())
	}
	return c
}

// texts only an internal panic produces (a Go run-time panic always carries
// "runtime error:"; plain phrases such as "index out of range" are not used,
// a clean error message may legitimately contain them)
var crashMarkers = []string{"panic caught", "Murex has crashed", "runtime error:", "fatal error:", "goroutine 1 ["}

var usesDelayed = regexp.MustCompile(`\bpipe\b`)

func check(c Case) *core.Violation {
	src := c.Source()
	newCrashText()
	done := make(chan core.Result, 1)
	go func() { done <- core.Run(src) }()
	var r core.Result
wait:
	for {
		select {
		case r = <-done:
			break wait
		case <-time.After(50 * time.Millisecond):
			if t := newCrashText(); t != "" {
				// the crash handler ran: give the program a moment to come back
				hung := false
				select {
				case r = <-done:
				case <-time.After(3 * time.Second):
					hung = true
				}
				if v := panicViolation(src, t, hung); v != nil {
					return v
				}
				return nil
			}
		}
	}
	if t := newCrashText(); t != "" {
		return panicViolation(src, t, false)
	}
	if r.Hung {
		return core.Violf("hang", "the program never returned to its caller:\n%s\n%s", src, trimDump(r.Dump))
	}
	out := string(r.Stdout) + "\n" + string(r.Stderr)
	if r.Err != nil {
		out += "\n" + r.Err.Error()
	}
	for _, m := range crashMarkers {
		if i := strings.Index(out, m); i >= 0 {
			lo, hi := i-300, i+600
			if lo < 0 {
				lo = 0
			}
			if hi > len(out) {
				hi = len(out)
			}
			return core.Violf("internal-panic", "output contains %q — an internal panic was reached, not a clean error:\nprogram:\n%s\noutput (excerpt):\n%s", m, src, out[lo:hi])
		}
	}
	// a single failing command must report a non-zero exit number
	if len(c.Stmts) == 1 && !strings.Contains(src, "\n"+"") && strings.Contains(string(r.Stderr), "Error in `") && r.Exit == 0 &&
		!strings.Contains(src, "->") && !strings.Contains(src, "{") {
		return core.Violf("error-with-exit-0", "the command printed an error but its exit number is 0:\n%s\nstderr: %s", src, r.Stderr)
	}
	if usesDelayed.MatchString(src) {
		// named pipes are closed by a goroutine 2 s after `!pipe`; a crash
		// there kills the process. During a search the case is remembered and
		// journalled together with the cases that follow it within that
		// window (journalOf), and TestProp waits out the window at its end;
		// a replay simply waits here.
		if deferPipeWait {
			pendMu.Lock()
			pending = append(pending, pendingCase{c.Stmts, time.Now()})
			pendMu.Unlock()
		} else {
			time.Sleep(2300 * time.Millisecond)
		}
	}
	return nil
}

type pendingCase struct {
	stmts []string
	at    time.Time
}

var (
	deferPipeWait bool
	pendMu        sync.Mutex
	pending       []pendingCase
)

// journalOf prefixes a case with the pipe-closing cases of the last 2.5 s:
// should one of their delayed closers take the process down while this case
// runs, the journalled case reproduces it (check() waits when replaying).
func journalOf(c Case) any {
	pendMu.Lock()
	defer pendMu.Unlock()
	keep := pending[:0]
	var stmts []string
	for _, p := range pending {
		if time.Since(p.at) < 2500*time.Millisecond {
			keep = append(keep, p)
			stmts = append(stmts, p.stmts...)
		}
	}
	pending = keep
	return Case{Stmts: append(stmts, c.Stmts...)}
}

var siteRe = regexp.MustCompile(`function: (github\.com/lmorg/murex/[^\s(]+)\(`)

// panicSite names the first murex function on the stack of a crash report.
func panicSite(report string) string {
	m := siteRe.FindStringSubmatch(report)
	if m == nil {
		return "unknown"
	}
	return strings.TrimPrefix(m[1], "github.com/lmorg/murex/")
}

func siteID(report string) string {
	site := panicSite(report)
	site = strings.NewReplacer("/", "-", "(", "", ")", "", "*", "").Replace(site)
	return "C19-panic-" + site
}

// panicViolation builds the violation for a crash report; in survey mode
// (building only) it records the report and returns nil.
func panicViolation(src, report string, hung bool) *core.Violation {
	id := siteID(report)
	if dir := os.Getenv("VERIF_C19_COLLECT"); dir != "" {
		os.MkdirAll(dir, 0o755)
		if _, err := os.Stat(dir + "/" + id + ".txt"); err != nil {
			os.WriteFile(dir+"/"+id+".txt", []byte("program:\n"+src+"\n"+report), 0o644)
		}
		return nil
	}
	if len(report) > 2500 {
		report = report[:2500] + "\n…"
	}
	return core.Violf("internal-panic:"+id, "crash.Handler caught an internal panic in %s (program still blocked 3 s later: %v):\nprogram:\n%s\ncrash report:\n%s", panicSite(report), hung, src, report)
}

func trimDump(d string) string {
	if f := os.Getenv("VERIF_C19_FULLDUMP"); f != "" {
		os.WriteFile(f, []byte(d), 0o644)
	}
	if len(d) > 5000 {
		return d[:5000] + "\n…"
	}
	return d
}

var errClass = regexp.MustCompile("Error in `([^`]+)`")

func classify(c Case) core.Class {
	// non-trivial = the program reached at least one error path; measured by
	// running it is too expensive here, so the rule is syntactic: it uses a
	// hostile argument (every generated statement does) — the distinct key is
	// the program text, the label the first command.
	first := strings.Fields(strings.NewReplacer("->", " ", "|", " ").Replace(c.Stmts[0]))
	label := "?"
	for _, w := range first {
		for _, a := range allow {
			if w == a {
				label = a
				break
			}
		}
		if label != "?" {
			break
		}
	}
	if strings.HasPrefix(c.Stmts[0], "function") || strings.Contains(c.Stmts[0], "\n") {
		label = "template"
	}
	return core.Class{NonTrivial: true, Label: "cmd:" + label, Key: c.Source()}
}

func known(c Case, v *core.Violation) string {
	if strings.HasPrefix(v.Kind, "internal-panic:") {
		return strings.TrimPrefix(v.Kind, "internal-panic:")
	}
	return ""
}

var spec = core.Spec[Case]{ID: "C19", Gen: gen, Check: check, Classify: classify, Known: known, Journal: true, JournalOf: journalOf,
	Sample: func(c Case) any { return c.Source() }}

func TestProp(t *testing.T) {
	_ = lang.GoFunctions
	deferPipeWait = true
	core.RunProp(t, spec)
	// quiescence window: anything delayed must have happened before we say "survived"
	time.Sleep(2500 * time.Millisecond)
}
func TestReplay(t *testing.T) {
	core.Replay(t, spec)
	// check() has already waited out the named-pipe grace period where one applies
	time.Sleep(300 * time.Millisecond)
}
