// C32 — Running murex code causes no data races.
//
// The test binary is built with -race. A case is one murex program whose
// sections run concurrently through murex's own means (bg blocks, foreach
// --parallel, pipelines, shared named pipes) and touch shared interpreter
// state: globals and nested global values, functions, aliases, config,
// named pipes, `args` flag parsing, fid-list / runtime dumps. After each case
// the harness waits for the FID table to drain (so cases do not bleed into
// each other), then reads what the race detector appended to its log file
// (GORACE log_path) during the case. Every report is normalised to a
// signature: the first murex frame (function name) of each of the two
// conflicting accesses. A signature that is not a listed known finding is a
// violation.
package c32

import (
	"crypto/sha1"
	"fmt"
	"os"
	"path/filepath"
	"regexp"
	"sort"
	"strings"
	"testing"
	"time"

	"github.com/lmorg/murex/lang"
	"github.com/lmorg/murex/lang/types"
	"github.com/lmorg/murex/utils/verifhook"
	"pgregory.net/rapid"
	"verif/harness/core"
)

func TestMain(m *testing.M) {
	core.InitMurex()
	// vbig <KiB>: writes that many KiB to stdout in 64 KiB writes.
	lang.DefineFunction("vbig", func(p *lang.Process) error {
		n, _ := p.Parameters.Int(0)
		p.Stdout.SetDataType(types.Generic)
		chunk := make([]byte, 64*1024)
		for i := range chunk {
			chunk[i] = byte('a' + i%26)
		}
		for kib := 0; kib < n; kib += 64 {
			if _, err := p.Stdout.Write(chunk); err != nil {
				return nil
			}
		}
		return nil
	}, types.Generic)
	// vpause <ms>: waits (lets another section's consumer get into its wait
	// for a named pipe that does not exist yet).
	lang.DefineFunction("vpause", func(p *lang.Process) error {
		ms, _ := p.Parameters.Int(0)
		time.Sleep(time.Duration(ms) * time.Millisecond)
		return nil
	}, types.Null)
	// vslow: drains stdin through Read() with a small buffer, pausing now and
	// then so the writer runs into the pipe's back-pressure limit; prints the
	// number of bytes read.
	lang.DefineMethod("vslow", func(p *lang.Process) error {
		p.Stdout.SetDataType(types.Integer)
		buf := make([]byte, 16*1024)
		total := 0
		// let the producer run ahead until it parks on the 1 MiB limit
		time.Sleep(5 * time.Millisecond)
		for i := 0; ; i++ {
			n, err := p.Stdin.Read(buf)
			total += n
			if err != nil {
				break
			}
			if i%2 == 0 {
				time.Sleep(100 * time.Microsecond)
			}
		}
		p.Stdout.Writeln([]byte(fmt.Sprint(total)))
		return nil
	}, types.Any, types.Integer)
	core.Main(m, "C32")
}

type Case struct {
	Sections []Section `json:"sections"`
	Perturb  uint64    `json:"perturb"`
	ID       uint32    `json:"id"`
}

type Section struct {
	Wrap string   `json:"wrap"` // "", "bg", "parallel"
	Ops  []string `json:"ops"`  // murex statements
	Kind []string `json:"kind"` // shared object kind per op
}

// opTemplates: {kind, template}. %N = per-case unique suffix, %T = tag.
var opTemplates = [][2]string{
	{"global", "$GLOBAL.g%N = \"%T\""},
	{"global", "global gg%N = %T"},
	{"global", "out $GLOBAL.g%N"},
	{"global", "out $gg%N"},
	{"global-nested", "$GLOBAL.obj%N.k = \"%T\""},
	{"global-nested", "$GLOBAL.obj%N.arr.1 = \"%T\""},
	{"global-nested", "out $GLOBAL.obj%N.k"},
	{"global-nested", "$GLOBAL.obj%N -> format yaml"},
	{"local-var", "lv = \"%T\" ; out $lv"},
	{"function", "function fn%N { out %T }"},
	{"function", "fn%N"},
	{"function", "fnargs%N --str %T -b"},
	{"function", "fnargs%N --num 3 extra"},
	{"alias", "alias al%N=out %T"},
	{"alias", "al%N"},
	{"config", "config set proc strict-vars false"},
	{"config", "config get proc strict-vars"},
	{"config", "config set shell max-suggestions 7"},
	{"config", "config get shell max-suggestions"},
	{"named-pipe", "pipe q%N%T ; out %T -> <q%N%T> ; !pipe q%N%T"},
	{"dump", "fid-list -> [0..1]"},
	{"dump", "runtime --fids -> [0]"},
	{"dump", "runtime --globals -> [g%N]"},
	{"dump", "runtime --variables -> [SELF]"},
	{"dump", "runtime --named-pipes"},
	{"dump", "runtime --functions -> [fn%N]"},
	{"dump", "runtime --config -> [proc]"},
	{"dump", "runtime --aliases"},
	// > 1 MiB in flight in one pipe with a consumer that drains it slowly
	// through Read(): the writer parks on back-pressure while the reader works
	{"stream-backpressure", "vbig 1400 -> vslow"},
	{"stream-backpressure", "vbig 1100 -> vslow -> null"},
	{"stream-backpressure", "vbig 300 -> vslow"},
	// a consumer that uses a named pipe before another section creates it
	// (Named.Get waits and retries while the table is written)
	{"named-pipe-late", "<late%N> -> null"},
	{"named-pipe-late", "vpause 150 ; pipe late%N ; out %T -> <late%N> ; !pipe late%N"},
	{"named-pipe-late", "bg { <lp%N%T> -> null } ; vpause 120 ; pipe lp%N%T ; out %T -> <lp%N%T> ; !pipe lp%N%T"},
	{"named-pipe-late", "vpause 250 ; pipe other%N%T ; !pipe other%N%T"},
	{"named-pipe-late", "pipe other%N%T ; !pipe other%N%T"},
	{"pipeline", "%[c,b,a] -> msort -> mtac -> format yaml -> format json"},
	{"pipeline", "a [1..20] -> foreach x { out \"$x\" } -> msort -> [0]"},
	{"expr", "(1 + 2 * 3)"},
	{"test", "out %T -> debug -> [[/Data-Type/Murex]]"},
}

func gen(t *rapid.T) Case {
	var c Case
	c.ID = rapid.Uint32().Draw(t, "id")
	c.Perturb = rapid.Uint64Range(0, 1<<62).Draw(t, "perturb")
	ns := rapid.IntRange(2, 5).Draw(t, "sections")
	tag := 0
	for s := 0; s < ns; s++ {
		sec := Section{Wrap: rapid.SampledFrom([]string{"bg", "bg", "parallel", ""}).Draw(t, "wrap")}
		no := rapid.IntRange(1, 6).Draw(t, "ops")
		for i := 0; i < no; i++ {
			tpl := rapid.SampledFrom(opTemplates).Draw(t, "op")
			tag++
			op := strings.ReplaceAll(tpl[1], "%T", fmt.Sprintf("t%d", tag))
			sec.Ops = append(sec.Ops, op)
			sec.Kind = append(sec.Kind, tpl[0])
		}
		c.Sections = append(c.Sections, sec)
	}
	return c
}

func (c Case) Source() string {
	n := fmt.Sprintf("%x", c.ID)
	var b strings.Builder
	// shared objects every section may use
	fmt.Fprintf(&b, "$GLOBAL.g%s = \"init\"\nglobal gg%s = init\n$GLOBAL.obj%s = %%{k: v, arr: [1,2,3]}\n", n, n, n)
	fmt.Fprintf(&b, "function fn%s { out init }\nalias al%s=out init\n", n, n)
	fmt.Fprintf(&b, "function fnargs%s {\n  args a %%{AllowAdditional: true, Flags: %%{--str: str, --num: num, -b: bool, -s: --str}}\n  out $a.Flags\n}\n", n)
	for _, s := range c.Sections {
		body := strings.ReplaceAll(strings.Join(s.Ops, "\n"), "%N", n)
		switch s.Wrap {
		case "bg":
			fmt.Fprintf(&b, "bg {\n%s\n}\n", body)
		case "parallel":
			fmt.Fprintf(&b, "%%[1,2,3] -> foreach --parallel 3 i {\n%s\n}\n", body)
		default:
			b.WriteString(body + "\n")
		}
	}
	return b.String()
}

// --- race log ---------------------------------------------------------------

var raceLogOffset = map[string]int64{}

func raceLogFiles() []string {
	gr := os.Getenv("GORACE")
	m := regexp.MustCompile(`log_path=(\S+)`).FindStringSubmatch(gr)
	if m == nil {
		return nil
	}
	files, _ := filepath.Glob(m[1] + ".*")
	return files
}

// newRaceText returns the complete race reports appended to the detector's
// log since the last call. A report is complete when its closing line of '='
// has been written; an incomplete tail is left for the next call.
func newRaceText() string {
	var b strings.Builder
	const bar = "=================="
	for _, f := range raceLogFiles() {
		var data []byte
		// wait until the file stops growing (the detector writes a report in pieces)
		for i := 0; i < 200; i++ {
			d, err := os.ReadFile(f)
			if err != nil {
				break
			}
			if len(d) == len(data) && i > 0 {
				break
			}
			data = d
			time.Sleep(5 * time.Millisecond)
		}
		off := raceLogOffset[f]
		if int64(len(data)) <= off {
			continue
		}
		chunk := string(data[off:])
		// keep only whole reports: cut after the last closing bar that is
		// followed by a newline and not by "\nWARNING"
		end := 0
		idx := 0
		for {
			i := strings.Index(chunk[idx:], bar+"\n")
			if i < 0 {
				break
			}
			pos := idx + i + len(bar) + 1
			rest := chunk[pos:]
			if !strings.HasPrefix(rest, "WARNING: DATA RACE") {
				end = pos // this bar closes a report
			}
			idx = pos
		}
		b.WriteString(chunk[:end])
		raceLogOffset[f] = off + int64(end)
	}
	return b.String()
}

var frameRe = regexp.MustCompile(`(?m)^  (\S+)\(.*\)\n\s+(\S+):(\d+)`)

// signatures splits race detector output into reports and normalises each.
func signatures(text string) map[string]string {
	out := map[string]string{}
	for _, rep := range strings.Split(text, "WARNING: DATA RACE") {
		if !strings.Contains(rep, " by goroutine ") {
			continue // the bar before the first report
		}
		// the two access stacks are the first two blank-line separated stanzas
		stanzas := strings.Split(rep, "\n\n")
		var tops []string
		for _, st := range stanzas {
			if len(tops) == 2 {
				break
			}
			first := strings.TrimSpace(st)
			if !(strings.HasPrefix(first, "Read at") || strings.HasPrefix(first, "Write at") ||
				strings.HasPrefix(first, "Previous read at") || strings.HasPrefix(first, "Previous write at") ||
				strings.HasPrefix(first, "Atomic") || strings.HasPrefix(first, "Previous atomic")) {
				continue
			}
			top := "?"
			for _, m := range frameRe.FindAllStringSubmatch(st, -1) {
				fn := m[1]
				if strings.Contains(fn, "github.com/lmorg/murex/") && !strings.Contains(fn, "verifhook") {
					top = strings.TrimPrefix(fn, "github.com/lmorg/murex/")
					break
				}
			}
			tops = append(tops, top)
		}
		sort.Strings(tops)
		sig := strings.Join(tops, " <-> ")
		if _, ok := out[sig]; !ok {
			out[sig] = "WARNING: DATA RACE" + rep
		}
	}
	return out
}

// rootCauses maps a race signature to the known finding (root cause) it
// belongs to. The predicates name the racing call sites, so a race between any
// other pair of functions is still reported as a violation.
var rootCauses = []struct {
	id    string
	match func(a, b string) bool
}{
	// nested assignment ($v.path = x) alters the stored Go value in place while
	// other goroutines read or alter the same value
	{"C32-nested-assign-in-place", func(a, b string) bool { return a == "utils/alter.loop" || b == "utils/alter.loop" }},
	// fid-list / runtime --fids read fields of a running process that
	// executeProcess writes without synchronisation
	{"C32-process-dump-unsynchronised", func(a, b string) bool {
		dump := func(s string) bool { return s == "utils/json.marshal" || s == "lang.(*Process).Dump" }
		proc := func(s string) bool {
			return s == "lang.executeProcess" || strings.HasPrefix(s, "lang/parameters.(*Parameters).")
		}
		// Process.Dump itself reads the fields of running processes without any
		// synchronisation: whoever writes one of them races with it
		if a == "lang.(*Process).Dump" || b == "lang.(*Process).Dump" {
			return true
		}
		// fid-list reads the parameter tokens of running processes directly
		// (processes.getParams -> Parameters.Raw) while executeProcess
		// prepends to them
		const prepend, raw = "lang/parameters.(*Parameters).Prepend", "lang/parameters.(*Parameters).Raw"
		if (a == prepend && b == raw) || (a == raw && b == prepend) {
			return true
		}
		return (proc(a) && dump(b)) || (proc(b) && dump(a))
	}},
}

// filterKnown is switched off by TestReplay, which must see every race.
var filterKnown = true

func findingID(sig string) string {
	parts := strings.SplitN(sig, " <-> ", 2)
	if len(parts) == 2 {
		for _, rc := range rootCauses {
			if rc.match(parts[0], parts[1]) {
				return rc.id
			}
		}
	}
	h := sha1.Sum([]byte(sig))
	return fmt.Sprintf("C32-race-%x", h[:5])
}

func replaying() bool { return os.Getenv("VERIF_REPLAY") != "" }

func waitDrained() bool {
	deadline := time.Now().Add(20 * time.Second)
	for time.Now().Before(deadline) {
		if len(lang.GlobalFIDs.ListAll()) == 0 {
			return true
		}
		time.Sleep(300 * time.Microsecond)
	}
	return false
}

// leftover: a program that did not finish or did not drain leaves goroutines
// behind (a reader of a named pipe nobody closes polls GetDataType in a busy
// loop). Termination is not this property's subject, but such leftovers slow
// down every later case of the process until the shard times out: they are
// cleaned up (pipes force-closed, processes killed) and, if that does not
// help, the remaining cases of this process are not run (counted).
var leftover bool

func cleanup() bool {
	for name := range lang.GlobalPipes.Dump() {
		if name == "null" {
			continue
		}
		if p, err := lang.GlobalPipes.Get(name); err == nil && p != nil {
			p.ForceClose()
		}
		lang.GlobalPipes.Delete(name)
	}
	for _, p := range lang.GlobalFIDs.ListAll() {
		if p != nil && p.Kill != nil {
			p.Kill()
		}
	}
	deadline := time.Now().Add(5 * time.Second)
	for time.Now().Before(deadline) {
		if len(lang.GlobalFIDs.ListAll()) == 0 {
			return true
		}
		time.Sleep(time.Millisecond)
	}
	return false
}

func check(c Case) *core.Violation {
	if leftover && !replaying() {
		core.Count("not_run_after_undrained_program", 1)
		return nil
	}
	newRaceText() // discard anything from before the case
	verifhook.SetSeed(c.Perturb)
	r := core.Run(c.Source())
	verifhook.SetSeed(0)
	if r.Hung {
		core.Count("hung_programs", 1)
		if !cleanup() {
			leftover = true
		}
		return nil // termination of concurrent programs is not this property's subject
	}
	if !waitDrained() {
		core.Count("not_drained", 1)
		if !cleanup() {
			leftover = true
		}
	}
	text := newRaceText()
	if text == "" {
		return nil
	}
	sigs := signatures(text)
	keys := make([]string, 0, len(sigs))
	for k := range sigs {
		keys = append(keys, k)
	}
	sort.Strings(keys)
	for _, sig := range keys {
		id := findingID(sig)
		core.Count("race_reports", 1)
		if filterKnown && core.IsKnownOpen(id) {
			core.ExcludedKnown(id)
			continue
		}
		rep := sigs[sig]
		if dir := os.Getenv("VERIF_C32_COLLECT"); dir != "" {
			// survey mode (building only): record every signature, fail nothing
			os.MkdirAll(dir, 0o755)
			os.WriteFile(filepath.Join(dir, id+".txt"), []byte("signature ["+sig+"]\nprogram:\n"+c.Source()+"\n"+rep), 0o644)
			continue
		}
		if len(rep) > 6000 {
			rep = rep[:6000] + "\n…"
		}
		return core.Violf("race:"+id, "data race, signature [%s]\nprogram:\n%s\n%s", sig, c.Source(), rep)
	}
	return nil
}

func known(c Case, v *core.Violation) string {
	if strings.HasPrefix(v.Kind, "race:") {
		return strings.TrimPrefix(v.Kind, "race:")
	}
	return ""
}

func classify(c Case) core.Class {
	kinds := map[string]int{}
	conc := 0
	for _, s := range c.Sections {
		if s.Wrap != "" {
			conc++
		}
		seen := map[string]bool{}
		for _, k := range s.Kind {
			if !seen[k] {
				seen[k] = true
				kinds[k]++
			}
		}
	}
	var shared []string
	for k, n := range kinds {
		if n >= 2 {
			shared = append(shared, k)
		}
	}
	sort.Strings(shared)
	cl := core.Class{NonTrivial: conc >= 1 && len(shared) >= 1}
	if cl.NonTrivial {
		cl.Label = "shared:" + strings.Join(shared, "+")
		if len(shared) > 2 {
			cl.Label = fmt.Sprintf("shared:%d-kinds", len(shared))
		}
	} else {
		cl.Label = "no-shared-kind"
	}
	var ops []string
	for _, s := range c.Sections {
		ops = append(ops, s.Wrap+":"+strings.Join(s.Ops, ";"))
	}
	cl.Key = strings.Join(ops, "|")
	return cl
}

var spec = core.Spec[Case]{ID: "C32", Gen: gen, Check: check, Classify: classify, Known: known, Journal: true,
	Sample: func(c Case) any { return c.Source() }}

func TestProp(t *testing.T) {
	if len(raceLogFiles()) == 0 && os.Getenv("GORACE") == "" {
		t.Log("GORACE log_path not set: race reports cannot be attributed")
	}
	core.RunProp(t, spec)
}

// TestReplay re-runs the case several times: a race needs the right
// interleaving, so one run proves little.
func TestReplay(t *testing.T) {
	filterKnown = false
	s := spec
	s.Check = func(c Case) *core.Violation {
		n := core.EnvInt("VERIF_C32_REPLAY_RUNS", 12)
		for i := 0; i < n; i++ {
			c.Perturb = c.Perturb*6364136223846793005 + 1442695040888963407
			if v := check(c); v != nil {
				return v
			}
		}
		return nil
	}
	core.Replay(t, s)
}
