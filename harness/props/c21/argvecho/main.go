// argvecho is the external command of the C21 check.
//
//	argvecho --exit N     prints "H\n" and exits with status N
//	argvecho --kill SIG   prints "H\n", restores the default disposition of
//	                      signal number SIG and sends it to itself
//	argvecho --linger MS --exit N
//	                      prints "H\n", starts a child that keeps stdout open
//	                      for MS milliseconds and exits at once with status N
//	argvecho ...          prints its arguments as a JSON array
package main

import (
	"encoding/json"
	"os"
	"strconv"
	"syscall"
	"time"
	"unsafe"
)

// struct sigaction of the linux rt_sigaction system call (amd64/arm64 layout).
type sigaction struct {
	handler  uintptr
	flags    uint64
	restorer uintptr
	mask     uint64
}

func main() {
	a := os.Args[1:]
	if len(a) == 2 && a[0] == "--exit" {
		n, err := strconv.Atoi(a[1])
		if err != nil {
			os.Exit(98)
		}
		os.Stdout.WriteString("H\n")
		os.Exit(n)
	}
	if len(a) == 2 && a[0] == "--kill" {
		n, err := strconv.Atoi(a[1])
		if err != nil {
			os.Exit(98)
		}
		os.Stdout.WriteString("H\n")
		// no core files
		syscall.Setrlimit(syscall.RLIMIT_CORE, &syscall.Rlimit{})
		// The Go runtime owns every signal handler; put SIG_DFL back with the
		// raw system call so the kernel's default action (terminate) applies.
		var sa sigaction // handler 0 == SIG_DFL
		syscall.RawSyscall6(syscall.SYS_RT_SIGACTION, uintptr(n), uintptr(unsafe.Pointer(&sa)), 0, 8, 0, 0)
		// make sure it is not blocked in this thread
		var set uint64 = 1 << uint(n-1)
		syscall.RawSyscall6(syscall.SYS_RT_SIGPROCMASK, 1 /* SIG_UNBLOCK */, uintptr(unsafe.Pointer(&set)), 0, 8, 0, 0)
		syscall.Kill(syscall.Getpid(), syscall.Signal(n))
		time.Sleep(3 * time.Second)
		os.Exit(99) // the signal did not terminate the process
	}
	if len(a) == 2 && a[0] == "--sleep" {
		ms, _ := strconv.Atoi(a[1])
		time.Sleep(time.Duration(ms) * time.Millisecond)
		os.Exit(0)
	}
	if len(a) == 4 && a[0] == "--linger" && a[2] == "--exit" {
		// leave a child behind that keeps our stdout open for a while, then
		// exit at once with the requested status
		n, err := strconv.Atoi(a[3])
		if err != nil {
			os.Exit(98)
		}
		os.Stdout.WriteString("H\n")
		self, _ := os.Executable()
		proc, err := os.StartProcess(self, []string{self, "--sleep", a[1]}, &os.ProcAttr{Files: []*os.File{nil, os.Stdout, nil}})
		if err != nil {
			os.Exit(97)
		}
		proc.Release()
		os.Exit(n)
	}
	b, _ := json.Marshal(a)
	os.Stdout.Write(append(b, '\n'))
}
