// C21 — External commands report their real exit status.
//
// Domain (finite, enumerated completely by the quick tier): the helper
// `argvecho --exit N` for every N in 0..255 and `argvecho --kill SIG` for every
// signal whose default action terminates the process (checked against the
// kernel by a self-test at start-up), each called by path (`/path/argvecho`;
// alone also through `exec`), in five contexts: alone, `a && out Y`, `a || out N`,
// `try { a; out AFTER }`, and as the last stage of a pipeline.
// Oracle: the statement.
package c21

import (
	"fmt"
	"os"
	"os/exec"
	"path/filepath"
	"runtime"
	"sort"
	"strings"
	"sync"
	"syscall"
	"testing"

	"pgregory.net/rapid"
	"verif/harness/core"
)

const findingSignal = "C21-signal-death-reports-exit-0"

type Case struct {
	// Exit: the helper exits with this status (Signal == 0) …
	Exit int `json:"exit"`
	// … or dies from this signal number (Signal != 0).
	Signal  int    `json:"signal"`
	// Linger > 0: the helper leaves a child behind that keeps its stdout open
	// for that many milliseconds after it has exited.
	Linger  int    `json:"linger,omitempty"`
	Form    string `json:"form"`    // direct | exec
	Context string `json:"context"` // alone | and | or | try | pipeline
}

var helper string // absolute path of the built helper

// candidate terminating signals (linux numbering): everything except
// CHLD CONT STOP TSTP TTIN TTOU URG WINCH, plus the first and last real-time signal.
var candidateSignals = []int{1, 2, 3, 4, 5, 6, 7, 8, 9, 10, 11, 12, 13, 14, 15, 16, 24, 25, 26, 27, 29, 30, 31, 34, 64}
var signals []int // those the self-test confirmed

var forms = []string{"direct", "exec"}
var contexts = []string{"alone", "and", "or", "try", "pipeline"}

func buildHelper(dir string) (string, error) {
	_, file, _, _ := runtime.Caller(0)
	src := filepath.Join(filepath.Dir(file), "argvecho")
	if _, err := os.Stat(src); err != nil {
		src = "/verif/harness/props/c21/argvecho"
	}
	out := filepath.Join(dir, "argvecho")
	cmd := exec.Command("go", "build", "-o", out, ".")
	cmd.Dir = src
	env := []string{}
	for _, e := range os.Environ() {
		if strings.HasPrefix(e, "GOFLAGS=") || strings.HasPrefix(e, "GOPROXY=") || strings.HasPrefix(e, "GOTOOLCHAIN=") || strings.HasPrefix(e, "GOSUMDB=") {
			continue
		}
		env = append(env, e)
	}
	cmd.Env = append(env, "GOFLAGS=-mod=mod", "GOPROXY=off", "CGO_ENABLED=0")
	if b, err := cmd.CombinedOutput(); err != nil {
		return "", fmt.Errorf("go build argvecho: %v\n%s", err, b)
	}
	return out, nil
}

// selfTest keeps the signals that really terminate the helper (observed with
// os/exec, independent of murex).
func selfTest() error {
	for _, n := range []int{0, 1, 7, 255} {
		err := exec.Command(helper, "--exit", fmt.Sprint(n)).Run()
		got := 0
		if ee, ok := err.(*exec.ExitError); ok {
			got = ee.ExitCode()
		} else if err != nil {
			return err
		}
		if got != n {
			return fmt.Errorf("helper --exit %d gave %d", n, got)
		}
	}
	fatal := make([]bool, len(candidateSignals))
	var wg sync.WaitGroup
	for i, s := range candidateSignals {
		wg.Add(1)
		go func(i, s int) {
			defer wg.Done()
			err := exec.Command(helper, "--kill", fmt.Sprint(s)).Run()
			if ee, ok := err.(*exec.ExitError); ok {
				ws, ok := ee.Sys().(syscall.WaitStatus)
				fatal[i] = ok && ws.Signaled() && int(ws.Signal()) == s
			}
		}(i, s)
	}
	wg.Wait()
	for i, s := range candidateSignals {
		if fatal[i] {
			signals = append(signals, s)
		} else {
			core.Count("signal-not-fatal-here-skipped", 1)
		}
	}
	if len(signals) < 10 {
		return fmt.Errorf("only %d signals usable: %v", len(signals), signals)
	}
	return nil
}

func TestMain(m *testing.M) {
	core.InitMurex()
	core.Main(m, "C21")
}

func setup(t *testing.T) func() {
	dir := core.WorkDir("C21")
	var err error
	if helper, err = buildHelper(dir); err != nil {
		core.CleanWorkDir("C21")
		t.Skipf("cannot build the helper (inconclusive): %v", err)
	}
	signals = nil
	if err = selfTest(); err != nil {
		core.CleanWorkDir("C21")
		t.Skipf("helper self-test failed (inconclusive): %v", err)
	}
	return func() { core.CleanWorkDir("C21") }
}

// ---------------------------------------------------------------------------

func (c Case) call() string {
	arg := fmt.Sprintf("--exit %d", c.Exit)
	if c.Linger > 0 {
		arg = fmt.Sprintf("--linger %d --exit %d", c.Linger, c.Exit)
	}
	if c.Signal != 0 {
		arg = fmt.Sprintf("--kill %d", c.Signal)
	}
	if c.Form == "exec" {
		return "exec " + helper + " " + arg
	}
	return helper + " " + arg
}

func (c Case) Source() string {
	a := c.call()
	switch c.Context {
	case "alone":
		return a + "\n"
	case "and":
		return a + " && out YES\n"
	case "or":
		return a + " || out NO\n"
	case "try":
		return "try {\n    " + a + "\n    out AFTER\n}\n"
	case "pipeline":
		return "out x | " + a + "\n"
	}
	panic("bad context")
}

func (c Case) fails() bool { return c.Signal != 0 || c.Exit != 0 }

func check(c Case) *core.Violation {
	src := c.Source()
	r := core.Run(src)
	show := strings.ReplaceAll(src, helper, "argvecho")
	what := fmt.Sprintf("exits with status %d", c.Exit)
	if c.Signal != 0 {
		what = fmt.Sprintf("is terminated by signal %d (%v)", c.Signal, syscall.Signal(c.Signal))
	}
	if r.Hung {
		return core.Violf("hang", "program did not finish\n%s", show)
	}
	if r.Err != nil {
		return core.Violf("exec-error", "%s\nerr=%v", show, r.Err)
	}
	out := string(r.Stdout)
	if !strings.HasPrefix(out, "H\n") {
		return core.Violf("helper-did-not-run", "%s\nstdout=%q stderr=%q exit=%d", show, out, r.Stderr, r.Exit)
	}
	rest := strings.TrimPrefix(out, "H\n")
	sig := ""
	if c.Signal != 0 {
		sig = "signal-"
	}
	fail := func(kind, format string, a ...any) *core.Violation {
		return core.Violf(sig+kind, "%s\nthe helper %s\n%s\n(stdout=%q stderr=%q exit=%d)", show, what, fmt.Sprintf(format, a...), out, r.Stderr, r.Exit)
	}
	switch c.Context {
	case "alone", "pipeline":
		switch {
		case c.Signal != 0 && r.Exit == 0:
			return fail("treated-as-success", "want a non-zero exit number, got 0")
		case c.Signal == 0 && r.Exit != c.Exit:
			return fail("wrong-exit-number", "want exit number %d, got %d", c.Exit, r.Exit)
		}
	case "and":
		if c.fails() && rest != "" {
			return fail("treated-as-success", "`&&` ran the next command")
		}
		if !c.fails() && rest != "YES\n" {
			return fail("treated-as-failure", "`&&` did not run the next command")
		}
	case "or":
		if c.fails() && rest != "NO\n" {
			return fail("treated-as-success", "`||` did not run the next command")
		}
		if !c.fails() && rest != "" {
			return fail("treated-as-failure", "`||` ran the next command")
		}
	case "try":
		if c.fails() && (rest != "" || r.Exit == 0) {
			return fail("treated-as-success", "`try` went on (or ended with exit number 0)")
		}
		if !c.fails() && (rest != "AFTER\n" || r.Exit != 0) {
			return fail("treated-as-failure", "`try` stopped (or ended with a non-zero exit number)")
		}
	}
	return nil
}

func classify(c Case) core.Class {
	l := c.Context + ":" + c.Form + ":"
	switch {
	case c.Signal != 0:
		l += "signal"
	case c.Exit == 0:
		l += "exit-0"
	case c.Exit == 1:
		l += "exit-1"
	default:
		l += "exit-2..255"
	}
	return core.Class{NonTrivial: c.Signal != 0 || c.Exit > 1, Label: l}
}

// known: a helper terminated by a signal is reported as successful.
func known(c Case, v *core.Violation) string {
	if c.Signal != 0 && v.Kind == "signal-treated-as-success" {
		return findingSignal
	}
	return ""
}

func sample(c Case) any {
	return strings.ReplaceAll(c.Source(), helper, "argvecho")
}

func domain() []Case {
	var all []Case
	for _, ctx := range contexts {
		for _, f := range forms {
			if f == "exec" && ctx != "alone" {
				// a command called by path is handed to the `exec` builtin by
				// executeProcess: the explicit form is only repeated once
				continue
			}
			for n := 0; n <= 255; n++ {
				all = append(all, Case{Exit: n, Form: f, Context: ctx})
			}
			for _, s := range signals {
				all = append(all, Case{Signal: s, Form: f, Context: ctx})
			}
		}
	}
	// a command that exits while a left-behind child still holds its stdout
	// (`sh -c 'sleep 2 & exit 0'`): the exit status is still the command's own
	for _, ctx := range []string{"alone", "and", "or", "try"} {
		for _, n := range []int{0, 1, 3} {
			all = append(all, Case{Exit: n, Linger: 1600, Form: "direct", Context: ctx})
		}
	}
	return all
}

// gen is only used for shrinking-free sampling (the property is enumerated).
func gen(t *rapid.T) Case {
	c := Case{Form: "direct", Context: rapid.SampledFrom(contexts).Draw(t, "context")}
	if c.Context == "alone" {
		c.Form = rapid.SampledFrom(forms).Draw(t, "form")
	}
	if rapid.Bool().Draw(t, "signal") {
		c.Signal = rapid.SampledFrom(signals).Draw(t, "sig")
	} else {
		c.Exit = rapid.IntRange(0, 255).Draw(t, "exit")
	}
	return c
}

var spec = core.Spec[Case]{ID: "C21", Gen: gen, Check: check, Classify: classify, Known: known, Sample: sample, Journal: true}

// TestProp enumerates the whole domain (split over the shards).
func TestProp(t *testing.T) {
	defer setup(t)()
	all := domain()
	shard, shards := core.EnvInt("VERIF_SHARD", 0), core.EnvInt("VERIF_SHARDS", 1)
	var failures []string
	for i, c := range all {
		if i%shards != shard {
			continue
		}
		if v := core.Eval(spec, c, true); v != nil {
			failures = append(failures, v.Error())
			break // the recorded replay file is this case
		}
	}
	sigs := append([]int{}, signals...)
	sort.Ints(sigs)
	core.Note("exhaustive", fmt.Sprintf("exit statuses 0..255 and terminating signals %v of a helper process called by path x {alone, &&, ||, try, last pipeline stage} + through `exec` alone: %d cases", sigs, len(all)))
	if len(failures) > 0 {
		t.Fatalf("C21 violated: %s", failures[0])
	}
}

func TestReplay(t *testing.T) {
	defer setup(t)()
	core.Replay(t, spec)
}
