// C24 — Flag parsing follows the declared flag table.
//
// Domain: flag tables of 1–6 flags (str/int/num/bool and acyclic alias chains),
// AllowAdditional on/off, StrictFlagPlacement on/off, and argument lists built
// from declared boolean flags, declared typed flags with convertible or
// unconvertible values (values may start with `-`), aliases, undeclared flags,
// bare words, `--` followed by anything, and a trailing typed flag without a
// value.
// Oracle: a reference parser written from the statement and docs/commands/args.md
// (ref below). It answers (flags, additional) | error | unspecified; unspecified
// inputs are never asserted. Two observers: parameters.ParseFlags directly
// (Mode "api") and the `args` builtin inside a murex function (Mode "args").
package c24

import (
	"bytes"
	"encoding/json"
	"fmt"
	"os"
	"reflect"
	"sort"
	"strconv"
	"strings"
	"testing"
	"time"

	"github.com/lmorg/murex/lang/parameters"
	"pgregory.net/rapid"
	"verif/harness/core"
)

const findingArgsHang = "C24-args-nil-flags-on-parse-error"

func TestMain(m *testing.M) {
	core.InitMurex()
	core.Main(m, "C24")
}

// Flag is one row of the flag table. Type is str/int/num/bool, or the name of
// another flag (an alias, always starts with `-`).
type Flag struct {
	Name string `json:"name"`
	Type string `json:"type"`
}

type Case struct {
	Mode            string   `json:"mode"` // "api" | "args"
	Flags           []Flag   `json:"flags"`
	AllowAdditional bool     `json:"allow_additional"`
	Strict          bool     `json:"strict"`
	Args            []string `json:"args"`
}

// ---------------------------------------------------------------------------
// reference parser

type expectation struct {
	Unspecified string // non-empty: the statement does not decide this input
	Err         string // non-empty: a clean error is expected (reason label)
	Flags       map[string]any
	Additional  []string
	// features seen before any error (for classification)
	UsedAlias, UsedDDash, NegValue bool
}

func (c Case) table() map[string]string {
	m := map[string]string{}
	for _, f := range c.Flags {
		m[f.Name] = f.Type
	}
	return m
}

func isScalarType(t string) bool { return t == "str" || t == "int" || t == "num" || t == "bool" }

// resolve follows alias flags to their target. ok=false: undeclared.
func resolve(tab map[string]string, name string) (target, typ string, hops int, ok, bad bool) {
	for i := 0; i <= len(tab)+1; i++ {
		t, found := tab[name]
		if !found {
			if i == 0 {
				return "", "", 0, false, false
			}
			return "", "", i, false, true // alias to an undeclared flag: invalid table
		}
		if isScalarType(t) {
			return name, t, i, true, false
		}
		if !strings.HasPrefix(t, "-") {
			return "", "", i, false, true // unknown type: outside the domain
		}
		name = t
	}
	return "", "", 0, false, true // alias cycle: invalid table
}

var plainInt = func(s string) bool {
	if strings.HasPrefix(s, "-") {
		s = s[1:]
	}
	if s == "" || len(s) > 16 {
		return false
	}
	for _, r := range s {
		if r < '0' || r > '9' {
			return false
		}
	}
	return true
}

var plainDecimal = func(s string) bool {
	if strings.HasPrefix(s, "-") {
		s = s[1:]
	}
	parts := strings.Split(s, ".")
	if len(parts) > 2 {
		return false
	}
	for _, p := range parts {
		if p == "" || len(p) > 9 {
			return false
		}
		for _, r := range p {
			if r < '0' || r > '9' {
				return false
			}
		}
	}
	return true
}

// clearlyNotNumeric: no reading of the text as a number exists (so a numeric
// flag must reject it). Anything strconv.ParseFloat accepts after trimming is
// a grey zone and never asserted.
func clearlyNotNumeric(s string) bool {
	t := strings.TrimSpace(s)
	if t == "" {
		return false // murex documents "" == 0 for numeric conversions
	}
	_, err := strconv.ParseFloat(t, 64)
	return err != nil
}

// convert: value for the declared type, or error, or unspecified.
func convert(val, typ string) (v any, isErr bool, unspecified string) {
	switch typ {
	case "str":
		return val, false, ""
	case "int":
		if plainInt(val) {
			n, err := strconv.ParseInt(val, 10, 64)
			if err != nil || n > 1<<53 || n < -(1<<53) {
				return nil, false, "integer outside ±2^53"
			}
			return int(n), false, ""
		}
		if clearlyNotNumeric(val) {
			return nil, true, ""
		}
		return nil, false, "int flag with a value that is numeric but not a plain integer"
	case "num":
		if plainDecimal(val) {
			f, _ := strconv.ParseFloat(val, 64)
			return f, false, ""
		}
		if clearlyNotNumeric(val) {
			return nil, true, ""
		}
		return nil, false, "num flag with an exotic numeric spelling"
	}
	return nil, false, "value for type " + typ
}

func ref(c Case) expectation {
	tab := c.table()
	e := expectation{Flags: map[string]any{}, Additional: []string{}}
	if _, ok := tab["--"]; ok {
		e.Unspecified = "`--` declared as a flag"
		return e
	}
	pending, pendingType := "", ""
	ignore := false
	for _, tok := range c.Args {
		if ignore {
			e.Additional = append(e.Additional, tok)
			continue
		}
		if pending != "" {
			if _, declared := tab[tok]; declared || tok == "--" {
				e.Unspecified = "typed flag directly followed by a declared flag or `--`"
				return e
			}
			v, isErr, unspec := convert(tok, pendingType)
			if unspec != "" {
				e.Unspecified = unspec
				return e
			}
			if isErr {
				e.Err = "bad-value"
				return e
			}
			if strings.HasPrefix(tok, "-") && pendingType != "str" {
				e.NegValue = true
			}
			e.Flags[pending] = v
			pending = ""
			continue
		}
		if tok == "--" {
			if !c.AllowAdditional {
				e.Unspecified = "`--` when additional parameters are not allowed"
				return e
			}
			ignore = true
			e.UsedDDash = true
			continue
		}
		if strings.HasPrefix(tok, "-") {
			target, typ, hops, ok, bad := resolve(tab, tok)
			if bad {
				e.Unspecified = "invalid table (alias cycle / alias to undeclared flag / unknown type)"
				return e
			}
			if !ok {
				if tok == "-" {
					e.Unspecified = "a lone `-`"
					return e
				}
				e.Err = "undeclared-flag"
				return e
			}
			if hops > 0 {
				e.UsedAlias = true
			}
			if typ == "bool" {
				e.Flags[target] = true
				continue
			}
			if _, dup := e.Flags[target]; dup {
				e.Unspecified = "typed flag given twice"
				return e
			}
			pending, pendingType = target, typ
			continue
		}
		// a non-flag argument
		if !c.AllowAdditional {
			e.Err = "additional-not-allowed"
			return e
		}
		e.Additional = append(e.Additional, tok)
		if c.Strict {
			ignore = true
		}
	}
	if pending != "" {
		e.Err = "missing-value"
	}
	return e
}

// ---------------------------------------------------------------------------
// generator

var flagNames = []string{"-a", "-b", "-c", "-v", "-x", "-1", "-ab", "--str", "--num", "--int", "--bool", "--all", "--dry-run", "--x_y", "--A", "--no-color"}
var scalarTypes = []string{"str", "int", "num", "bool", "bool"}

var strValues = []string{"", "a", "foo", "a b", "  ", "-z9", "--test", "-", "=", "$x", "@y", "{a}", "~", "*", "é日本", "1.5", "#c", `\n`, `"q"`, "a,b", "[1]", "-5", "true", "--=", "%{}", "|", ";", "&&", "<err>"}
var intValues = []string{"0", "7", "-5", "42", "123456789", "-1", "9007199254740992", "-9007199254740992", "007"}
var numValues = []string{"0", "2.5", "-0.125", "3", "-5", "10.000", "123456.789", "0.1", "-2.50"}
var badNumeric = []string{"abc", "1x", "--test", "-", "1.2.3", "five", "-x", "1,5", "0x", "$1", "--5", "1 2"}
var undeclared = []string{"--bad", "-z", "--", "---", "-5", "--str2", "-Z", "--help", "-0.5", "--a=b", "-é"}
var bareWords = []string{"", "a", "foo", "a b", "=x", "1", "1.5", "file.txt", "é", "+", "x-y", "a--b", "$v", "{b}", "#", "~"}

func genCase(t *rapid.T, mode string) Case {
	c := Case{Mode: mode}
	n := rapid.IntRange(1, 6).Draw(t, "nflags")
	pool := append([]string{}, flagNames...)
	for i := 0; i < n; i++ {
		k := rapid.IntRange(0, len(pool)-1).Draw(t, "name")
		name := pool[k]
		pool = append(pool[:k], pool[k+1:]...)
		f := Flag{Name: name}
		if i > 0 && rapid.IntRange(0, 2).Draw(t, "alias") == 0 {
			f.Type = c.Flags[rapid.IntRange(0, i-1).Draw(t, "target")].Name
		} else {
			f.Type = rapid.SampledFrom(scalarTypes).Draw(t, "type")
		}
		c.Flags = append(c.Flags, f)
	}
	c.AllowAdditional = rapid.Bool().Draw(t, "allow")
	c.Strict = rapid.IntRange(0, 3).Draw(t, "strict") == 0
	tab := c.table()

	var bools, typed []string // declared names (aliases included) by resolved type
	for _, f := range c.Flags {
		_, typ, _, ok, _ := resolve(tab, f.Name)
		if !ok {
			continue
		}
		if typ == "bool" {
			bools = append(bools, f.Name)
		} else {
			typed = append(typed, f.Name)
		}
	}
	used := map[string]bool{}
	free := func() []string {
		var out []string
		for _, name := range typed {
			target, _, _, _, _ := resolve(tab, name)
			if !used[target] {
				out = append(out, name)
			}
		}
		return out
	}
	notDeclared := func(pool []string) []string {
		var out []string
		for _, s := range pool {
			if _, d := tab[s]; !d && s != "--" {
				out = append(out, s)
			}
		}
		return out
	}
	value := func(typ string) string {
		bad := rapid.IntRange(0, 5).Draw(t, "badvalue") == 0
		switch {
		case typ == "str":
			return rapid.SampledFrom(notDeclared(strValues)).Draw(t, "sval")
		case bad:
			return rapid.SampledFrom(notDeclared(badNumeric)).Draw(t, "bval")
		case typ == "int":
			return rapid.SampledFrom(notDeclared(intValues)).Draw(t, "ival")
		default:
			return rapid.SampledFrom(notDeclared(numValues)).Draw(t, "nval")
		}
	}

	items := rapid.IntRange(0, 7).Draw(t, "items")
	after := false // after `--`
	for i := 0; i < items; i++ {
		if after {
			// anything at all
			switch rapid.IntRange(0, 3).Draw(t, "tail") {
			case 0:
				c.Args = append(c.Args, rapid.SampledFrom(c.Flags).Draw(t, "tflag").Name)
			case 1:
				c.Args = append(c.Args, rapid.SampledFrom(undeclared).Draw(t, "tund"))
			case 2:
				c.Args = append(c.Args, rapid.SampledFrom(bareWords).Draw(t, "tword"))
			default:
				c.Args = append(c.Args, rapid.SampledFrom(strValues).Draw(t, "tval"))
			}
			continue
		}
		kind := rapid.SampledFrom([]string{"bool", "typed", "typed", "typed", "undeclared", "word", "word", "ddash", "trailing"}).Draw(t, "kind")
		switch kind {
		case "bool":
			if len(bools) == 0 {
				continue
			}
			c.Args = append(c.Args, rapid.SampledFrom(bools).Draw(t, "bflag"))
		case "typed":
			fr := free()
			if len(fr) == 0 {
				continue
			}
			name := rapid.SampledFrom(fr).Draw(t, "tflag")
			target, typ, _, _, _ := resolve(tab, name)
			used[target] = true
			c.Args = append(c.Args, name, value(typ))
		case "undeclared":
			und := notDeclared(undeclared)
			c.Args = append(c.Args, rapid.SampledFrom(und).Draw(t, "und"))
		case "word":
			c.Args = append(c.Args, rapid.SampledFrom(bareWords).Draw(t, "word"))
		case "ddash":
			if !c.AllowAdditional {
				continue
			}
			c.Args = append(c.Args, "--")
			after = true
		case "trailing":
			fr := free()
			if i != items-1 || len(fr) == 0 {
				continue
			}
			c.Args = append(c.Args, rapid.SampledFrom(fr).Draw(t, "trflag"))
		}
	}
	if c.Args == nil {
		c.Args = []string{}
	}
	return c
}

func genAPI(t *rapid.T) Case  { return genCase(t, "api") }
func genArgs(t *rapid.T) Case { return genCase(t, "args") }

// ---------------------------------------------------------------------------
// observers

func (c Case) arguments() *parameters.Arguments {
	return &parameters.Arguments{AllowAdditional: c.AllowAdditional, StrictFlagPlacement: c.Strict, Flags: c.table()}
}

type parsed struct {
	flags      map[string]any
	additional []string
	err        error
	panicked   any
}

func callParseFlags(c Case) (r parsed) {
	defer func() {
		if p := recover(); p != nil {
			r.panicked = p
		}
	}()
	params := append([]string{}, c.Args...)
	f, add, err := parameters.ParseFlags(params, c.arguments())
	r.additional, r.err = add, err
	if err == nil {
		if f == nil {
			r.panicked = "nil *FlagsT returned without an error"
			return
		}
		r.flags = f.GetMap()
	}
	return
}

// compareFlags: every expected flag present with exactly the expected value;
// any other reported key must be a declared bool flag reported as false.
func compareFlags(c Case, want, got map[string]any, sameType bool) string {
	tab := c.table()
	keys := make([]string, 0, len(want))
	for k := range want {
		keys = append(keys, k)
	}
	sort.Strings(keys)
	for _, k := range keys {
		g, ok := got[k]
		if !ok {
			return fmt.Sprintf("flag %s missing (want %#v)", k, want[k])
		}
		if sameType {
			if !reflect.DeepEqual(g, want[k]) {
				return fmt.Sprintf("flag %s = %#v (%T), want %#v (%T)", k, g, g, want[k], want[k])
			}
		} else if !jsonEqual(g, want[k]) {
			return fmt.Sprintf("flag %s = %#v, want %#v", k, g, want[k])
		}
	}
	gk := make([]string, 0, len(got))
	for k := range got {
		gk = append(gk, k)
	}
	sort.Strings(gk)
	for _, k := range gk {
		if _, ok := want[k]; ok {
			continue
		}
		if tab[k] == "bool" && got[k] == false {
			continue // docs: an absent boolean flag is false
		}
		return fmt.Sprintf("flag %s = %#v reported but was not given", k, got[k])
	}
	return ""
}

// jsonEqual compares a decoded JSON value (json.Number for numbers) with a Go value.
func jsonEqual(got, want any) bool {
	switch w := want.(type) {
	case int:
		n, ok := got.(json.Number)
		if !ok {
			return false
		}
		f, err := strconv.ParseFloat(n.String(), 64)
		return err == nil && f == float64(w)
	case float64:
		n, ok := got.(json.Number)
		if !ok {
			return false
		}
		f, err := strconv.ParseFloat(n.String(), 64)
		return err == nil && f == w
	default:
		return reflect.DeepEqual(got, want)
	}
}

func sameStrings(a, b []string) bool {
	if len(a) != len(b) {
		return false
	}
	for i := range a {
		if a[i] != b[i] {
			return false
		}
	}
	return true
}

func checkAPI(c Case, e expectation) *core.Violation {
	r := callParseFlags(c)
	desc := fmt.Sprintf("table=%v allowAdditional=%v strict=%v args=%q", c.Flags, c.AllowAdditional, c.Strict, c.Args)
	if r.panicked != nil {
		return core.Violf("api-panic", "ParseFlags panicked: %v\n%s", r.panicked, desc)
	}
	if e.Err != "" {
		if r.err == nil {
			return core.Violf("api-no-error", "%s\nwant an error (%s), got flags=%v additional=%q", desc, e.Err, r.flags, r.additional)
		}
		return nil
	}
	if r.err != nil {
		return core.Violf("api-unexpected-error", "%s\nwant flags=%v additional=%q, got error %q", desc, e.Flags, e.Additional, r.err)
	}
	if d := compareFlags(c, e.Flags, r.flags, true); d != "" {
		return core.Violf("api-flags", "%s\n%s\nwant flags=%#v got %#v", desc, d, e.Flags, r.flags)
	}
	if !sameStrings(e.Additional, r.additional) {
		return core.Violf("api-additional", "%s\nwant additional=%q got %q", desc, e.Additional, r.additional)
	}
	return nil
}

func quote(s string) string { return "'" + s + "'" }

// Source is the murex program of an "args" case.
func (c Case) Source() string {
	spec := struct {
		AllowAdditional     bool
		StrictFlagPlacement bool
		Flags               map[string]string
	}{c.AllowAdditional, c.Strict, c.table()}
	js, _ := json.Marshal(spec)
	var b strings.Builder
	b.WriteString("function c24fn {\n    args a " + quote(string(js)) + "\n    exitnum\n    out $a\n}\nc24fn")
	for _, a := range c.Args {
		b.WriteString(" " + quote(a))
	}
	b.WriteString("\n")
	return b.String()
}

var hangConfirmed int

func checkArgs(c Case, e expectation) *core.Violation {
	for _, a := range c.Args {
		if strings.ContainsAny(a, "'\n\r") {
			core.Count("args-mode-unquotable-skipped", 1)
			return nil
		}
	}
	src := c.Source()
	knownOpen := e.Err != "" && core.IsKnownOpen(findingArgsHang)
	if knownOpen && hangConfirmed >= 2 && os.Getenv("VERIF_REPLAY") == "" {
		// Every parse error wedges `args` (known finding); two confirmations
		// per process are enough, the rest are excluded and counted.
		core.ExcludedKnown(findingArgsHang)
		return nil
	}
	old := core.HangBudget
	if knownOpen {
		core.HangBudget = 4 * time.Second // only shortens the wait inside the known class
	}
	if s := core.EnvInt("C24_HANG_S", 0); s > 0 {
		core.HangBudget = time.Duration(s) * time.Second // builder aid: lets rapid shrink a hanging case
	}
	r := core.Run(src)
	core.HangBudget = old
	if r.Hung {
		if knownOpen {
			hangConfirmed++
		}
		return core.Violf("args-hang", "`args` did not return (want %s)\n%s", wantText(e), src)
	}
	if r.Err != nil {
		return core.Violf("args-exec-error", "%s\nerr=%v stderr=%q", src, r.Err, r.Stderr)
	}
	nl := bytes.IndexByte(r.Stdout, '\n')
	if nl < 0 {
		return core.Violf("args-output", "%s\nunexpected stdout=%q stderr=%q", src, r.Stdout, r.Stderr)
	}
	exitText := string(r.Stdout[:nl])
	var obj struct {
		Self       string
		Flags      map[string]any
		Additional []string
		Error      string
	}
	dec := json.NewDecoder(bytes.NewReader(r.Stdout[nl+1:]))
	dec.UseNumber()
	if err := dec.Decode(&obj); err != nil {
		return core.Violf("args-output", "%s\nvariable is not JSON (%v): stdout=%q stderr=%q", src, err, r.Stdout, r.Stderr)
	}
	if len(r.Stderr) != 0 {
		return core.Violf("args-stderr", "%s\n`args` wrote to stderr: %q", src, r.Stderr)
	}
	direct := callParseFlags(c)
	if e.Err != "" {
		if obj.Error == "" || exitText == "0" {
			return core.Violf("args-no-error", "%s\nwant an error (%s) with non-zero exit, got exit=%s variable=%s", src, e.Err, exitText, r.Stdout[nl+1:])
		}
		if direct.err != nil && obj.Error != direct.err.Error() {
			return core.Violf("args-error-text", "%s\nError=%q but ParseFlags says %q", src, obj.Error, direct.err)
		}
		return nil
	}
	if obj.Error != "" || exitText != "0" {
		return core.Violf("args-unexpected-error", "%s\nwant %s, got exit=%s Error=%q", src, wantText(e), exitText, obj.Error)
	}
	if d := compareFlags(c, e.Flags, obj.Flags, false); d != "" {
		return core.Violf("args-flags", "%s\n%s\nwant flags=%#v got %v", src, d, e.Flags, obj.Flags)
	}
	if !sameStrings(e.Additional, obj.Additional) {
		return core.Violf("args-additional", "%s\nwant additional=%q got %q", src, e.Additional, obj.Additional)
	}
	return nil
}

func wantText(e expectation) string {
	if e.Err != "" {
		return "a clean error (" + e.Err + ")"
	}
	return fmt.Sprintf("flags=%v additional=%q", e.Flags, e.Additional)
}

func check(c Case) *core.Violation {
	e := ref(c)
	if e.Unspecified != "" {
		core.Count("unspecified-not-asserted", 1)
		return nil
	}
	if c.Mode == "args" {
		return checkArgs(c, e)
	}
	return checkAPI(c, e)
}

func classify(c Case) core.Class {
	e := ref(c)
	var parts []string
	switch {
	case e.Unspecified != "":
		return core.Class{Label: c.Mode + ":unspecified"}
	case e.Err != "":
		parts = append(parts, "err="+e.Err)
	default:
		parts = append(parts, "ok")
	}
	if e.UsedAlias {
		parts = append(parts, "alias")
	}
	if e.UsedDDash {
		parts = append(parts, "ddash")
	}
	if e.NegValue {
		parts = append(parts, "negvalue")
	}
	nt := e.Err != "" || e.UsedAlias || e.UsedDDash || e.NegValue
	return core.Class{NonTrivial: nt, Label: c.Mode + ":" + strings.Join(parts, ",")}
}

// known: the only listed finding is "`args` wedges when ParseFlags reports an
// error": args mode, hang, and the reference parser expects an error.
func known(c Case, v *core.Violation) string {
	if c.Mode == "args" && v.Kind == "args-hang" {
		if e := ref(c); e.Unspecified == "" && e.Err != "" {
			return findingArgsHang
		}
	}
	return ""
}

func sample(c Case) any {
	if c.Mode == "args" {
		return c.Source()
	}
	return c
}

var specAPI = core.Spec[Case]{ID: "C24", Gen: genAPI, Check: check, Classify: classify, Known: known, Sample: sample}
var specArgs = core.Spec[Case]{ID: "C24", Gen: genArgs, Check: check, Classify: classify, Known: known, Sample: sample, Journal: true}

func TestPropAPI(t *testing.T)  { core.RunProp(t, specAPI) }
func TestPropArgs(t *testing.T) { core.RunProp(t, specArgs) }
func TestReplay(t *testing.T)   { core.Replay(t, specArgs) }

// TestKnownOf lets the driver classify a case that killed a shard.
func TestKnownOf(t *testing.T) {
	raw, err := os.ReadFile(os.Getenv("VERIF_REPLAY"))
	if err != nil {
		t.Skip("VERIF_REPLAY not set")
	}
	var rec core.FailRecord
	cj := raw
	if json.Unmarshal(raw, &rec) == nil && len(rec.Case) > 0 {
		cj = rec.Case
	}
	var c Case
	if json.Unmarshal(cj, &c) != nil {
		t.Skip("not a case")
	}
	fmt.Printf("KNOWN-OF %q\n", known(c, core.Violf("args-hang", "")))
}
