// C26 — Named pipes can be used in any order without crashing the shell.
//
// Domain: histories of create / close / delete / get / write / read / dump
// operations over three pipe names (plus the built-in "null") on the registry
// type behind lang.GlobalPipes (lang/pipes.Named), with "advance" steps that
// wait out the 2 s close grace period.
//
// The grace period is real time, so one case is a BATCH of histories that are
// executed phase by phase: all histories run up to their next "advance", the
// batch sleeps once, and so on.
//
//	mode "seq" : every history has its own registry; registry model oracle
//	mode "conc": the histories are goroutines working on ONE registry at the
//	             same time; oracle = survival, no panic, no hang, sane Dump
//	mode "e2e" : like "seq" but the operations are murex code (`pipe`, `!pipe`,
//	             `<name>`) run in-process against lang.GlobalPipes
//
// A crash (nil dereference in the closer goroutine) kills the process; the
// driver attributes it through the journal.
package c26

import (
	"encoding/json"
	"fmt"
	"os"
	"sort"
	"strings"
	"sync"
	"sync/atomic"
	"testing"
	"time"

	"github.com/lmorg/murex/lang"
	"github.com/lmorg/murex/lang/pipes"
	"github.com/lmorg/murex/lang/stdio"
	"pgregory.net/rapid"
	"verif/harness/core"
)

func TestMain(m *testing.M) {
	core.InitMurex() // registers the "std" pipe type
	core.Main(m, "C26")
}

const (
	idStale  = "C26-stale-closer"        // closePipe acts on whatever the name holds 2 s later
	idDelete = "C26-delete-outside-lock" // Named.Delete mutates the map after unlocking
)

// timing (see the Clock paragraph of the design): "still there" is asserted
// only < 1.5 s after the first accepted close, "gone" only >= 2.5 s after it
// (and then with a generous poll, so a late scheduler cannot cause an alarm).
const (
	stillThere   = 1500 * time.Millisecond
	goneAfter    = 2500 * time.Millisecond
	advanceSleep = 2700 * time.Millisecond
	gonePoll     = 15 * time.Second
	phaseBudget  = 120 * time.Second
)

var names = []string{"p", "q", "r", "null"}

// Op is one operation. Name indexes names (3 = "null": no result is asserted
// for it, it only has to be survived).
type Op struct {
	Kind string `json:"kind"` // create close delete get write read dump advance
	Name int    `json:"name,omitempty"`
}

type Case struct {
	Mode      string `json:"mode"`
	Histories [][]Op `json:"histories"`
	// Reps (conc mode): every create / delete / dump / get is issued Reps times
	// in a tight loop (a delete as create+delete of the goroutine's own name),
	// so that operations of different goroutines really overlap.
	Reps int `json:"reps,omitempty"`
	// race mode: Creators goroutines create the same fresh name at the same
	// moment, Rounds times (a new name each round)
	Creators int `json:"creators,omitempty"`
	Rounds   int `json:"rounds,omitempty"`
}

// ---------------------------------------------------------------------------
// generator

var opGen = rapid.Custom(func(t *rapid.T) Op {
	k := rapid.SampledFrom([]string{
		"dump", "get", "write", "write", "read",
		"create", "create", "create", "close", "close", "close", "close", "close", "delete", "delete", "delete", "advance",
	}).Draw(t, "op")
	op := Op{Kind: k}
	switch k {
	case "dump", "advance":
	case "write", "read":
		op.Name = rapid.SampledFrom([]int{0, 0, 0, 0, 1, 1, 2}).Draw(t, "name")
	default:
		op.Name = rapid.SampledFrom([]int{0, 0, 0, 0, 0, 0, 1, 1, 1, 2, 3}).Draw(t, "name")
	}
	return op
})

func genHistory(t *rapid.T) []Op {
	min := rapid.IntRange(1, 8).Draw(t, "minlen")
	ops := rapid.SliceOfN(opGen, min, 14).Draw(t, "ops")
	if rapid.IntRange(0, 3).Draw(t, "precreate") != 0 {
		// most operations need an existing pipe to be interesting
		ops = append([]Op{{Kind: "create"}}, ops...)
	}
	// at most 2 advances and 3 lookups of a possibly missing pipe (0.5 s each)
	adv, gets := 0, 0
	for i := range ops {
		switch ops[i].Kind {
		case "advance":
			adv++
			if adv > 2 {
				ops[i] = Op{Kind: "dump"}
			}
		case "get":
			gets++
			if gets > 3 {
				ops[i] = Op{Kind: "dump"}
			}
		}
	}
	return ops
}

func genMode(mode string, minH, maxH int) func(t *rapid.T) Case {
	return func(t *rapid.T) Case {
		c := Case{Mode: mode}
		n := rapid.IntRange(minH, maxH).Draw(t, "histories")
		for i := 0; i < n; i++ {
			c.Histories = append(c.Histories, genHistory(t))
		}
		return c
	}
}

func batchSize() int { return core.EnvInt("C26_BATCH", 24) }

func genSeq(t *rapid.T) Case { return genMode("seq", batchSize()/2, batchSize())(t) }
func genConc(t *rapid.T) Case {
	c := genMode("conc", 2, 4)(t)
	c.Reps = rapid.SampledFrom([]int{1, 1, 50, 2000}).Draw(t, "reps")
	return c
}
func genRace(t *rapid.T) Case {
	return Case{Mode: "race",
		Creators: rapid.IntRange(2, 8).Draw(t, "creators"),
		Rounds:   rapid.SampledFrom([]int{500, 2000, 5000}).Draw(t, "rounds")}
}
func genE2E(t *rapid.T) Case { return genMode("e2e", batchSize()/3, batchSize()/2)(t) }

// ---------------------------------------------------------------------------
// the registry under test, behind one interface for the Go API and murex code

type registry interface {
	create(name string) error
	close(name string) error
	delete(name string) error // not available as murex code: errNoSuchOp
	get(name string) (stdio.Io, error)
	dump() map[string]string
	write(name string, data []byte) error
	read(name string, want int) ([]byte, error)
}

type apiRegistry struct{ n *pipes.Named }

func newAPIRegistry() *apiRegistry {
	n := pipes.NewNamed()
	return &apiRegistry{n: &n}
}

func (r *apiRegistry) create(name string) error { return r.n.CreatePipe(name, "std", "") }
func (r *apiRegistry) close(name string) error  { return r.n.Close(name) }
func (r *apiRegistry) delete(name string) error { return r.n.Delete(name) }
func (r *apiRegistry) dump() map[string]string  { return r.n.Dump() }
func (r *apiRegistry) get(name string) (stdio.Io, error) {
	return r.n.Get(name)
}
func (r *apiRegistry) write(name string, data []byte) error {
	p, err := r.n.Get(name)
	if err != nil {
		return err
	}
	if p == nil {
		return errNilPipe
	}
	n, err := p.Write(data)
	if err == nil && n != len(data) {
		err = fmt.Errorf("short write: %d of %d bytes", n, len(data))
	}
	return err
}
func (r *apiRegistry) read(name string, want int) ([]byte, error) {
	p, err := r.n.Get(name)
	if err != nil {
		return nil, err
	}
	if p == nil {
		return nil, errNilPipe
	}
	buf := make([]byte, want+1024)
	n, err := p.Read(buf)
	return buf[:n], err
}

var errNilPipe = fmt.Errorf("Get returned a nil pipe and no error")
var errNoSuchOp = fmt.Errorf("operation not available")

// e2eRegistry runs murex code against lang.GlobalPipes; names are made unique
// per history by a prefix.
type e2eRegistry struct{ prefix string }

func (r *e2eRegistry) run(src string) error {
	res := core.Run(src)
	if res.Hung {
		return fmt.Errorf("HANG: %s", src)
	}
	if res.Err != nil {
		return res.Err
	}
	if res.Exit != 0 {
		return fmt.Errorf("exit %d: %s", res.Exit, strings.TrimSpace(string(res.Stderr)))
	}
	return nil
}
func (r *e2eRegistry) full(name string) string {
	if name == "null" {
		return name
	}
	return r.prefix + name
}
func (r *e2eRegistry) create(name string) error { return r.run("pipe " + r.full(name)) }
func (r *e2eRegistry) close(name string) error  { return r.run("!pipe " + r.full(name)) }
func (r *e2eRegistry) delete(name string) error { return errNoSuchOp }
func (r *e2eRegistry) get(name string) (stdio.Io, error) {
	return lang.GlobalPipes.Get(r.full(name))
}
func (r *e2eRegistry) dump() map[string]string {
	out := map[string]string{}
	for k, v := range lang.GlobalPipes.Dump() {
		if k == "null" {
			out[k] = v
		} else if strings.HasPrefix(k, r.prefix) {
			out[strings.TrimPrefix(k, r.prefix)] = v
		}
	}
	return out
}
func (r *e2eRegistry) write(name string, data []byte) error {
	// `out` appends a newline: data ends with one already, so use (…) quoting without it
	return r.run(fmt.Sprintf("out <%s> %s", r.full(name), strings.TrimSuffix(string(data), "\n")))
}
func (r *e2eRegistry) read(name string, want int) ([]byte, error) {
	p, err := lang.GlobalPipes.Get(r.full(name))
	if err != nil {
		return nil, err
	}
	if p == nil {
		return nil, errNilPipe
	}
	buf := make([]byte, want+1024)
	n, err := p.Read(buf)
	return buf[:n], err
}

// ---------------------------------------------------------------------------
// sequential histories: registry model

type pstate struct {
	exists  bool
	closing bool
	closeLo time.Time // the first accepted Close of this pipe was called in [closeLo, closeHi]
	closeHi time.Time
	buf     []byte
}

type hrun struct {
	id        int
	ops       []Op
	next      int
	reg       registry
	st        [3]pstate
	viol      *core.Violation
	excluded  string
	trace     []string
	writes    int
	e2e       bool
	noExcl    bool
	lastClose time.Time // the latest Close that was accepted: a closer goroutine is due 2 s later
}

const (
	absent  = 0
	present = 1
	unknown = 2
)

func (h *hrun) fail(kind, format string, a ...any) {
	if h.viol != nil {
		return
	}
	ops, _ := json.Marshal(h.ops)
	h.viol = core.Violf(kind, "history %d: %s\ntrace: %s\nhistory as a case: {\"mode\":%q,\"histories\":[%s]}",
		h.id, fmt.Sprintf(format, a...), strings.Join(h.trace, " "), map[bool]string{false: "seq", true: "e2e"}[h.e2e], ops)
}

// settle waits for every pipe whose grace period is over to disappear.
func (h *hrun) settle() {
	for i := range h.st {
		s := &h.st[i]
		if !s.exists || !s.closing || time.Since(s.closeHi) < goneAfter {
			continue
		}
		deadline := time.Now().Add(gonePoll)
		for {
			if _, still := h.reg.dump()[names[i]]; !still {
				break
			}
			if time.Now().After(deadline) {
				h.fail("closed-pipe-never-disappears", "pipe %q is still registered %.1f s after it was closed", names[i], time.Since(s.closeLo).Seconds())
				return
			}
			time.Sleep(100 * time.Millisecond)
		}
		*s = pstate{}
	}
}

func (h *hrun) status(i int, ta time.Time) int {
	s := &h.st[i]
	switch {
	case !s.exists:
		return absent
	case !s.closing:
		return present
	case ta.Sub(s.closeLo) < stillThere:
		return present
	}
	return unknown
}

// checkDump compares Dump with the model.
func (h *hrun) checkDump(when string) {
	d := h.reg.dump()
	ta := time.Now()
	for i := range h.st {
		typ, in := d[names[i]]
		switch h.status(i, ta) {
		case present:
			if !in {
				what := "a live pipe"
				if h.st[i].closing {
					what = fmt.Sprintf("a pipe closed %.2f s ago (grace period 2 s)", ta.Sub(h.st[i].closeLo).Seconds())
				}
				h.fail("pipe-vanished", "%s: %s %q is missing from the registry: %v", when, what, names[i], d)
				return
			}
			if typ != "std" {
				h.fail("wrong-type", "%s: pipe %q has type %q", when, names[i], typ)
				return
			}
		case absent:
			if in {
				h.fail("ghost-pipe", "%s: pipe %q is registered although it was never created / was deleted / was closed long ago: %v", when, names[i], d)
				return
			}
		case unknown:
			if !in {
				h.st[i] = pstate{} // the closer has run
			}
		}
	}
	for k := range d {
		if k != "null" && k != "p" && k != "q" && k != "r" {
			h.fail("foreign-name", "%s: the registry holds a name nobody created: %q", when, k)
			return
		}
	}
}

// runPhase executes ops up to and including the next "advance". It reports
// whether the history still has ops left.
func (h *hrun) runPhase() (more bool) {
	for h.next < len(h.ops) && h.viol == nil && h.excluded == "" {
		op := h.ops[h.next]
		h.next++
		if op.Kind == "advance" {
			h.trace = append(h.trace, "advance")
			return h.next < len(h.ops)
		}
		h.step(op)
	}
	return false
}

func (h *hrun) step(op Op) {
	h.settle()
	if h.viol != nil {
		return
	}
	ni := ((op.Name % len(names)) + len(names)) % len(names)
	name := names[ni]
	modelled := ni < 3
	var s *pstate
	if modelled {
		s = &h.st[ni]
	}
	label := op.Kind + "(" + name + ")"

	switch op.Kind {
	case "dump":
		h.trace = append(h.trace, "dump")

	case "create":
		err := h.reg.create(name)
		ta := time.Now()
		h.trace = append(h.trace, label+res(err))
		if !modelled {
			break
		}
		switch h.status(ni, ta) {
		case present:
			if err == nil {
				h.fail("duplicate-name", "create(%q) succeeded although a pipe of that name exists", name)
			}
		case absent:
			if err != nil {
				h.fail("create-failed", "create(%q) failed although no such pipe exists: %v", name, err)
			} else {
				*s = pstate{exists: true}
			}
		case unknown:
			if err == nil {
				*s = pstate{exists: true} // the closer had already removed the old pipe
			}
		}

	case "close":
		if modelled && s.exists && s.closing && h.skipKnown(idStale, label) {
			return
		}
		tb := time.Now()
		err := h.reg.close(name)
		ta := time.Now()
		h.trace = append(h.trace, label+res(err))
		if err == nil {
			h.lastClose = ta
		}
		if !modelled {
			break
		}
		switch {
		case !s.exists:
			if err == nil {
				h.fail("missing-pipe-no-error", "close(%q) returned no error although no such pipe exists", name)
			}
		case !s.closing:
			if err != nil {
				h.fail("close-failed", "close(%q) failed on a live pipe: %v", name, err)
			} else {
				s.closing, s.closeLo, s.closeHi = true, tb, ta
			}
		default:
			// a second close inside the grace period: accepted or refused, the
			// statement does not say; it only has to be survived
			if err != nil && h.status(ni, ta) == unknown {
				*s = pstate{}
			}
		}

	case "delete":
		if h.e2e {
			h.trace = append(h.trace, label+"(n/a)")
			break
		}
		if modelled && s.exists && s.closing && h.skipKnown(idStale, label) {
			return
		}
		err := h.reg.delete(name)
		ta := time.Now()
		h.trace = append(h.trace, label+res(err))
		if !modelled {
			break
		}
		switch h.status(ni, ta) {
		case present:
			if err != nil {
				h.fail("delete-failed", "delete(%q) failed although the pipe exists: %v", name, err)
			} else {
				*s = pstate{}
			}
		case absent:
			if err == nil {
				h.fail("missing-pipe-no-error", "delete(%q) returned no error although no such pipe exists", name)
			}
		case unknown:
			*s = pstate{} // deleted now, or already removed by the closer
		}

	case "get":
		p, err := h.reg.get(name)
		ta := time.Now()
		h.trace = append(h.trace, label+res(err))
		if err == nil && p == nil {
			h.fail("nil-pipe", "get(%q) returned a nil pipe and no error", name)
			return
		}
		if !modelled {
			break
		}
		switch h.status(ni, ta) {
		case present:
			if err != nil {
				h.fail("get-failed", "get(%q) failed although the pipe exists: %v", name, err)
			}
		case absent:
			if err == nil {
				h.fail("missing-pipe-no-error", "get(%q) returned a pipe although no such pipe exists", name)
			}
		case unknown:
			if err != nil {
				*s = pstate{}
			}
		}

	case "write":
		// only to pipes the model knows to be there: a lookup of a missing pipe
		// costs 0.5 s and is covered by "get"
		if !modelled || h.status(ni, time.Now()) != present {
			h.trace = append(h.trace, label+"(skipped)")
			break
		}
		h.writes++
		data := []byte(fmt.Sprintf("h%dw%d\n", h.id, h.writes))
		err := h.reg.write(name, data)
		ta := time.Now()
		h.trace = append(h.trace, label+res(err))
		if h.status(ni, ta) == present {
			if err != nil {
				h.fail("write-failed", "write to pipe %q failed: %v", name, err)
			} else {
				s.buf = append(s.buf, data...)
			}
		} else {
			s.buf = nil // written while the pipe may have been closing down: not compared
		}

	case "read":
		if !modelled || len(s.buf) == 0 || h.status(ni, time.Now()) != present {
			h.trace = append(h.trace, label+"(skipped)")
			break
		}
		got, err := h.reg.read(name, len(s.buf))
		ta := time.Now()
		h.trace = append(h.trace, label+res(err))
		if h.status(ni, ta) == present {
			if err != nil || string(got) != string(s.buf) {
				h.fail("data-corrupted", "read from pipe %q returned %q (err %v), written was %q", name, got, err, s.buf)
			}
		}
		s.buf = nil

	default:
		h.fail("bad-case", "unknown op %q", op.Kind)
	}
	if h.viol == nil && h.excluded == "" {
		h.checkDump("after " + label)
	}
}

func res(err error) string {
	if err != nil {
		return "=err"
	}
	return "=ok"
}

// skipKnown stops a history right before the operation that would set off an
// open, process-killing known finding.
func (h *hrun) skipKnown(id, label string) bool {
	if h.noExcl || !core.IsKnownOpen(id) {
		return false
	}
	h.excluded = id
	h.trace = append(h.trace, label+"(not run: "+id+")")
	core.ExcludedKnown(id)
	return true
}

func replaying() bool { return os.Getenv("VERIF_REPLAY") != "" }

var caseCounter int64

func checkSeq(c Case) *core.Violation {
	caseN := atomic.AddInt64(&caseCounter, 1)
	var hs []*hrun
	for i, ops := range c.Histories {
		h := &hrun{id: i, ops: ops, noExcl: replaying(), e2e: c.Mode == "e2e"}
		if h.e2e {
			h.reg = &e2eRegistry{prefix: fmt.Sprintf("c26x%dx%dx%d_", os.Getpid(), caseN, i)}
		} else {
			h.reg = newAPIRegistry()
		}
		hs = append(hs, h)
	}
	var lastClose time.Time
	for phase := 0; ; phase++ {
		more := false
		var wg sync.WaitGroup
		var mu sync.Mutex
		done := make(chan struct{})
		for _, h := range hs {
			wg.Add(1)
			go func(h *hrun) {
				defer wg.Done()
				defer func() {
					if r := recover(); r != nil {
						h.fail("panic", "panic: %v", r)
					}
				}()
				m := h.runPhase()
				mu.Lock()
				more = more || m
				mu.Unlock()
			}(h)
		}
		go func() { wg.Wait(); close(done) }()
		select {
		case <-done:
		case <-time.After(phaseBudget):
			return core.Violf("hang", "a phase of %d histories did not finish within %v", len(hs), phaseBudget)
		}
		for _, h := range hs {
			if h.viol != nil {
				return h.viol
			}
			if h.lastClose.After(lastClose) {
				lastClose = h.lastClose
			}
		}
		if !more {
			break
		}
		time.Sleep(advanceSleep)
	}
	// survive the last closers, then look at the final state
	if !lastClose.IsZero() {
		if d := time.Until(lastClose.Add(advanceSleep)); d > 0 {
			time.Sleep(d)
		}
	}
	nontrivial := 0
	for _, h := range hs {
		if h.excluded == "" {
			h.settle()
			if h.viol == nil {
				h.checkDump("at the end")
			}
		}
		if h.viol != nil {
			return h.viol
		}
		if f := shapeOfMode(h.ops, c.Mode); f.nontrivial() {
			nontrivial++
		}
		if os.Getenv("C26_TRACE") != "" {
			fmt.Printf("TRACE history %d: %s\n", h.id, strings.Join(h.trace, " "))
		}
	}
	core.Count("histories", len(hs))
	core.Count("histories_nontrivial", nontrivial)
	return nil
}

// ---------------------------------------------------------------------------
// concurrent histories: one registry, one goroutine per history

func checkConc(c Case) *core.Violation {
	reg := newAPIRegistry()
	k := len(c.Histories)
	if k > len(names)-1 {
		k = len(names) - 1 // a goroutine closes/deletes only "its" name
	}
	noExcl := replaying()
	type worker struct {
		ops      []Op
		next     int
		closedAt time.Time
		closed   bool
		viol     *core.Violation
	}
	ws := make([]*worker, k)
	for i := range ws {
		ws[i] = &worker{ops: c.Histories[i]}
	}
	var writes int64
	reps := c.Reps
	if reps < 1 {
		reps = 1
	}
	if reps > 5000 {
		reps = 5000
	}
	runPhase := func(g int, w *worker) (more bool) {
		own := names[g]
		for w.next < len(w.ops) {
			op := w.ops[w.next]
			w.next++
			name := names[((op.Name%len(names))+len(names))%len(names)]
			switch op.Kind {
			case "advance":
				return w.next < len(w.ops)
			case "create":
				for r := 0; r < reps; r++ {
					reg.create(name)
				}
			case "close", "delete":
				// close/delete only the goroutine's own name, so that it can
				// keep away from the shapes of the open known findings
				if !noExcl && core.IsKnownOpen(idStale) && w.closed && time.Since(w.closedAt) < 2*advanceSleep {
					core.Count("conc_ops_skipped_"+idStale, 1)
					continue
				}
				if op.Kind == "delete" {
					if !noExcl && core.IsKnownOpen(idDelete) {
						core.Count("conc_ops_skipped_"+idDelete, 1)
						continue
					}
					reg.delete(own)
					for r := 1; r < reps; r++ {
						reg.create(own)
						reg.delete(own)
					}
					continue
				}
				if reg.close(own) == nil {
					w.closed, w.closedAt = true, time.Now()
				}
			case "get":
				if name == "null" || len(reg.dump()[name]) > 0 { // a missing name costs 0.5 s
					p, err := reg.get(name)
					if err == nil && p == nil {
						w.viol = core.Violf("nil-pipe", "get(%q) returned a nil pipe and no error", name)
						return false
					}
				}
			case "write":
				if len(reg.dump()[name]) > 0 && name != "null" {
					if p, err := reg.get(name); err == nil && p != nil {
						p.Write([]byte(fmt.Sprintf("g%dw%d\n", g, atomic.AddInt64(&writes, 1))))
					}
				}
			case "read", "dump":
				for r := 0; r < reps; r++ {
					for n, typ := range reg.dump() {
						if !(n == "null" && typ == "null") && !((n == "p" || n == "q" || n == "r") && typ == "std") {
							w.viol = core.Violf("corrupt-registry", "Dump shows %q of type %q", n, typ)
							return false
						}
					}
				}
			}
		}
		return false
	}
	for {
		more := false
		var wg sync.WaitGroup
		var mu sync.Mutex
		done := make(chan struct{})
		for g, w := range ws {
			wg.Add(1)
			go func(g int, w *worker) {
				defer wg.Done()
				defer func() {
					if r := recover(); r != nil {
						w.viol = core.Violf("panic", "goroutine %d: panic: %v", g, r)
					}
				}()
				m := runPhase(g, w)
				mu.Lock()
				more = more || m
				mu.Unlock()
			}(g, w)
		}
		go func() { wg.Wait(); close(done) }()
		select {
		case <-done:
		case <-time.After(phaseBudget):
			return core.Violf("hang", "concurrent phase did not finish within %v", phaseBudget)
		}
		for _, w := range ws {
			if w.viol != nil {
				return w.viol
			}
		}
		time.Sleep(advanceSleep)
		if !more {
			break
		}
	}
	d := reg.dump()
	if d["null"] != "null" {
		return core.Violf("corrupt-registry", "the null pipe is gone: %v", d)
	}
	var ks []string
	for n, typ := range d {
		ks = append(ks, n)
		if n != "null" && !((n == "p" || n == "q" || n == "r") && typ == "std") {
			return core.Violf("corrupt-registry", "Dump shows %q of type %q at the end", n, typ)
		}
	}
	sort.Strings(ks)
	return nil
}

// checkRace: names are unique among live pipes also when several goroutines
// create the same name at the same moment: exactly one create succeeds, the
// others are refused, and the name leads to one pipe.
func checkRace(c Case) *core.Violation {
	reg := newAPIRegistry()
	k, rounds := c.Creators, c.Rounds
	if k < 2 {
		k = 2
	}
	if k > 16 {
		k = 16
	}
	if rounds < 1 {
		rounds = 1
	}
	if rounds > 20000 {
		rounds = 20000
	}
	errs := make([]error, k)
	// a reader of the table (runtime --named-pipes) runs next to the creates
	// and deletes the whole time
	var stop int32
	var dumpBad atomic.Value
	dumperDone := make(chan struct{})
	go func() {
		defer close(dumperDone)
		for atomic.LoadInt32(&stop) == 0 {
			for n, typ := range reg.dump() {
				if !(n == "null" && typ == "null") && !(strings.HasPrefix(n, "race") && typ == "std") {
					dumpBad.Store(fmt.Sprintf("Dump shows %q of type %q", n, typ))
				}
			}
		}
	}()
	defer func() { atomic.StoreInt32(&stop, 1); <-dumperDone }()
	for r := 0; r < rounds; r++ {
		if m := dumpBad.Load(); m != nil {
			return core.Violf("corrupt-registry", "%s", m)
		}
		name := fmt.Sprintf("race%d", r)
		var start, done sync.WaitGroup
		start.Add(1)
		for g := 0; g < k; g++ {
			done.Add(1)
			go func(g int) {
				defer done.Done()
				start.Wait()
				errs[g] = reg.create(name)
			}(g)
		}
		start.Done()
		done.Wait()
		won := 0
		for g := 0; g < k; g++ {
			if errs[g] == nil {
				won++
			}
		}
		if won != 1 {
			return core.Violf("create-race", "round %d: %d goroutines created the pipe %q at the same moment and %d of them were told it worked (results: %v): names are not unique among live pipes", r, k, name, won, errs)
		}
		if typ := reg.dump()[name]; typ != "std" {
			return core.Violf("create-race", "round %d: after the creates Dump shows %q for %q", r, typ, name)
		}
		// keep the registry small: the name is deleted, not closed (no 2 s closer)
		reg.delete(name)
	}
	core.Count("race_rounds", rounds)
	return nil
}

func check(c Case) *core.Violation {
	switch c.Mode {
	case "seq", "e2e", "":
		return checkSeq(c)
	case "conc":
		return checkConc(c)
	case "race":
		return checkRace(c)
	}
	return core.Violf("bad-case", "unknown mode %q", c.Mode)
}

// ---------------------------------------------------------------------------
// classification (static shape of the histories)

type shape struct {
	repeatedClose, deleteAfterClose, recreateInGrace, advance bool
}

func (s shape) nontrivial() bool { return s.repeatedClose || s.deleteAfterClose || s.recreateInGrace }

// shapeOf looks at one history: a name counts as "closing" from an accepted
// close (the pipe existed) to the next advance.
func shapeOf(ops []Op) (s shape) { return shapeOfMode(ops, "seq") }

// shapeOfMode: murex code has no delete operation, so e2e histories ignore it.
func shapeOfMode(ops []Op, mode string) (s shape) {
	var exists, closing [3]bool
	for _, op := range ops {
		if op.Kind == "advance" {
			s.advance = true
			for i := range closing {
				if closing[i] {
					closing[i], exists[i] = false, false
				}
			}
			continue
		}
		i := ((op.Name % len(names)) + len(names)) % len(names)
		if i > 2 {
			continue
		}
		switch op.Kind {
		case "create":
			if closing[i] {
				s.recreateInGrace = true
			} else {
				exists[i] = true
			}
		case "close":
			if closing[i] {
				s.repeatedClose = true
			} else if exists[i] {
				closing[i] = true
			}
		case "delete":
			if mode == "e2e" {
				continue
			}
			if closing[i] {
				s.deleteAfterClose = true
			}
			exists[i], closing[i] = false, false
		}
	}
	return
}

func classify(c Case) core.Class {
	if c.Mode == "race" {
		// every round is a simultaneous create of one name
		return core.Class{NonTrivial: true, Label: "race"}
	}
	var u shape
	for _, h := range c.Histories {
		s := shapeOfMode(h, c.Mode)
		u.repeatedClose = u.repeatedClose || s.repeatedClose
		u.deleteAfterClose = u.deleteAfterClose || s.deleteAfterClose
		u.recreateInGrace = u.recreateInGrace || s.recreateInGrace
		u.advance = u.advance || s.advance
	}
	mode := c.Mode
	if mode == "" {
		mode = "seq"
	}
	l := []string{mode}
	if u.repeatedClose {
		l = append(l, "repeated-close")
	}
	if u.deleteAfterClose {
		l = append(l, "delete-after-close")
	}
	if u.recreateInGrace {
		l = append(l, "recreate-in-grace")
	}
	if u.advance {
		l = append(l, "advance")
	}
	return core.Class{NonTrivial: u.nontrivial(), Label: strings.Join(l, ",")}
}

// knownOfCase names the known finding a process-killing case belongs to: the
// closer goroutine dereferences a vanished pipe when a name is closed twice,
// or closed and then deleted, inside one grace period.
func knownOfCase(c Case) string {
	for _, h := range c.Histories {
		s := shapeOf(h)
		if s.repeatedClose || s.deleteAfterClose {
			return idStale
		}
	}
	if c.Mode == "conc" {
		for _, h := range c.Histories {
			for _, op := range h {
				if op.Kind == "delete" {
					return idDelete
				}
			}
		}
	}
	return ""
}

func known(c Case, v *core.Violation) string {
	switch v.Kind {
	case "pipe-vanished", "get-failed", "write-failed", "delete-failed", "close-failed", "duplicate-name", "data-corrupted":
		// a stale closer removed a NEW pipe of the same name (close, delete or
		// expiry, create again, and the old closer fires)
		for _, h := range c.Histories {
			if s := shapeOf(h); s.repeatedClose || s.deleteAfterClose {
				return idStale
			}
		}
	}
	return ""
}

var spec = core.Spec[Case]{
	ID: "C26", Check: check, Classify: classify, Known: known, Journal: true,
	Sample: func(c Case) any {
		var out []string
		for i, h := range c.Histories {
			if i >= 3 {
				out = append(out, fmt.Sprintf("… %d more histories", len(c.Histories)-3))
				break
			}
			var p []string
			for _, op := range h {
				if op.Kind == "dump" || op.Kind == "advance" {
					p = append(p, op.Kind)
				} else {
					p = append(p, op.Kind+"("+names[op.Name%len(names)]+")")
				}
			}
			out = append(out, c.Mode+": "+strings.Join(p, " "))
		}
		return out
	},
}

func withGen(g func(*rapid.T) Case) core.Spec[Case] { s := spec; s.Gen = g; return s }

func TestPropSeq(t *testing.T)  { core.RunProp(t, withGen(genSeq)) }
func TestPropConc(t *testing.T) { core.RunProp(t, withGen(genConc)) }
func TestPropE2E(t *testing.T)  { core.RunProp(t, withGen(genE2E)) }
func TestPropRace(t *testing.T) { core.RunProp(t, withGen(genRace)) }
func TestReplay(t *testing.T)   { core.Replay(t, spec) }

// TestKnownOf tells the driver which known finding a process-killing case
// belongs to.
func TestKnownOf(t *testing.T) {
	path := os.Getenv("VERIF_REPLAY")
	if path == "" {
		t.Skip()
	}
	raw, err := os.ReadFile(path)
	if err != nil {
		t.Fatal(err)
	}
	var rec core.FailRecord
	caseJSON := raw
	if json.Unmarshal(raw, &rec) == nil && len(rec.Case) > 0 {
		caseJSON = rec.Case
	}
	var c Case
	if err := json.Unmarshal(caseJSON, &c); err != nil {
		t.Fatal(err)
	}
	fmt.Printf("KNOWN-OF %q\n", knownOfCase(c))
}
