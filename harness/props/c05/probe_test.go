//go:build probe

package c05

import (
	"fmt"
	"os"
	"strings"
	"testing"

	"verif/harness/core"
)

func TestProbe(t *testing.T) {
	b, _ := os.ReadFile(os.Getenv("PROBE"))
	for _, src := range strings.Split(string(b), "\n####\n") {
		r := core.Run(src)
		fmt.Printf("--- %s\nstdout=%q stderr=%q exit=%d err=%v hung=%v\n", src, r.Stdout, r.Stderr, r.Exit, r.Err, r.Hung)
	}
}
