// C05 — `try` / `trypipe` stop on failure and honour `||`.
//
// Domain: chains of 1–8 units joined by `;`, newline, `&&`, `||`; a unit is a
// command with a chosen exit number and a visible tag or a 2–3 stage pipeline.
// The chain runs inside `try {}`, `trypipe {}`, a function starting with
// `runmode try|trypipe function`, or a top level block starting with that
// directive.
// Oracle: reference model of the statement; observed are stdout, stderr, the
// block's exit number and (through the Go builtins vx/ve) which commands ran.
package c05

import (
	"fmt"
	"sort"
	"strconv"
	"strings"
	"sync"
	"testing"

	"github.com/lmorg/murex/lang"
	"github.com/lmorg/murex/lang/types"
	"pgregory.net/rapid"
	"verif/harness/core"
)

var (
	traceMu sync.Mutex
	trace   []string
)

func record(tag string) {
	traceMu.Lock()
	trace = append(trace, tag)
	traceMu.Unlock()
}

func TestMain(m *testing.M) {
	core.InitMurex()
	// vx <tag> <exit>: prints "<tag>\n" on stdout (as a method: consumes
	// stdin first and prints "<tag>(<stdin with newlines as ,>)\n"), records
	// that it ran, and finishes with the chosen exit number.
	lang.DefineMethod("vx", func(p *lang.Process) error {
		tag, _ := p.Parameters.String(0)
		n, _ := p.Parameters.Int(1)
		p.Stdout.SetDataType(types.String)
		if p.IsMethod {
			b, _ := p.Stdin.ReadAll()
			s := strings.ReplaceAll(strings.TrimRight(string(b), "\n"), "\n", ",")
			record(tag)
			p.Stdout.Writeln([]byte(tag + "(" + s + ")"))
		} else {
			record(tag)
			p.Stdout.Writeln([]byte(tag))
		}
		p.ExitNum = n
		return nil
	}, types.Any, types.String)
	// ve <tag> <exit>: the same on stderr.
	lang.DefineFunction("ve", func(p *lang.Process) error {
		tag, _ := p.Parameters.String(0)
		n, _ := p.Parameters.Int(1)
		record(tag)
		p.Stderr.Writeln([]byte(tag))
		p.ExitNum = n
		return nil
	}, types.Null)
	core.Main(m, "C05")
}

// Stage is one command.
type Stage struct {
	Kind string `json:"kind"` // vx ve true false out err fn
	Tag  string `json:"tag"`
	Exit int    `json:"exit"`
}

// Unit is a command or a pipeline of commands.
type Unit struct {
	Join   string  `json:"join"` // joiner BEFORE this unit: "" (first) ; \n && ||
	Pipe   string  `json:"pipe"` // "|" or "->" between the stages
	Stages []Stage `json:"stages"`
}

type Case struct {
	// Wrap: try trypipe fn-try fn-trypipe top-try top-trypipe
	Wrap string `json:"wrap"`
	// Sentinel appends `exitnum` and `out AFTER` after the block (not for top-*).
	Sentinel bool   `json:"sentinel"`
	Units    []Unit `json:"units"`
}

func (c Case) pipeMode() bool { return strings.HasSuffix(c.Wrap, "trypipe") }

var exits = []int{0, 0, 0, 0, 0, 1, 1, 2, 7, 255}

func genStage(t *rapid.T, first bool, tag string) Stage {
	kinds := []string{"vx", "vx", "vx", "vx"}
	if first {
		kinds = append(kinds, "true", "false", "out", "fn", "ve", "err")
	}
	k := rapid.SampledFrom(kinds).Draw(t, "kind")
	s := Stage{Kind: k, Tag: tag}
	switch k {
	case "vx", "ve", "fn":
		s.Exit = rapid.SampledFrom(exits).Draw(t, "exit")
	case "false", "err":
		s.Exit = 1 // `err` exits 1 by design
	}
	return s
}

func genUnit(t *rapid.T) Unit {
	u := Unit{}
	u.Join = rapid.SampledFrom([]string{";", "\n", "&&", "||", "||", "||"}).Draw(t, "join")
	ns := 1
	if rapid.IntRange(0, 3).Draw(t, "pipeline") == 0 {
		ns = rapid.IntRange(2, 3).Draw(t, "stages")
		u.Pipe = rapid.SampledFrom([]string{"|", "->"}).Draw(t, "pipe")
	}
	for j := 0; j < ns; j++ {
		u.Stages = append(u.Stages, genStage(t, j == 0, ""))
	}
	return u
}

func gen(t *rapid.T) Case {
	var c Case
	// nest-X: an X { } block inside a function whose `runmode` names the other
	// mode: the block keeps its own rules
	c.Wrap = rapid.SampledFrom([]string{"try", "trypipe", "try", "trypipe", "fn-try", "fn-trypipe", "top-try", "top-trypipe", "nest-try", "nest-trypipe"}).Draw(t, "wrap")
	if !strings.HasPrefix(c.Wrap, "top-") {
		c.Sentinel = rapid.Bool().Draw(t, "sentinel")
	}
	// a slice (not a counted loop) so that rapid can delete any unit while shrinking
	c.Units = rapid.SliceOfN(rapid.Custom(genUnit), 1, 8).Draw(t, "units")
	c.Units[0].Join = ""
	tagN := 0
	for i := range c.Units {
		for j := range c.Units[i].Stages {
			tagN++
			c.Units[i].Stages[j].Tag = fmt.Sprintf("T%d", tagN)
		}
	}
	return c
}

func (s Stage) src() string {
	switch s.Kind {
	case "vx":
		return fmt.Sprintf("vx %s %d", s.Tag, s.Exit)
	case "ve":
		return fmt.Sprintf("ve %s %d", s.Tag, s.Exit)
	case "true":
		return "true"
	case "false":
		return "false"
	case "out":
		return "out " + s.Tag
	case "err":
		return "err " + s.Tag
	case "fn":
		return fmt.Sprintf("c05fn %s %d", s.Tag, s.Exit)
	}
	panic("bad kind")
}

// prelude defines the murex-level exit-code function.
const prelude = "function c05fn {\n  out $1\n  return $2\n}\n"

func (c Case) chain() string {
	var b strings.Builder
	for _, u := range c.Units {
		switch u.Join {
		case "":
		case "\n":
			b.WriteString("\n")
		default:
			b.WriteString(" " + u.Join + " ")
		}
		for j, s := range u.Stages {
			if j > 0 {
				b.WriteString(" " + u.Pipe + " ")
			}
			b.WriteString(s.src())
		}
	}
	return b.String()
}

func (c Case) body() string {
	mode := "try"
	if c.pipeMode() {
		mode = "trypipe"
	}
	var b strings.Builder
	switch {
	case strings.HasPrefix(c.Wrap, "fn-"):
		b.WriteString("function c05wrap {\nrunmode " + mode + " function\n" + c.chain() + "\n}\nc05wrap\n")
	case strings.HasPrefix(c.Wrap, "nest-"):
		other := "trypipe"
		if c.pipeMode() {
			other = "try"
		}
		b.WriteString("function c05wrap {\nrunmode " + other + " function\n" + mode + " {\n" + c.chain() + "\n}\n}\nc05wrap\n")
	case strings.HasPrefix(c.Wrap, "top-"):
		b.WriteString("runmode " + mode + " function\n" + c.chain() + "\n")
	default:
		b.WriteString(mode + " {\n" + c.chain() + "\n}\n")
	}
	if c.Sentinel {
		b.WriteString("exitnum\nout AFTER\n")
	}
	return b.String()
}

// Source is the whole program. A top-* program must start with the runmode
// directive, so the helper function is defined by a separate earlier run.
func (c Case) Source() string {
	if strings.HasPrefix(c.Wrap, "top-") {
		return c.body()
	}
	return prelude + c.body()
}

// outcome is what a model predicts.
type outcome struct {
	stdout, stderr string
	exit           int        // exit number of the block
	groups         [][]string // vx/ve tags that run, one group per pipeline that runs
	unobserved     []string   // tags whose stdout went into a stage that never ran
	skipped        int        // units skipped by ||
	aborted        bool       // a failure ended the block before its last unit
	orTaken        int        // || alternatives that ran
	headFail       bool       // a pipeline stage other than the last failed
	skipShape      bool       // a skipped unit was a pipeline or was followed by a || unit
}

// model is the reference interpreter of the statement.
func model(c Case) outcome { return run(c, false) }

// defectModel describes the known finding C05-skip-covers-one-command: the
// scheduler skips exactly one command for a `||` whose left side succeeded and
// then resumes unconditionally with whatever command comes next (a later stage
// of the skipped pipeline, or a further `||` alternative). It is used only to
// recognise that root cause, never as an oracle.
func defectModel(c Case) outcome { return run(c, true) }

func run(c Case, defect bool) outcome {
	var o outcome
	var so, se strings.Builder
	prevOK := true
	force := false // defect only: the next unit runs whatever its joiner
	n := len(c.Units)
	for i, u := range c.Units {
		stages := u.Stages
		methodHead := false
		if i > 0 && u.Join == "||" && !force {
			if prevOK {
				// skipped: counts as succeeding, exit number unchanged
				o.skipped++
				if len(u.Stages) > 1 || (i+1 < n && c.Units[i+1].Join == "||") {
					o.skipShape = true
				}
				if !defect {
					continue
				}
				if len(stages) == 1 {
					force = true
					continue
				}
				stages = stages[1:] // the rest of the pipeline runs on an empty stdin
				methodHead = true
			} else {
				o.orTaken++
			}
		}
		force = false
		carry := ""
		var grp []string
		failedAt := -1
		for j, s := range stages {
			var out string
			switch s.Kind {
			case "vx":
				grp = append(grp, s.Tag)
				if j > 0 || methodHead {
					out = s.Tag + "(" + strings.ReplaceAll(strings.TrimRight(carry, "\n"), "\n", ",") + ")\n"
				} else {
					out = s.Tag + "\n"
				}
			case "ve":
				grp = append(grp, s.Tag)
				se.WriteString(s.Tag + "\n")
			case "true":
				out = "true"
			case "false":
				out = "false"
			case "out", "fn":
				out = s.Tag + "\n"
			case "err":
				se.WriteString(s.Tag + "\n")
			}
			carry = out
			o.exit = s.Exit
			if s.Exit != 0 && j < len(stages)-1 {
				o.headFail = true
				if c.pipeMode() {
					// trypipe checks every command, in order: the next
					// command is joined by a pipe, not by ||
					failedAt = j
					o.unobserved = append(o.unobserved, s.Tag)
					break
				}
			}
		}
		if len(grp) > 0 {
			o.groups = append(o.groups, grp)
		}
		if failedAt >= 0 {
			o.aborted = true
			break
		}
		so.WriteString(carry)
		prevOK = o.exit == 0
		if !prevOK {
			if i+1 < n && c.Units[i+1].Join == "||" {
				continue
			}
			if i+1 < n {
				o.aborted = true
			}
			break
		}
	}
	if c.Sentinel {
		so.WriteString(strconv.Itoa(o.exit) + "\nAFTER\n")
	}
	o.stdout, o.stderr = so.String(), se.String()
	return o
}

var boolText = strings.NewReplacer("true\n", "", "false\n", "", "true", "", "false", "")

// dropUnobserved removes stdout lines that start with one of the tags.
func dropUnobserved(s string, tags []string) string {
	if len(tags) == 0 {
		return s
	}
	lines := strings.SplitAfter(s, "\n")
	var b strings.Builder
next:
	for _, l := range lines {
		for _, t := range tags {
			if l == t+"\n" || strings.HasPrefix(l, t+"(") {
				continue next
			}
		}
		b.WriteString(l)
	}
	return b.String()
}

var preludeOnce sync.Once

// observed is one execution of the case.
type observed struct {
	stdout, stderr string
	exit           int
	err            error
	ran            []string
}

// agrees reports whether the execution is what the outcome predicts.
func agrees(c Case, w outcome, g observed) (bool, string) {
	wantExit := w.exit
	if c.Sentinel {
		wantExit = 0
	}
	// What the `true`/`false` builtins print is not part of the property.
	wo := boolText.Replace(w.stdout)
	gotOut := dropUnobserved(boolText.Replace(g.stdout), w.unobserved)
	if gotOut != wo || g.stderr != w.stderr || g.exit != wantExit {
		return false, fmt.Sprintf("want stdout=%q stderr=%q exit=%d\ngot  stdout=%q stderr=%q exit=%d (err=%v)\nran: %v",
			wo, w.stderr, wantExit, gotOut, g.stderr, g.exit, g.err, g.ran)
	}
	// which commands ran: pipelines in order; inside one pipeline the order
	// is only defined for trypipe.
	pos := 0
	ok := true
	for _, grp := range w.groups {
		if pos+len(grp) > len(g.ran) {
			ok = false
			break
		}
		chunk := append([]string(nil), g.ran[pos:pos+len(grp)]...)
		want := append([]string(nil), grp...)
		if !c.pipeMode() {
			sort.Strings(chunk)
			sort.Strings(want)
		}
		if strings.Join(chunk, " ") != strings.Join(want, " ") {
			ok = false
			break
		}
		pos += len(grp)
	}
	if !ok || pos != len(g.ran) {
		return false, fmt.Sprintf("want commands run (per pipeline): %v\ngot: %v", w.groups, g.ran)
	}
	return true, ""
}

func check(c Case) *core.Violation {
	preludeOnce.Do(func() { core.Run(prelude) })
	src := c.Source()
	traceMu.Lock()
	trace = nil
	traceMu.Unlock()
	r := core.Run(src)
	if r.Hung {
		return core.Violf("hang", "program did not finish\n%s", src)
	}
	traceMu.Lock()
	g := observed{stdout: string(r.Stdout), stderr: string(r.Stderr), exit: r.Exit, err: r.Err, ran: append([]string(nil), trace...)}
	traceMu.Unlock()

	ok, why := agrees(c, model(c), g)
	if ok {
		return nil
	}
	kind := "mismatch"
	if same, _ := agrees(c, defectModel(c), g); same {
		// exactly the behaviour of the known root cause
		kind = "skip-covers-one-command"
	}
	return core.Violf(kind, "program:\n%s\n%s", src, why)
}

func classify(c Case) core.Class {
	o := model(c)
	var shape strings.Builder
	shape.WriteString(c.Wrap)
	if c.Sentinel {
		shape.WriteString("+s")
	}
	oror := false
	pipes := 0
	for i, u := range c.Units {
		if u.Join == "||" && i > 0 && c.Units[i-1].Join == "||" {
			oror = true
		}
		if len(u.Stages) > 1 {
			pipes++
		}
		shape.WriteString(u.Join)
		for _, s := range u.Stages {
			shape.WriteString(s.Kind[:1] + strconv.Itoa(s.Exit) + "|")
		}
	}
	failBeforeEnd := o.aborted || o.orTaken > 0
	cl := core.Class{Key: shape.String()}
	cl.NonTrivial = failBeforeEnd || oror
	mode := "try"
	if c.pipeMode() {
		mode = "trypipe"
	}
	switch {
	case !cl.NonTrivial:
		cl.Label = "trivial"
		return cl
	case o.headFail && o.aborted && c.pipeMode():
		cl.Label = mode + ":pipeline-head-fails"
	case o.headFail:
		cl.Label = mode + ":pipeline-head-fails-ignored"
	case oror && o.skipped >= 2:
		cl.Label = mode + ":||-||-skipped"
	case o.orTaken > 0 && o.skipped > 0:
		cl.Label = mode + ":||-taken-and-skipped"
	case o.orTaken > 0:
		cl.Label = mode + ":||-taken"
	case o.aborted:
		cl.Label = mode + ":abort"
	default:
		cl.Label = mode + ":other"
	}
	if pipes > 0 && !o.headFail {
		cl.Label += ",pipeline"
	}
	return cl
}

// known: C05-skip-covers-one-command — only when the case contains the shape
// (a `||`-skipped unit that is a pipeline or is followed by another `||` unit)
// and the execution is exactly what the defect model predicts.
func known(c Case, v *core.Violation) string {
	if v.Kind == "skip-covers-one-command" && model(c).skipShape {
		return "C05-skip-covers-one-command"
	}
	return ""
}

var spec = core.Spec[Case]{
	ID: "C05", Gen: gen, Check: check, Classify: classify, Known: known,
	Sample: func(c Case) any { return c.body() },
}

func TestProp(t *testing.T)   { core.RunProp(t, spec) }
func TestReplay(t *testing.T) { core.Replay(t, spec) }
