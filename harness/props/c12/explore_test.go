package c12

import (
	"encoding/json"
	"fmt"
	"os"
	"testing"

	"verif/harness/core"
)

func TestMain(m *testing.M) { core.InitMurex(); core.Main(m, "C12") }

func TestExplore(t *testing.T) {
	p := os.Getenv("VERIF_EXPLORE")
	if p == "" {
		t.Skip()
	}
	b, _ := os.ReadFile(p)
	var cs []string
	if err := json.Unmarshal(b, &cs); err != nil {
		t.Fatal(err)
	}
	for _, c := range cs {
		r := core.Run(c)
		fmt.Printf("--- %s\nexit=%d err=%v\nstdout=%q\nstderr=%q\n", c, r.Exit, r.Err, r.Stdout, r.Stderr)
	}
}
