// C12 — Structured variables are values, and nested assignment is precise.
//
// Domain: histories of up to 10 operations over up to four JSON variables:
// `b = $a` copies, nested assignments `$v.path = x` (existing scalar leaves,
// containers, null leaves, new keys, array elements, index == length, missing
// or null or scalar intermediates), the same assignment made inside a function
// that received the variable as an argument or on stdin, and reads.
// Oracle: a value model (deep-copied Go values). After every operation every
// variable is observed three ways: the stored Go value, the stored string
// (both through lang.Variables, by a helper builtin) and `$v` / `$v.path` as
// murex expands them into arguments.
package c12

import (
	"encoding/json"
	"fmt"
	"reflect"
	"strconv"
	"strings"
	"testing"

	"github.com/lmorg/murex/lang"
	"github.com/lmorg/murex/lang/types"
	"pgregory.net/rapid"
	"verif/harness/core"
	hgen "verif/harness/gen"
)

var varNames = []string{"va", "vb", "vc", "vd"}

func TestMain(m *testing.M) {
	core.InitMurex()
	// c12snap <tag> <name>...: one line `@{"tag":..,"exit":N,"vars":{name:{...}}}`
	// with the exit number of the previous command and the state of the named
	// variables as lang.Variables holds them.
	lang.DefineFunction("c12snap", func(p *lang.Process) error {
		params := p.Parameters.StringArray()
		if len(params) == 0 {
			return fmt.Errorf("usage")
		}
		type vs struct {
			Missing bool            `json:"missing,omitempty"`
			Type    string          `json:"type,omitempty"`
			Str     string          `json:"str"`
			Val     json.RawMessage `json:"val,omitempty"`
			ValErr  string          `json:"valerr,omitempty"`
		}
		out := struct {
			Tag  string        `json:"tag"`
			Exit int           `json:"exit"`
			Vars map[string]vs `json:"vars"`
		}{Tag: params[0], Exit: p.Previous.ExitNum, Vars: map[string]vs{}}
		for _, name := range params[1:] {
			var s vs
			v, err := p.Variables.GetValue(name)
			if err != nil || v == nil {
				s.Missing = true
				if err != nil {
					s.ValErr = err.Error()
				}
			} else {
				b, err := json.Marshal(v)
				if err != nil {
					s.ValErr = fmt.Sprintf("%T: %v", v, err)
				} else {
					s.Val = b
				}
				s.Type = p.Variables.GetDataType(name)
				s.Str, _ = p.Variables.GetString(name)
			}
			out.Vars[name] = s
		}
		b, _ := json.Marshal(out)
		p.Stdout.SetDataType(types.String)
		p.Stdout.Writeln(append([]byte("@"), b...))
		return nil
	}, types.String)
	// c12rd <tag> args...: one line `@{"tag":..,"args":[...]}`.
	lang.DefineFunction("c12rd", func(p *lang.Process) error {
		params := p.Parameters.StringArray()
		if len(params) == 0 {
			return fmt.Errorf("usage")
		}
		b, _ := json.Marshal(struct {
			Tag  string   `json:"tag"`
			Args []string `json:"args"`
		}{params[0], params[1:]})
		p.Stdout.SetDataType(types.String)
		p.Stdout.Writeln(append([]byte("@"), b...))
		return nil
	}, types.String)
	core.Main(m, "C12")
}

// ---------------------------------------------------------------------------
// case

type Scalar struct {
	Kind string  `json:"kind"` // str num bool
	S    string  `json:"s,omitempty"`
	N    float64 `json:"n,omitempty"`
	B    bool    `json:"b,omitempty"`
}

func (s Scalar) value() any {
	switch s.Kind {
	case "str":
		return s.S
	case "num":
		return s.N
	}
	return s.B
}

func (s Scalar) src() string {
	switch s.Kind {
	case "str":
		return `"` + s.S + `"` // alphabet has no character special inside double quotes
	case "num":
		return strconv.FormatFloat(s.N, 'f', -1, 64)
	}
	return strconv.FormatBool(s.B)
}

type Step struct {
	Op   string   `json:"op"`            // copy assign fnarg fnpipe read
	Var  string   `json:"var"`           // the variable operated on (copy: the source)
	Dst  string   `json:"dst,omitempty"` // copy: destination
	Path []string `json:"path,omitempty"`
	Val  Scalar   `json:"val,omitempty"`
}

type VarInit struct {
	Name string `json:"name"`
	Doc  string `json:"doc"` // JSON text
}

type Case struct {
	Vars  []VarInit `json:"vars"`
	Steps []Step    `json:"steps"`
}

// ---------------------------------------------------------------------------
// generator

var keyGen = rapid.SampledFrom([]string{"a", "b", "c", "k", "m", "x", "y", "key", "n0", "A", "_z"})

// new string values: safe inside murex double quotes, no surrounding blanks
var newStrings = []string{"abc", "x y", "42", "-7", "2.5", "true", "false", "0", "1", "null", "é", "a.b", "[1]", "yes", "1e3", "007"}

func genScalar(t *rapid.T) Scalar {
	switch rapid.IntRange(0, 5).Draw(t, "skind") {
	case 0, 1:
		return Scalar{Kind: "str", S: rapid.SampledFrom(newStrings).Draw(t, "s")}
	case 2, 3:
		return Scalar{Kind: "num", N: float64(rapid.IntRange(-1000, 1000).Draw(t, "n"))}
	case 4:
		return Scalar{Kind: "num", N: float64(rapid.IntRange(-4000, 4000).Draw(t, "q")) / 4}
	}
	return Scalar{Kind: "bool", B: rapid.Bool().Draw(t, "b")}
}

func genDoc(t *rapid.T) any {
	str := hgen.HostileString(hgen.StrOpts{MaxParts: 3})
	var val func(depth int) any
	scalar := func() any {
		switch rapid.IntRange(0, 6).Draw(t, "leaf") {
		case 0, 1:
			return str.Draw(t, "str")
		case 2:
			return float64(rapid.IntRange(-1000, 1000).Draw(t, "int"))
		case 3:
			return float64(rapid.IntRange(-4000, 4000).Draw(t, "q")) / 4
		case 4:
			return rapid.Bool().Draw(t, "bool")
		case 5:
			return rapid.SampledFrom(newStrings).Draw(t, "s")
		}
		return nil
	}
	container := func(depth int) any {
		n := rapid.IntRange(1, 4).Draw(t, "width")
		if rapid.IntRange(0, 2).Draw(t, "arr") == 0 {
			a := make([]any, 0, n)
			for i := 0; i < n; i++ {
				a = append(a, val(depth+1))
			}
			return a
		}
		m := map[string]any{}
		for i := 0; i < n; i++ {
			m[keyGen.Draw(t, "key")] = val(depth + 1)
		}
		return m
	}
	val = func(depth int) any {
		if depth >= 4 || rapid.IntRange(0, 9).Draw(t, "kind") < 5 {
			return scalar()
		}
		return container(depth)
	}
	return container(0)
}

// paths lists every path of a document (excluding the root) in a
// deterministic order.
func paths(v any, prefix []string, out *[][]string) {
	switch v := v.(type) {
	case map[string]any:
		for _, k := range sortedKeys(v) {
			p := append(append([]string{}, prefix...), k)
			*out = append(*out, p)
			paths(v[k], p, out)
		}
	case []any:
		for i := range v {
			p := append(append([]string{}, prefix...), strconv.Itoa(i))
			*out = append(*out, p)
			paths(v[i], p, out)
		}
	}
}

func sortedKeys(m map[string]any) []string {
	ks := make([]string, 0, len(m))
	for k := range m {
		ks = append(ks, k)
	}
	// insertion sort (tiny maps) keeps this free of package sort
	for i := 1; i < len(ks); i++ {
		for j := i; j > 0 && ks[j] < ks[j-1]; j-- {
			ks[j], ks[j-1] = ks[j-1], ks[j]
		}
	}
	return ks
}

func genPath(t *rapid.T, doc any) []string {
	var all [][]string
	paths(doc, nil, &all)
	if len(all) == 0 {
		return []string{keyGen.Draw(t, "newkey")}
	}
	p := append([]string{}, rapid.SampledFrom(all).Draw(t, "path")...)
	switch rapid.IntRange(0, 9).Draw(t, "pathkind") {
	case 0, 1, 2, 3, 4: // existing path
		return p
	case 5, 6: // new key / index == length in the container holding it
		parent, _ := lookup(doc, p[:len(p)-1])
		if a, ok := parent.([]any); ok {
			p[len(p)-1] = strconv.Itoa(len(a))
		} else {
			p[len(p)-1] = "new" + keyGen.Draw(t, "newkey")
		}
		return p
	case 7, 8: // one or two elements below something (a missing key, a scalar, null, a container)
		if rapid.Bool().Draw(t, "viaMissing") {
			p[len(p)-1] = "new" + keyGen.Draw(t, "newkey")
		}
		p = append(p, keyGen.Draw(t, "below"))
		if rapid.IntRange(0, 3).Draw(t, "two") == 0 {
			p = append(p, keyGen.Draw(t, "below2"))
		}
		return p
	default: // top-level new key
		return []string{"new" + keyGen.Draw(t, "newkey")}
	}
}

func gen(t *rapid.T) Case {
	var c Case
	state := map[string]any{}
	nv := rapid.IntRange(1, 2).Draw(t, "nvars")
	for i := 0; i < nv; i++ {
		d := genDoc(t)
		b, _ := json.Marshal(d)
		c.Vars = append(c.Vars, VarInit{Name: varNames[i], Doc: string(b)})
		state[varNames[i]] = clone(d)
	}
	existing := func() []string {
		var l []string
		for _, n := range varNames {
			if _, ok := state[n]; ok {
				l = append(l, n)
			}
		}
		return l
	}
	n := rapid.IntRange(1, 10).Draw(t, "nsteps")
	for i := 0; i < n; i++ {
		s := Step{}
		s.Op = rapid.SampledFrom([]string{"copy", "copy", "assign", "assign", "assign", "assign", "fnarg", "fnpipe", "read"}).Draw(t, "op")
		s.Var = rapid.SampledFrom(existing()).Draw(t, "var")
		switch s.Op {
		case "copy":
			s.Dst = rapid.SampledFrom(varNames).Draw(t, "dst")
			if s.Dst == s.Var {
				s.Dst = varNames[(indexOf(s.Var)+1)%len(varNames)]
			}
			// one copy in three copies a structured sub-document (`c = $a.y`)
			if cps := containerPaths(state[s.Var]); len(cps) > 0 && rapid.IntRange(0, 2).Draw(t, "subcopy") == 0 {
				s.Path = rapid.SampledFrom(cps).Draw(t, "subpath")
			}
			state[s.Dst] = copySource(state[s.Var], s.Path)
		case "assign", "fnarg", "fnpipe":
			s.Path = genPath(t, state[s.Var])
			s.Val = genScalar(t)
			if s.Op == "assign" {
				// approximate the effect so later steps aim at fresh paths;
				// the oracle recomputes everything from the observed outcome
				if nd, _, ok := applyAssign(state[s.Var], s.Path, s.Val.value(), nil); ok {
					state[s.Var] = nd
				}
			}
		case "read":
			var all [][]string
			paths(state[s.Var], nil, &all)
			if len(all) == 0 {
				s.Op = "copy"
				s.Dst = varNames[(indexOf(s.Var)+1)%len(varNames)]
				state[s.Dst] = clone(state[s.Var])
			} else {
				s.Path = rapid.SampledFrom(all).Draw(t, "rpath")
			}
		}
		c.Steps = append(c.Steps, s)
	}
	return c
}

func indexOf(name string) int {
	for i, n := range varNames {
		if n == name {
			return i
		}
	}
	return 0
}

// ---------------------------------------------------------------------------
// model

func clone(v any) any {
	b, err := json.Marshal(v)
	if err != nil {
		panic(err)
	}
	var out any
	if err := json.Unmarshal(b, &out); err != nil {
		panic(err)
	}
	return out
}

func lookup(doc any, path []string) (any, bool) {
	cur := doc
	for _, k := range path {
		switch c := cur.(type) {
		case map[string]any:
			v, ok := c[k]
			if !ok {
				return nil, false
			}
			cur = v
		case []any:
			i, err := strconv.Atoi(k)
			if err != nil || i < 0 || i >= len(c) || strconv.Itoa(i) != k {
				return nil, false
			}
			cur = c[i]
		default:
			return nil, false
		}
	}
	return cur, true
}

// pathClass names the situation of a path in a document.
//
//	leaf-scalar leaf-null leaf-container new-key index-append
//	missing-intermediate (a key that does not exist, or null, with more path below)
//	scalar-intermediate  (a string/number/bool with more path below)
//	bad-index            (an array addressed with something that is not an index in 0..len)
func pathClass(doc any, path []string) (class string, failAt int) {
	cur := doc
	for i, k := range path {
		last := i == len(path)-1
		var next any
		var exists bool
		switch c := cur.(type) {
		case map[string]any:
			next, exists = c[k]
			if !exists {
				if last {
					return "new-key", i
				}
				return "missing-intermediate", i
			}
		case []any:
			idx, err := strconv.Atoi(k)
			if err != nil || idx < 0 || idx > len(c) || strconv.Itoa(idx) != k {
				return "bad-index", i
			}
			if idx == len(c) {
				if last {
					return "index-append", i
				}
				return "bad-index", i
			}
			next, exists = c[idx], true
		case nil:
			return "missing-intermediate", i - 1
		default:
			return "scalar-intermediate", i - 1
		}
		if last {
			switch next.(type) {
			case nil:
				return "leaf-null", i
			case map[string]any, []any:
				return "leaf-container", i
			}
			return "leaf-scalar", i
		}
		cur = next
	}
	return "root", 0
}

func kindOf(v any) string {
	switch v.(type) {
	case string:
		return "str"
	case float64:
		return "num"
	case bool:
		return "bool"
	case nil:
		return "null"
	case map[string]any:
		return "map"
	case []any:
		return "array"
	}
	return fmt.Sprintf("%T", v)
}

// convert gives x converted to the type of an existing scalar leaf. asserted
// is false where the statement does not pin the result down (the conversion
// of, say, "abc" to a number); the leaf then only has to keep its type.
func convert(leaf, x any) (v any, asserted bool) {
	switch leaf.(type) {
	case string:
		switch x := x.(type) {
		case string:
			return x, true
		case float64:
			return strconv.FormatFloat(x, 'f', -1, 64), true
		case bool:
			return strconv.FormatBool(x), true
		}
	case float64:
		switch x := x.(type) {
		case float64:
			return x, true
		case string:
			if plainNumber(x) {
				f, _ := strconv.ParseFloat(x, 64)
				return f, true
			}
		}
	case bool:
		switch x := x.(type) {
		case bool:
			return x, true
		case string:
			if x == "true" {
				return true, true
			}
			if x == "false" {
				return false, true
			}
		}
	}
	return nil, false
}

// plainNumber: optional sign, digits, optional fraction; no leading zeros.
func plainNumber(s string) bool {
	t := strings.TrimPrefix(s, "-")
	if t == "" {
		return false
	}
	dot := false
	for i, r := range t {
		switch {
		case r >= '0' && r <= '9':
		case r == '.' && !dot && i > 0 && i < len(t)-1:
			dot = true
		default:
			return false
		}
	}
	if len(t) > 1 && t[0] == '0' && t[1] != '.' {
		return false
	}
	return true
}

// setPath returns a copy of doc with path set to v, creating missing maps on
// the way; ok is false when that is impossible without changing another path.
func setPath(doc any, path []string, v any) (any, bool) {
	if len(path) == 0 {
		return v, true
	}
	k := path[0]
	switch c := doc.(type) {
	case map[string]any:
		child, exists := c[k]
		if !exists {
			child = nil
		}
		if len(path) > 1 && child == nil {
			child = map[string]any{}
		}
		nc, ok := setPath(child, path[1:], v)
		if !ok {
			return nil, false
		}
		c[k] = nc
		return c, true
	case []any:
		idx, err := strconv.Atoi(k)
		if err != nil || idx < 0 || idx > len(c) {
			return nil, false
		}
		if idx == len(c) {
			if len(path) > 1 {
				return nil, false
			}
			return append(c, v), true
		}
		child := c[idx]
		if len(path) > 1 && child == nil {
			child = map[string]any{}
		}
		nc, ok := setPath(child, path[1:], v)
		if !ok {
			return nil, false
		}
		c[idx] = nc
		return c, true
	}
	return nil, false
}

// applyAssign computes the document after a successful `$v.path = x`.
// observed (may be nil) is the document murex produced: where the conversion
// is not asserted the observed leaf is adopted if it kept the leaf's type.
// ok=false: no document satisfies the statement for a success here.
func applyAssign(doc any, path []string, x any, observed any) (newDoc any, note string, ok bool) {
	class, _ := pathClass(doc, path)
	d := clone(doc)
	switch class {
	case "leaf-scalar":
		leaf, _ := lookup(d, path)
		nv, asserted := convert(leaf, x)
		if !asserted {
			if observed == nil {
				return nil, "", false
			}
			ov, found := lookup(observed, path)
			if !found || kindOf(ov) != kindOf(leaf) {
				return nil, fmt.Sprintf("the leaf was a %s and must stay one", kindOf(leaf)), false
			}
			nv = ov
			note = "conversion-unasserted"
		}
		nd, ok := setPath(d, path, nv)
		return nd, note, ok
	case "leaf-null", "leaf-container", "new-key", "index-append", "missing-intermediate":
		nd, ok := setPath(d, path, x)
		return nd, "", ok
	}
	return nil, "no value at this path can be set without changing another path", false
}

// ---------------------------------------------------------------------------
// program

// copySource is what a copy step copies: the whole variable, or (Path set)
// the sub-document at Path, which is a map or an array.
func copySource(doc any, path []string) any {
	if len(path) == 0 {
		return clone(doc)
	}
	v, _ := lookup(doc, path)
	return clone(v)
}

func copyRef(v string, path []string) string {
	if len(path) == 0 {
		return "$" + v
	}
	return murexPath(v, path)
}

// containerPaths lists the paths of doc that hold a map or an array.
func containerPaths(doc any) [][]string {
	var all, out [][]string
	paths(doc, nil, &all)
	for _, p := range all {
		if v, ok := lookup(doc, p); ok {
			switch v.(type) {
			case map[string]any, []any:
				out = append(out, p)
			}
		}
	}
	return out
}

func murexPath(v string, path []string) string { return "$" + v + "." + strings.Join(path, ".") }

func (c Case) source() string {
	var b strings.Builder
	all := strings.Join(varNames, " ")
	fmt.Fprintf(&b, "c12snap 0 %s\n", all)
	exists := map[string]bool{}
	for _, v := range c.Vars {
		exists[v.Name] = true
	}
	for i, s := range c.Steps {
		tag := strconv.Itoa(i + 1)
		switch s.Op {
		case "copy":
			fmt.Fprintf(&b, "%s = %s\n", s.Dst, copyRef(s.Var, s.Path))
		case "assign":
			fmt.Fprintf(&b, "%s = %s\n", murexPath(s.Var, s.Path), s.Val.src())
		case "fnarg", "fnpipe":
			recv := "set json p = $1"
			call := fmt.Sprintf("c12f%s $%s", tag, s.Var)
			if s.Op == "fnpipe" {
				recv = "<stdin> -> set json p"
				call = fmt.Sprintf("$%s -> c12f%s", s.Var, tag)
			}
			fmt.Fprintf(&b, "function c12f%s {\n  %s\n  c12snap %sr p\n  %s = %s\n  c12snap %sf p\n  c12rd %sfp %s\n}\n%s\n",
				tag, recv, tag, murexPath("p", s.Path), s.Val.src(), tag, tag, murexPath("p", s.Path), call)
		case "read":
		}
		fmt.Fprintf(&b, "c12snap %s %s\n", tag, all)
		if s.Op != "copy" && s.Op != "fnarg" && s.Op != "fnpipe" {
			fmt.Fprintf(&b, "c12rd %sp %s\n", tag, murexPath(s.Var, s.Path))
		}
		if s.Op == "copy" {
			exists[s.Dst] = true
		}
		for _, n := range varNames {
			if exists[n] {
				fmt.Fprintf(&b, "c12rd %s:%s $%s\n", tag, n, n)
			}
		}
	}
	return b.String()
}

type snapVar struct {
	Missing bool            `json:"missing"`
	Type    string          `json:"type"`
	Str     string          `json:"str"`
	Val     json.RawMessage `json:"val"`
	ValErr  string          `json:"valerr"`
}

type line struct {
	Tag  string             `json:"tag"`
	Exit int                `json:"exit"`
	Vars map[string]snapVar `json:"vars"`
	Args *[]string          `json:"args"`
}

func jsonText(v any) string {
	b, _ := json.Marshal(v)
	return string(b)
}

type runner struct {
	c     Case
	src   string
	r     core.Result
	lines map[string]line
}

func (ru *runner) fail(kind, format string, a ...any) *core.Violation {
	return core.Violf(kind, "%s\nprogram (variables set through lang.Variables.Set as json: %s):\n%s\nstderr:\n%s",
		fmt.Sprintf(format, a...), jsonText(ru.c.Vars), ru.src, ru.r.Stderr)
}

// compareSnap checks the state of the named variables against the model.
func (ru *runner) compareSnap(tag string, names []string, model map[string]any, kindPrefix string) *core.Violation {
	ln, ok := ru.lines[tag]
	if !ok {
		return ru.fail(kindPrefix+"no-snapshot", "snapshot %s was not produced", tag)
	}
	for _, n := range names {
		want, exists := model[n]
		got := ln.Vars[n]
		if !exists {
			if !got.Missing {
				return ru.fail(kindPrefix+"unexpected-variable", "after step %s variable %s should not exist, holds %s", tag, n, got.Str)
			}
			continue
		}
		if got.Missing {
			return ru.fail(kindPrefix+"variable-lost", "after step %s variable %s is gone or null (%s), want %s", tag, n, got.ValErr, jsonText(want))
		}
		if got.ValErr != "" {
			return ru.fail(kindPrefix+"value-type", "after step %s the stored value of %s cannot be encoded: %s", tag, n, got.ValErr)
		}
		var gv, gs any
		if err := json.Unmarshal(got.Val, &gv); err != nil {
			return ru.fail(kindPrefix+"value-type", "after step %s: stored value of %s: %v", tag, n, err)
		}
		if !reflect.DeepEqual(gv, want) {
			return ru.fail(kindPrefix+"value-mismatch", "after step %s the stored value of %s is %s, want %s", tag, n, got.Val, jsonText(want))
		}
		if err := json.Unmarshal([]byte(got.Str), &gs); err != nil {
			return ru.fail(kindPrefix+"string-mismatch", "after step %s the stored string of %s is not JSON: %q, want %s", tag, n, got.Str, jsonText(want))
		}
		if !reflect.DeepEqual(gs, want) {
			return ru.fail(kindPrefix+"string-mismatch", "after step %s the stored string of %s is %s, want %s (stored value agrees with the model)", tag, n, got.Str, jsonText(want))
		}
	}
	return nil
}

// compareArg checks `$v` as murex expands it into an argument.
func (ru *runner) compareArg(tag string, want any, kindPrefix, what string) *core.Violation {
	if want == nil {
		return nil // how null reads (murex treats it as absent) is not this property's business
	}
	if w, isStr := want.(string); isStr && w == "" {
		core.Count("read-of-empty-string-not-compared", 1)
		return nil
	}
	ln, ok := ru.lines[tag]
	if !ok || ln.Args == nil {
		return ru.fail(kindPrefix+"read-failed", "reading %s (tag %s) failed; the model holds %s", what, tag, jsonText(want))
	}
	args := *ln.Args
	switch w := want.(type) {
	case string:
		if len(args) != 1 || args[0] != w {
			return ru.fail(kindPrefix+"read-mismatch", "%s expands to %q, want [%q]", what, args, w)
		}
	case float64:
		s := strconv.FormatFloat(w, 'f', -1, 64)
		if len(args) != 1 || args[0] != s {
			return ru.fail(kindPrefix+"read-mismatch", "%s expands to %q, want [%q]", what, args, s)
		}
	case bool:
		s := strconv.FormatBool(w)
		if len(args) != 1 || args[0] != s {
			return ru.fail(kindPrefix+"read-mismatch", "%s expands to %q, want [%q]", what, args, s)
		}
	default:
		var g any
		if len(args) != 1 || json.Unmarshal([]byte(args[0]), &g) != nil || !reflect.DeepEqual(g, want) {
			return ru.fail(kindPrefix+"read-mismatch", "%s expands to %q, want %s", what, args, jsonText(want))
		}
	}
	return nil
}

// symptom names the way a wrong result differs from the document before the
// assignment: "array-nulled" / "map-nulled" when it is that document with the
// container at some prefix of the path replaced by null (the whole variable
// lost when the prefix is empty), "other" otherwise.
func symptom(doc any, path []string, observed any, missing bool) string {
	for k := 0; k < len(path); k++ {
		container, ok := lookup(doc, path[:k])
		if !ok {
			break
		}
		name := ""
		switch container.(type) {
		case []any:
			name = "array-nulled"
		case map[string]any:
			name = "map-nulled"
		default:
			continue
		}
		if k == 0 {
			if missing {
				return name
			}
			continue
		}
		if missing {
			continue
		}
		nd, ok := setPath(clone(doc), path[:k], nil)
		if ok && reflect.DeepEqual(observed, nd) {
			return name
		}
	}
	return "other"
}

// checkAssign validates one nested assignment on `name` whose state before
// was doc, given the observed snapshot; returns the new model document.
func (ru *runner) checkAssign(tag, name string, doc any, s Step, kp string) (any, *core.Violation) {
	ln, ok := ru.lines[tag]
	if !ok {
		return nil, ru.fail(kp+"no-snapshot", "snapshot %s was not produced", tag)
	}
	class, failAt := pathClass(doc, s.Path)
	kp = kp + "assign:" + class + ":"
	sv := ln.Vars[name]
	var observed any
	if !sv.Missing && sv.ValErr == "" {
		json.Unmarshal(sv.Val, &observed)
	}
	what := fmt.Sprintf("`%s = %s` on %s (%s)", murexPath(name, s.Path), s.Val.src(), jsonText(doc), class)
	if ln.Exit != 0 {
		switch class {
		case "leaf-null", "leaf-container", "new-key":
			return nil, ru.fail(kp+"refused", "%s failed (exit %d)", what, ln.Exit)
		case "leaf-scalar":
			leaf, _ := lookup(doc, s.Path)
			if _, asserted := convert(leaf, s.Val.value()); asserted {
				return nil, ru.fail(kp+"refused", "%s failed (exit %d)", what, ln.Exit)
			}
		}
		core.Count("assign-failed:"+class, 1)
		// a failed assignment must change nothing
		if sv.Missing || !reflect.DeepEqual(observed, doc) {
			return nil, ru.fail(kp+"failed-but-changed", "%s failed (exit %d) and yet the variable changed to %s", what, ln.Exit, string(sv.Val))
		}
		return doc, nil
	}
	core.Count("assign-ok:"+class, 1)
	_ = failAt
	nd, note, ok := applyAssign(doc, s.Path, s.Val.value(), observed)
	if !ok {
		return nil, ru.fail(kp+"ok-impossible:"+symptom(doc, s.Path, observed, sv.Missing), "%s reported success but %s; the variable now holds %s (missing=%v)", what, note, string(sv.Val), sv.Missing)
	}
	if note != "" {
		core.Count(note, 1)
	}
	if sv.Missing || !reflect.DeepEqual(observed, nd) {
		return nil, ru.fail(kp+"ok-mismatch:"+symptom(doc, s.Path, observed, sv.Missing), "%s succeeded; the variable now holds %s (missing=%v), want %s", what, string(sv.Val), sv.Missing, jsonText(nd))
	}
	return nd, nil
}

func check(c Case) *core.Violation {
	src := c.source()
	r := core.RunWith(src, core.RunOpts{Prepare: func(f *lang.Fork) {
		for _, v := range c.Vars {
			if err := f.Variables.Set(f.Process, v.Name, v.Doc, types.Json); err != nil {
				panic(err)
			}
		}
	}})
	ru := &runner{c: c, src: src, r: r, lines: map[string]line{}}
	if r.Hung {
		return ru.fail("hang", "the program did not finish")
	}
	if r.Err != nil {
		return ru.fail("parse", "the program did not parse: %v", r.Err)
	}
	for _, l := range strings.Split(string(r.Stdout), "\n") {
		if !strings.HasPrefix(l, "@") {
			continue
		}
		var ln line
		if err := json.Unmarshal([]byte(l[1:]), &ln); err != nil {
			return ru.fail("harness", "bad observation line %q: %v", l, err)
		}
		ru.lines[ln.Tag] = ln
	}
	model := map[string]any{}
	for _, v := range c.Vars {
		var d any
		json.Unmarshal([]byte(v.Doc), &d)
		model[v.Name] = d
	}
	if v := ru.compareSnap("0", varNames, model, "init:"); v != nil {
		return v
	}
	for i, s := range c.Steps {
		tag := strconv.Itoa(i + 1)
		kp := ""
		switch s.Op {
		case "copy":
			model[s.Dst] = copySource(model[s.Var], s.Path)
			kp = "copy:"
		case "assign":
			nd, v := ru.checkAssign(tag, s.Var, model[s.Var], s, "")
			if v != nil {
				return v
			}
			model[s.Var] = nd
			kp = "assign:"
		case "fnarg", "fnpipe":
			kp = s.Op + ":"
			// inside the function: p is a copy
			fm := map[string]any{"p": clone(model[s.Var])}
			if v := ru.compareSnap(tag+"r", []string{"p"}, fm, kp+"received:"); v != nil {
				return v
			}
			nd, v := ru.checkAssign(tag+"f", "p", fm["p"], s, kp)
			if v != nil {
				return v
			}
			if want, ok := lookup(nd, s.Path); ok && ru.lines[tag+"f"].Exit == 0 {
				if v := ru.compareArg(tag+"fp", want, kp, murexPath("p", s.Path)); v != nil {
					return v
				}
			}
			// the caller's variables: unchanged (checked below)
		case "read":
			kp = "read:"
		}
		// every variable after the step
		if v := ru.compareSnap(tag, varNames, model, kp+"after:"); v != nil {
			return v
		}
		if s.Op == "assign" || s.Op == "read" {
			if want, ok := lookup(model[s.Var], s.Path); ok {
				if v := ru.compareArg(tag+"p", want, kp, murexPath(s.Var, s.Path)); v != nil {
					return v
				}
			}
		}
		for _, n := range varNames {
			if want, ok := model[n]; ok {
				if v := ru.compareArg(tag+":"+n, want, kp+"whole:", "$"+n); v != nil {
					return v
				}
			}
		}
	}
	return nil
}

// ---------------------------------------------------------------------------
// classification

func classify(c Case) core.Class {
	state := map[string]any{}
	for _, v := range c.Vars {
		var d any
		json.Unmarshal([]byte(v.Doc), &d)
		state[v.Name] = d
	}
	copies := false
	var feats = map[string]bool{}
	for _, s := range c.Steps {
		switch s.Op {
		case "copy":
			state[s.Dst] = copySource(state[s.Var], s.Path)
			copies = true
			if len(s.Path) > 0 {
				feats["sub-document-copy"] = true
			}
		case "assign", "fnarg", "fnpipe":
			class, _ := pathClass(state[s.Var], s.Path)
			if s.Op != "assign" {
				feats["function-copy"] = true
			} else if copies {
				feats["assign-with-copy"] = true
			}
			switch class {
			case "leaf-scalar":
				leaf, _ := lookup(state[s.Var], s.Path)
				if kindOf(leaf) != s.Val.Kind {
					feats["type-change"] = true
				}
			case "new-key", "index-append", "leaf-null":
				feats["new-path"] = true
			case "missing-intermediate":
				feats["missing-intermediate"] = true
			case "leaf-container":
				feats["replace-container"] = true
			default:
				feats["unsettable-path"] = true
			}
			if s.Op == "assign" {
				if nd, _, ok := applyAssign(state[s.Var], s.Path, s.Val.value(), nil); ok {
					state[s.Var] = nd
				}
			}
		}
	}
	cl := core.Class{}
	cl.NonTrivial = feats["assign-with-copy"] || feats["function-copy"] || feats["type-change"] || feats["new-path"] || feats["missing-intermediate"] || feats["sub-document-copy"]
	// one label per case (the rarest feature present); every feature is also
	// counted on its own in the extra counters
	cl.Label = "trivial"
	for _, f := range []string{"unsettable-path", "replace-container", "new-path", "type-change", "assign-with-copy", "function-copy", "missing-intermediate", "sub-document-copy"} {
		if feats[f] {
			cl.Label = f
			core.Count("cases-with:"+f, 1)
		}
	}
	return cl
}

// known findings, both in utils/alter.loop; the kind is
// [fnarg:|fnpipe:]assign:<path class>:<ok-impossible|ok-mismatch>:<symptom>.
func known(c Case, v *core.Violation) string {
	k := strings.TrimPrefix(strings.TrimPrefix(v.Kind, "fnarg:"), "fnpipe:")
	f := strings.Split(k, ":")
	if len(f) != 4 || f[0] != "assign" {
		return ""
	}
	class, outcome, sym := f[1], f[2], f[3]
	switch {
	case class == "missing-intermediate" && outcome == "ok-mismatch" && (sym == "map-nulled" || sym == "array-nulled"):
		// `$v.b.c = x` with no `b` (or a null `b`): exit 0 and the container
		// that should have received `b` is replaced by null
		return "C12-missing-intermediate-nulls-parent"
	case (class == "leaf-scalar" || class == "scalar-intermediate" || class == "bad-index") && outcome == "ok-impossible" && sym == "array-nulled",
		class == "index-append" && outcome == "ok-mismatch" && sym == "array-nulled":
		// an assignment that cannot be made (value not convertible to the
		// leaf's type, path continues below a scalar, bad index, index ==
		// length: "index greater than length of array") and whose
		// path goes through an array element: the error is swallowed at the
		// array level, exit 0, and the array is replaced by null
		return "C12-error-below-array-element-swallowed"
	}
	return ""
}

var spec = core.Spec[Case]{
	ID: "C12", Gen: gen, Check: check, Classify: classify, Known: known,
	Sample: func(c Case) any {
		var b strings.Builder
		for _, v := range c.Vars {
			fmt.Fprintf(&b, "%s := %s\n", v.Name, v.Doc)
		}
		for _, s := range c.Steps {
			switch s.Op {
			case "copy":
				fmt.Fprintf(&b, "%s = %s\n", s.Dst, copyRef(s.Var, s.Path))
			case "read":
				fmt.Fprintf(&b, "read %s\n", murexPath(s.Var, s.Path))
			default:
				fmt.Fprintf(&b, "%s %s = %s\n", s.Op, murexPath(s.Var, s.Path), s.Val.src())
			}
		}
		return b.String()
	},
}

func TestProp(t *testing.T)   { core.RunProp(t, spec) }
func TestReplay(t *testing.T) { core.Replay(t, spec) }
