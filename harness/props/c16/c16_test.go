// C16 — Index and element lookups return the element or a clean error.
//
// Domain: a document (array of 0–20 elements, or a map) fed on stdin as json,
// yaml or jsonl, and one lookup: `[k]`, `[k1 k2 …]`, `![ k … ]`, `[[/k]]`,
// `[[/k/j]]`, with every k in [-30, 30].
// Oracle: slice / map model of the statement; values are compared
// structurally (numbers as float64 bits), errors as "exit != 0 and a message".
// Never: `panic caught`, `runtime error`, a crash or a hang.
package c16

import (
	"bytes"
	"encoding/json"
	"fmt"
	"math"
	"reflect"
	"sort"
	"strconv"
	"strings"
	"testing"
	"unicode"

	yaml "gopkg.in/yaml.v3"
	"pgregory.net/rapid"
	"verif/harness/core"
)

func TestMain(m *testing.M) { core.InitMurex(); core.Main(m, "C16") }

// Case is one lookup on one document.
type Case struct {
	Type   string   `json:"type"`             // json yaml jsonl
	Doc    string   `json:"doc"`              // JSON text of the model document (array or map)
	Op     string   `json:"op"`               // idx  not  elem
	Params []string `json:"params"`           // idx/not: the keys; elem: the path steps
	Sep    string   `json:"sep,omitempty"`    // elem: path separator
	Spaced bool     `json:"spaced,omitempty"` // `[ k ]` instead of `[k]`
}

// ---------------------------------------------------------------------------
// rendering

func (c Case) Source() string {
	switch c.Op {
	case "idx":
		if c.Spaced {
			return "-> [ " + strings.Join(c.Params, " ") + " ]"
		}
		return "-> [" + strings.Join(c.Params, " ") + "]"
	case "not":
		// `![` needs the blank after the bracket (docs: `![ element ]`)
		if c.Spaced {
			return "-> ![ " + strings.Join(c.Params, " ") + " ]"
		}
		return "-> ![ " + strings.Join(c.Params, " ") + "]"
	case "elem":
		p := c.Sep + strings.Join(c.Params, c.Sep)
		if c.Spaced {
			return "-> [[ " + p + " ]]"
		}
		return "-> [[" + p + "]]"
	}
	panic("bad op")
}

func (c Case) model() (any, error) {
	var v any
	err := json.Unmarshal([]byte(c.Doc), &v)
	return v, err
}

// Input renders the model document in the case's data type.
func (c Case) Input(doc any) ([]byte, error) {
	switch c.Type {
	case "json":
		return []byte(c.Doc), nil
	case "yaml":
		return yaml.Marshal(doc)
	case "jsonl":
		a, ok := doc.([]any)
		if !ok {
			return nil, fmt.Errorf("jsonl needs an array")
		}
		b := bytes.NewBuffer([]byte{}) // never nil: an empty document is still a stdin
		for _, e := range a {
			l, err := json.Marshal(e)
			if err != nil {
				return nil, err
			}
			b.Write(l)
			b.WriteByte('\n')
		}
		return b.Bytes(), nil
	}
	return nil, fmt.Errorf("bad type")
}

// ---------------------------------------------------------------------------
// generator

var strToks = []string{"a", "b", "foo", "bar", "x y", " ", "0", "1", "-1", "1.5", "true", "null", "[", "]", "[1]", "{", "}", "}{",
	"\"", "'", "$x", "@x", "->", "|", ";", "#", "\\", ":", "- ", ",", "é", "日本", "🙂", "~", "*", "%[", "..", "Z", "_"}

func genString(t *rapid.T, rich bool) string {
	n := rapid.IntRange(0, 3).Draw(t, "parts")
	var b strings.Builder
	for i := 0; i < n; i++ {
		if rich && rapid.IntRange(0, 7).Draw(t, "k") == 0 {
			switch rapid.IntRange(0, 2).Draw(t, "r") {
			case 0:
				b.WriteString("\n")
			case 1:
				b.WriteString("\t")
			default:
				b.WriteRune(rapid.RuneFrom(nil, unicode.L, unicode.N, unicode.P, unicode.S).Draw(t, "rune"))
			}
			continue
		}
		b.WriteString(rapid.SampledFrom(strToks).Draw(t, "tok"))
	}
	return b.String()
}

func genScalar(t *rapid.T, rich bool) any {
	switch rapid.IntRange(0, 7).Draw(t, "scalar") {
	case 0, 1, 2:
		return genString(t, rich)
	case 3, 4:
		return float64(rapid.IntRange(-1000000, 1000000).Draw(t, "int"))
	case 5:
		return float64(rapid.IntRange(-4000, 4000).Draw(t, "q")) / 4
	case 6:
		return rapid.Bool().Draw(t, "bool")
	default:
		return nil
	}
}

var keyWords = []string{"a", "A", "b", "key", "Key", "KEY", "kEY", "foo", "Foo", "FOO", "fOo", "xY", "Xy", "zz", "n0", "N0", "under_score", "Under_score"}

// valueGen builds a value generator; slices and maps use rapid's own
// collection generators so that shrinking can delete elements.
func valueGen(depth int, rich bool) *rapid.Generator[any] {
	return rapid.Custom(func(t *rapid.T) any {
		k := rapid.IntRange(0, 9).Draw(t, "kind")
		if depth >= 2 || k < 6 {
			return genScalar(t, rich)
		}
		if k < 8 {
			return any(rapid.SliceOfN(valueGen(depth+1, rich), 0, 4).Draw(t, "arr"))
		}
		return any(rapid.MapOfN(rapid.SampledFrom(keyWords), valueGen(depth+1, rich), 0, 4).Draw(t, "map"))
	})
}

func isArr(v any) bool { _, ok := v.([]any); return ok }

func genIndex(t *rapid.T, n int) int {
	// region 0 is the plain draw so that shrinking ends at k = 0
	switch rapid.IntRange(0, 5).Draw(t, "region") {
	case 3: // boundaries
		return rapid.SampledFrom([]int{0, -1, n - 1, n, -n, -n - 1, -n + 1, n + 1}).Draw(t, "edge")
	case 4: // negative, in or out of range
		return -rapid.IntRange(1, 30).Draw(t, "neg")
	case 5:
		if n > 0 {
			return rapid.IntRange(0, n-1).Draw(t, "in")
		}
		return 0
	default:
		return rapid.IntRange(-30, 30).Draw(t, "k")
	}
}

func clampK(k int) int {
	if k < -30 {
		return -30
	}
	if k > 30 {
		return 30
	}
	return k
}

func gen(t *rapid.T) Case {
	var c Case
	c.Type = rapid.SampledFrom([]string{"json", "json", "yaml", "yaml", "jsonl"}).Draw(t, "type")
	rich := c.Type != "yaml"
	isMap := c.Type != "jsonl" && rapid.IntRange(0, 3).Draw(t, "map") == 3
	c.Spaced = rapid.IntRange(0, 3).Draw(t, "spaced") == 3
	var doc any
	if isMap {
		doc = any(rapid.MapOfN(rapid.SampledFrom(keyWords), valueGen(1, rich), 0, 6).Draw(t, "doc"))
	} else {
		a := rapid.SliceOfN(valueGen(1, rich), 0, 20).Draw(t, "doc")
		if c.Type == "jsonl" && len(a) > 0 && isArr(a[0]) {
			// a jsonl document whose leading lines are arrays is a *table*
			// (docs/types/jsonl.md), not an array of values: by construction
			// the first element is never an array
			a[0] = "row"
		}
		doc = any(a)
	}
	b, err := json.Marshal(doc)
	if err != nil {
		t.Fatalf("marshal: %v", err)
	}
	c.Doc = string(b)

	c.Op = rapid.SampledFrom([]string{"idx", "idx", "idx", "elem", "elem", "not"}).Draw(t, "op")
	genKey := func(v any) string {
		switch x := v.(type) {
		case []any:
			return strconv.Itoa(clampK(genIndex(t, len(x))))
		case map[string]any:
			keys := sortedKeys(x)
			if len(keys) > 0 && rapid.IntRange(0, 3).Draw(t, "present") != 0 {
				return rapid.SampledFrom(keys).Draw(t, "pkey")
			}
			return rapid.SampledFrom(keyWords).Draw(t, "akey")
		default:
			if rapid.Bool().Draw(t, "numkey") {
				return strconv.Itoa(rapid.IntRange(-3, 3).Draw(t, "k"))
			}
			return rapid.SampledFrom(keyWords).Draw(t, "akey")
		}
	}
	switch c.Op {
	case "idx", "not":
		np := 1
		if rapid.IntRange(0, 2).Draw(t, "multi") == 2 {
			np = rapid.IntRange(2, 4).Draw(t, "np")
		}
		if c.Op == "not" {
			// `![` is defined for explicit (non-negative) indexes; a minority of
			// other values for the no-panic clause
			for i := 0; i < np; i++ {
				if a, ok := doc.([]any); ok && len(a) > 0 && rapid.IntRange(0, 4).Draw(t, "notin") != 0 {
					c.Params = append(c.Params, strconv.Itoa(rapid.IntRange(0, len(a)-1).Draw(t, "k")))
				} else {
					c.Params = append(c.Params, genKey(doc))
				}
			}
			break
		}
		if a, ok := doc.([]any); ok && np > 1 && len(a) > 0 && rapid.Bool().Draw(t, "ascending") {
			// documented multi-index form: ascending in-range indexes
			set := map[int]bool{}
			for i := 0; i < np; i++ {
				set[rapid.IntRange(0, len(a)-1).Draw(t, "k")] = true
			}
			var ks []int
			for k := range set {
				ks = append(ks, k)
			}
			sort.Ints(ks)
			for _, k := range ks {
				if rapid.IntRange(0, 3).Draw(t, "asneg") == 0 {
					k -= len(a)
				}
				c.Params = append(c.Params, strconv.Itoa(clampK(k)))
			}
			break
		}
		for i := 0; i < np; i++ {
			c.Params = append(c.Params, genKey(doc))
		}
	case "elem":
		c.Sep = rapid.SampledFrom([]string{"/", "/", "/", ".", ","}).Draw(t, "sep")
		depth := rapid.SampledFrom([]int{1, 1, 2, 2, 3}).Draw(t, "depth")
		cur := doc
		for i := 0; i < depth; i++ {
			k := genKey(cur)
			c.Params = append(c.Params, k)
			nxt, st := step(cur, k)
			if st != stOK {
				nxt = nil
			}
			cur = nxt
		}
	}
	return c
}


// ---------------------------------------------------------------------------
// model

type stepStatus int

const (
	stOK       stepStatus = iota
	stMissing             // the statement / docs promise an error
	stUnstated            // nothing is promised (case-variant key, null value, non-integer key on an array, primitive)
)

func sortedKeys(m map[string]any) []string {
	ks := make([]string, 0, len(m))
	for k := range m {
		ks = append(ks, k)
	}
	sort.Strings(ks)
	return ks
}

// step resolves one key against a value the way the statement describes.
func step(v any, key string) (any, stepStatus) {
	switch x := v.(type) {
	case []any:
		k, err := strconv.Atoi(key)
		if err != nil {
			return nil, stUnstated
		}
		n := len(x)
		if k < -n || k >= n {
			return nil, stMissing
		}
		if k < 0 {
			k += n
		}
		return x[k], stOK
	case map[string]any:
		if val, ok := x[key]; ok {
			return val, stOK
		}
		for k := range x {
			if strings.EqualFold(k, key) {
				return nil, stUnstated // murex also tries Title/lower/UPPER variants
			}
		}
		return nil, stMissing
	default:
		return nil, stUnstated
	}
}

// ---------------------------------------------------------------------------
// oracle

var forbidden = []string{"panic caught", "runtime error", "Murex has crashed", "goroutine "}

func dirty(r core.Result) string {
	all := string(r.Stdout) + "\x00" + string(r.Stderr)
	if r.Err != nil {
		all += "\x00" + r.Err.Error()
	}
	for _, f := range forbidden {
		if strings.Contains(all, f) {
			return f
		}
	}
	return ""
}

func normYAML(v any) any {
	switch x := v.(type) {
	case int:
		return float64(x)
	case int64:
		return float64(x)
	case uint64:
		return float64(x)
	case []any:
		for i := range x {
			x[i] = normYAML(x[i])
		}
		return x
	case map[string]any:
		for k := range x {
			x[k] = normYAML(x[k])
		}
		return x
	case map[any]any:
		m := map[string]any{}
		for k, val := range x {
			m[fmt.Sprint(k)] = normYAML(val)
		}
		return m
	}
	return v
}

// parseStructured decodes output that murex marshalled in the given type.
func parseStructured(typ string, out []byte) (any, error) {
	switch typ {
	case "json":
		var v any
		err := json.Unmarshal(bytes.TrimSpace(out), &v)
		return v, err
	case "yaml":
		var v any
		err := yaml.Unmarshal(out, &v)
		return normYAML(v), err
	}
	return nil, fmt.Errorf("bad type")
}

// parseLines decodes jsonl output into an array.
func parseLines(out []byte) ([]any, error) {
	res := []any{}
	for _, l := range bytes.Split(out, []byte("\n")) {
		if len(bytes.TrimSpace(l)) == 0 {
			continue
		}
		var v any
		if err := json.Unmarshal(l, &v); err != nil {
			return nil, fmt.Errorf("line %q: %v", l, err)
		}
		res = append(res, v)
	}
	return res, nil
}

// equal compares two decoded values: exact, numbers by float64 bits
// (reflect.DeepEqual on float64 is ==; -0 and NaN never occur in the domain).
func equal(a, b any) bool {
	if x, ok := a.([]any); ok && len(x) == 0 {
		if y, ok := b.([]any); ok && len(y) == 0 {
			return true
		}
	}
	return reflect.DeepEqual(a, b)
}

// scalarMatches compares the raw bytes murex printed for a scalar element.
func scalarMatches(want any, out []byte) bool {
	switch w := want.(type) {
	case string:
		return string(out) == w
	case bool:
		return string(out) == strconv.FormatBool(w)
	case float64:
		f, err := strconv.ParseFloat(string(out), 64)
		return err == nil && math.Float64bits(f) == math.Float64bits(w)
	}
	return false
}

func isScalar(v any) bool {
	switch v.(type) {
	case string, bool, float64:
		return true
	}
	return false
}

func wantError(c Case, r core.Result, why string) *core.Violation {
	if r.Exit != 0 && len(bytes.TrimSpace(r.Stderr)) > 0 {
		return nil
	}
	return core.Violf("no-error", "%s `%s` on %s: %s, so an error message and a non-zero exit number are required\ngot stdout=%q stderr=%q exit=%d",
		c.Type, c.Source(), c.Doc, why, r.Stdout, r.Stderr, r.Exit)
}

func unexpected(c Case, r core.Result, want any) *core.Violation {
	wb, _ := json.Marshal(want)
	if r.Exit != 0 || len(r.Stderr) > 0 {
		return core.Violf("unexpected-error", "%s `%s` on %s: want element %s\ngot stdout=%q stderr=%q exit=%d",
			c.Type, c.Source(), c.Doc, wb, r.Stdout, r.Stderr, r.Exit)
	}
	return core.Violf("value", "%s `%s` on %s: want element %s\ngot stdout=%q (exit 0)", c.Type, c.Source(), c.Doc, wb, r.Stdout)
}

// wantValue checks that the lookup printed exactly `want`.
// how: "idx" (index builtin, one key), "elem" (element builtin).
func wantValue(c Case, r core.Result, want any) *core.Violation {
	if want == nil {
		// how a null element is "returned" is not stated (murex prints nothing
		// from `[`, `null` or an error from `[[`): only cleanliness is checked
		core.Count("null-element-unasserted", 1)
		return nil
	}
	if a, ok := want.([]any); ok && c.Type == "jsonl" && c.Op == "elem" {
		for _, e := range a {
			if e == nil {
				// `[[` prints a nested array as jsonl lines and a null cannot be a
				// line of its own in murex (its JSON marshaller refuses a bare
				// null): null handling is not stated
				core.Count("null-element-unasserted", 1)
				return nil
			}
		}
	}
	if r.Exit != 0 || len(r.Stderr) > 0 {
		return unexpected(c, r, want)
	}
	if c.Type == "jsonl" && c.Op == "idx" {
		// the jsonl indexer prints the selected line(s)
		got, err := parseLines(r.Stdout)
		if err != nil || len(got) != 1 || !equal(got[0], want) {
			return unexpected(c, r, want)
		}
		return nil
	}
	if isScalar(want) {
		if !scalarMatches(want, r.Stdout) {
			return unexpected(c, r, want)
		}
		return nil
	}
	if c.Type == "jsonl" {
		// `[[` re-marshals a nested array as jsonl lines
		if a, ok := want.([]any); ok {
			got, err := parseLines(r.Stdout)
			if err != nil || !equal(got, a) {
				return unexpected(c, r, want)
			}
			return nil
		}
		// an object cannot be expressed as a jsonl document: see known()
		return unexpected(c, r, want)
	}
	got, err := parseStructured(c.Type, r.Stdout)
	if err != nil || !equal(got, want) {
		return unexpected(c, r, want)
	}
	return nil
}

// wantList checks a multi-key result: an array with the values in order
// (for maps murex >= 8.0 modules may print an object keyed by the parameters).
func wantList(c Case, r core.Result, want []any, keys []string) *core.Violation {
	if r.Exit != 0 || len(r.Stderr) > 0 {
		return unexpected(c, r, want)
	}
	if c.Type == "jsonl" {
		got, err := parseLines(r.Stdout)
		if err != nil || !equal(got, want) {
			return unexpected(c, r, want)
		}
		return nil
	}
	got, err := parseStructured(c.Type, r.Stdout)
	if err != nil {
		return unexpected(c, r, want)
	}
	if equal(got, want) {
		return nil
	}
	if m, ok := got.(map[string]any); ok && keys != nil && len(m) == len(keys) {
		for i, k := range keys {
			if v, ok := m[k]; !ok || !equal(v, want[i]) {
				return unexpected(c, r, want)
			}
		}
		return nil
	}
	return unexpected(c, r, want)
}

// wantMultiset checks a multi-key result irrespective of order: the output
// must be a list holding exactly the wanted elements.
func wantMultiset(c Case, r core.Result, want []any) *core.Violation {
	if r.Exit != 0 || len(r.Stderr) > 0 {
		return unexpected(c, r, want)
	}
	var got []any
	if c.Type == "jsonl" {
		g, err := parseLines(r.Stdout)
		if err != nil {
			return unexpected(c, r, want)
		}
		got = g
	} else {
		g, err := parseStructured(c.Type, r.Stdout)
		if err != nil {
			return unexpected(c, r, want)
		}
		l, ok := g.([]any)
		if !ok {
			return unexpected(c, r, want)
		}
		got = l
	}
	if len(got) != len(want) {
		return unexpected(c, r, want)
	}
	used := make([]bool, len(got))
	for _, w := range want {
		found := false
		for i, g := range got {
			if !used[i] && equal(g, w) {
				used[i], found = true, true
				break
			}
		}
		if !found {
			return unexpected(c, r, want)
		}
	}
	return nil
}

func check(c Case) *core.Violation {
	doc, err := c.model()
	if err != nil {
		return core.Violf("bad-case", "doc does not parse: %v", err)
	}
	in, err := c.Input(doc)
	if err != nil {
		return core.Violf("bad-case", "cannot render input: %v", err)
	}
	src := c.Source()
	r := core.RunStdin(src, in, c.Type)
	if r.Hung {
		return core.Violf("hang", "%s `%s` on %s did not finish\n%s", c.Type, src, c.Doc, r.Dump)
	}
	if f := dirty(r); f != "" {
		return core.Violf("panic", "%s `%s` on %s: output contains %q\nstdout=%q stderr=%q exit=%d err=%v",
			c.Type, src, c.Doc, f, r.Stdout, r.Stderr, r.Exit, r.Err)
	}
	if r.Err != nil {
		return core.Violf("parse", "%s `%s`: the lookup did not compile: %v", c.Type, src, r.Err)
	}

	switch c.Op {
	case "elem":
		cur := doc
		for _, k := range c.Params {
			nxt, st := step(cur, k)
			switch st {
			case stMissing:
				return wantError(c, r, fmt.Sprintf("path step %q does not exist", k))
			case stUnstated:
				core.Count("unstated", 1)
				return nil
			}
			if nxt == nil {
				core.Count("null-element-unasserted", 1)
				return nil // descending into / returning null: not stated
			}
			cur = nxt
		}
		return wantValue(c, r, cur)

	case "idx":
		if len(c.Params) == 1 {
			v, st := step(doc, c.Params[0])
			switch st {
			case stMissing:
				return wantError(c, r, fmt.Sprintf("key %q does not exist", c.Params[0]))
			case stUnstated:
				core.Count("unstated", 1)
				return nil
			}
			return wantValue(c, r, v)
		}
		// several keys
		var vals []any
		var pos []int
		for _, k := range c.Params {
			v, st := step(doc, k)
			switch st {
			case stMissing:
				return wantError(c, r, fmt.Sprintf("key %q does not exist", k))
			case stUnstated:
				core.Count("unstated", 1)
				return nil
			}
			vals = append(vals, v)
			if a, ok := doc.([]any); ok {
				i, _ := strconv.Atoi(k)
				if i < 0 {
					i += len(a)
				}
				pos = append(pos, i)
			}
		}
		if _, ok := doc.([]any); ok {
			// only the documented form (distinct ascending indexes) has a stated
			// result; other orders / repeats: cleanliness only
			ascending, distinct := true, true
			seenPos := map[int]bool{}
			for i := range pos {
				if i > 0 && pos[i] <= pos[i-1] {
					ascending = false
				}
				if seenPos[pos[i]] {
					distinct = false
				}
				seenPos[pos[i]] = true
			}
			if ascending {
				return wantList(c, r, vals, nil)
			}
			if !distinct {
				// a repeated index: the statement does not say whether the
				// element comes back once or twice
				core.Count("multi-repeated-unasserted", 1)
				return nil
			}
			// distinct indexes in another order: the order of the result is
			// not stated, but it must hold exactly the requested elements
			core.Count("multi-unordered-multiset", 1)
			return wantMultiset(c, r, vals)
		}
		seen := map[string]bool{}
		for _, k := range c.Params {
			if seen[k] {
				core.Count("multi-unordered-unasserted", 1)
				return nil
			}
			seen[k] = true
		}
		return wantList(c, r, vals, c.Params)

	case "not":
		switch x := doc.(type) {
		case []any:
			drop := map[int]bool{}
			for _, k := range c.Params {
				i, err := strconv.Atoi(k)
				if err != nil || i < 0 || i >= len(x) {
					core.Count("unstated", 1)
					return nil // `![` with a key that is not an existing index: not stated
				}
				drop[i] = true
			}
			rest := []any{}
			for i, v := range x {
				if !drop[i] {
					rest = append(rest, v)
				}
			}
			if len(rest) == 0 {
				core.Count("unstated", 1)
				return nil // "everything excluded": not stated (murex: `no data returned`)
			}
			return wantList(c, r, rest, nil)
		case map[string]any:
			rest := map[string]any{}
			for k, v := range x {
				rest[k] = v
			}
			for _, p := range c.Params {
				if _, ok := x[p]; !ok {
					core.Count("unstated", 1)
					return nil
				}
				for k := range x {
					if k != p && strings.EqualFold(k, p) {
						core.Count("unstated", 1)
						return nil // murex also drops case variants
					}
				}
				delete(rest, p)
			}
			if len(rest) == 0 {
				core.Count("unstated", 1)
				return nil
			}
			if r.Exit != 0 || len(r.Stderr) > 0 {
				return unexpected(c, r, rest)
			}
			got, err := parseStructured(c.Type, r.Stdout)
			if err != nil || !equal(got, any(rest)) {
				return unexpected(c, r, rest)
			}
			return nil
		}
	}
	return nil
}

// ---------------------------------------------------------------------------
// classification

func classify(c Case) core.Class {
	doc, _ := c.model()
	var shape strings.Builder
	kind := func(v any) byte {
		switch v.(type) {
		case string:
			return 's'
		case float64:
			return 'n'
		case bool:
			return 'b'
		case nil:
			return 'z'
		case []any:
			return 'a'
		case map[string]any:
			return 'm'
		}
		return '?'
	}
	region := "map"
	nontrivial := false
	switch x := doc.(type) {
	case []any:
		n := len(x)
		for _, e := range x {
			shape.WriteByte(kind(e))
		}
		region = "interior"
		k, err := strconv.Atoi(c.Params[0])
		switch {
		case err != nil:
			region = "non-integer"
		case n == 0:
			region = "empty-array"
		case k < -n:
			region = "below"
		case k >= n:
			region = "above"
		case k < 0:
			region = "negative-in-range"
		case k == 0 || k == n-1:
			region = "boundary"
		}
		nontrivial = region != "interior" && region != "non-integer"
		if len(c.Params) > 1 && c.Op != "elem" {
			region = "multi"
			nontrivial = true
		}
		if c.Op == "elem" && len(c.Params) > 1 {
			region += "+nested"
			nontrivial = true
		}
	case map[string]any:
		for _, k := range sortedKeys(x) {
			shape.WriteString(k + ":" + string(kind(x[k])) + ",")
		}
		_, st := step(doc, c.Params[0])
		switch st {
		case stOK:
			region = "map-present"
		case stMissing:
			region = "map-absent"
			nontrivial = true
		default:
			region = "map-case-variant"
			nontrivial = true
		}
		if len(c.Params) > 1 {
			region += "+more"
			nontrivial = true
		}
	}
	return core.Class{
		NonTrivial: nontrivial,
		Label:      c.Type + " " + c.Op + " " + region,
		Key:        fmt.Sprintf("%s|%s|%v|%s|%s|%s", c.Type, c.Op, c.Spaced, c.Sep, strings.Join(c.Params, " "), shape.String()),
	}
}

// ---------------------------------------------------------------------------
// known findings

func known(c Case, v *core.Violation) string {
	doc, err := c.model()
	if err != nil {
		return ""
	}
	a, isArray := doc.([]any)
	n := len(a)
	ints := func() ([]int, bool) {
		var ks []int
		for _, p := range c.Params {
			k, err := strconv.Atoi(p)
			if err != nil {
				return nil, false
			}
			ks = append(ks, k)
		}
		return ks, true
	}
	switch {
	case v.Kind == "panic" && c.Op == "idx" && isArray && (c.Type == "json" || c.Type == "yaml") &&
		strings.Contains(v.Msg, "index out of range [-"):
		// itoIndexArray: k < -n is adjusted to a still-negative index and used
		if ks, ok := ints(); ok {
			for _, k := range ks {
				if k < -n {
					return "C16-negative-index-below-range-panics"
				}
			}
		}
	case c.Type == "jsonl" && c.Op == "idx" && isArray:
		ks, ok := ints()
		if !ok {
			return ""
		}
		neg, outside := false, false
		for _, k := range ks {
			if k < 0 {
				neg = true
			}
			if k >= n || k < -n {
				outside = true
			}
		}
		// a negative key is not "all digits", so the jsonl indexer treats the
		// request as a table-column lookup: in-range negative indexes fail with
		// an unrelated error, and on an empty document nothing is reported
		if neg && (v.Kind == "unexpected-error" || v.Kind == "value" || v.Kind == "no-error") {
			return "C16-jsonl-negative-index-unsupported"
		}
		// the jsonl indexer filters lines and never notices a missing one
		if outside && !neg && v.Kind == "no-error" {
			return "C16-jsonl-index-out-of-range-silent"
		}
	case c.Type == "jsonl" && c.Op == "elem" && isArray && v.Kind == "unexpected-error" &&
		strings.Contains(v.Msg, "cannot marshal data into jsonlines"):
		// `[[` re-marshals its result in the input's type; an object is not a jsonl document
		cur := doc
		for _, k := range c.Params {
			nxt, st := step(cur, k)
			if st != stOK {
				return ""
			}
			cur = nxt
		}
		if _, ok := cur.(map[string]any); ok {
			return "C16-jsonl-element-object-not-marshallable"
		}
	}
	return ""
}

// ---------------------------------------------------------------------------

var spec = core.Spec[Case]{
	ID: "C16", Gen: gen, Check: check, Classify: classify, Known: known,
	Sample: func(c Case) any {
		return map[string]any{"type": c.Type, "doc": c.Doc, "lookup": c.Source()}
	},
}

func TestProp(t *testing.T)   { core.RunProp(t, spec) }
func TestReplay(t *testing.T) { core.Replay(t, spec) }

// fixedDoc is the document the exhaustive sweep uses for length n: element i
// has a kind decided by its position, so every kind is hit at every offset.
func fixedDoc(n int, typ string) []any {
	a := make([]any, 0, n)
	for i := 0; i < n; i++ {
		var v any
		switch i % 5 {
		case 0:
			v = fmt.Sprintf("s%d", i)
		case 1:
			v = float64(i*10) + 0.5
		case 2:
			v = i%2 == 0
		case 3:
			v = []any{float64(i), "x"}
		case 4:
			v = map[string]any{"i": float64(i)}
		}
		a = append(a, v)
	}
	return a
}

// TestPropExhaustive enumerates every (type, op, n, k) with n in 0..20 and k
// in -30..30 on fixedDoc(n), for `[k]`, `[[/k]]` and `![ k ]`.
func TestPropExhaustive(t *testing.T) {
	total := 0
	ks := []int{0} // smallest |k| first, so the first failure is a small one
	for k := 1; k <= 30; k++ {
		ks = append(ks, -k, k)
	}
	for n := 0; n <= 20; n++ {
		for _, typ := range []string{"json", "yaml", "jsonl"} {
			b, _ := json.Marshal(fixedDoc(n, typ))
			for _, k := range ks {
				for _, op := range []string{"idx", "elem", "not"} {
					c := Case{Type: typ, Doc: string(b), Op: op, Params: []string{strconv.Itoa(k)}}
					if op == "elem" {
						c.Sep = "/"
					}
					total++
					if v := core.Eval(spec, c, true); v != nil {
						t.Fatalf("C16 violated: %s", v.Error())
					}
				}
			}
		}
	}
	core.Note("exhaustive", fmt.Sprintf("every single-key lookup `[k]`, `[[/k]]`, `![ k ]` for n in 0..20, k in -30..30, on json, yaml and jsonl, over one fixed mixed-kind document per n (%d cases); random documents, multi-key, map and nested lookups are sampled", total))
}
