// C09 — quoted string literals evaluate to exactly their contents.
//
// Domain: strings S over an alphabet rich in quotes, backslashes, brackets,
// `# ; | & $ ~ %`, tabs, newlines and non-ASCII, encoded as a murex literal by
// one of three encoders:
//
//	sq  'S'        (S has no `'`)
//	dq  "…"        `\ " $ ~` are escaped with a backslash; a per-rune mask makes
//	               the encoder also use the documented escapes `\s \t \r \n` for
//	               blank/tab/CR/LF and `\<char>` for any other character that is
//	               not one of s t r n (decoder direction)
//	bq  %(S)       (S has balanced parentheses, no `$`, no `~`, no defined
//	               {ANSI} constant name)
//
// The literal is placed as a statement argument (exec-mode statement parser,
// and end to end through the block parser into a builtin's argument vector or
// a function's $PARAMS) and as an expression value (`v = <literal>` through
// expressions.ExecuteExpr, and end to end through the block parser), in a few
// surrounding contexts. Oracle: the argument / the variable's value is S.
package c09

import (
	"encoding/json"
	"fmt"
	"strings"
	"testing"
	"unicode/utf8"

	"github.com/lmorg/murex/lang"
	"github.com/lmorg/murex/lang/expressions"
	"github.com/lmorg/murex/lang/types"
	"github.com/lmorg/murex/utils/ansi"
	"pgregory.net/rapid"
	"verif/harness/core"
	hgen "verif/harness/gen"
)

const (
	sentinel       = "C09INJECT"
	findingDqQuote = "C09-dq-escaped-quote-breaks-block-parser"
	findingEmptyBq = "C09-empty-brace-quote-argument-dropped"
)

func TestMain(m *testing.M) {
	core.InitMurex()
	// c09args: prints its argument vector as JSON.
	lang.DefineFunction("c09args", func(p *lang.Process) error {
		b, _ := json.Marshal(p.Parameters.StringArray())
		p.Stdout.SetDataType(types.Json)
		_, err := p.Stdout.Write(append(b, '\n'))
		return err
	}, types.Json)
	// c09get <name>: prints the string value of the variable as JSON.
	lang.DefineFunction("c09get", func(p *lang.Process) error {
		name, err := p.Parameters.String(0)
		if err != nil {
			return err
		}
		s, err := p.Variables.GetString(name)
		if err != nil {
			return err
		}
		b, _ := json.Marshal([]string{s})
		p.Stdout.SetDataType(types.Json)
		_, err = p.Stdout.Write(append(b, '\n'))
		return err
	}, types.Json)
	core.Main(m, "C09")
}

// ---------------------------------------------------------------------------

type Case struct {
	S    string `json:"s"`    // the string the literal stands for
	Enc  string `json:"enc"`  // sq dq bq
	Mask string `json:"mask"` // dq only: '1' at i (mod len) = use a backslash escape for rune i where one exists
	Pos  string `json:"pos"`  // parse builtin params expr e2ex
	Ctx  int    `json:"ctx"`  // surrounding context, see contexts
}

// statement contexts: L is replaced by the literal; `END` marks a second
// command that must still run exactly once with the argument END.
var contexts = []string{
	"CMD L",
	"CMD a L b",
	"CMD L ; c09args END",
	"CMD L L",
	"CMD L\nc09args END",
	"CMD\tL # c09args NOT\nc09args END",
	// a literal glued to plain text is one argument: contents + text
	"CMD Ltai1",
	"CMD preL b",
	// the same stored block executed twice must give the same arguments twice
	"TWICE CMD Ltai1 L",
	"TWICE CMD a L",
}

// twice reports whether the context runs its command from a function that is
// called twice.
func twice(ctx string) (string, bool) {
	if strings.HasPrefix(ctx, "TWICE ") {
		return strings.TrimPrefix(ctx, "TWICE "), true
	}
	return ctx, false
}

var extraToks = []string{
	"'", "\"", "\\", "\\\\", "\\\"", "\\'", "\\s", "\\t", "\\n", "\\r", "\\x", "(", ")", "()", "(a)", "((", "))", "%(", "%[", "%{",
	"[", "]", "{", "}", "<", ">", "#", " # ", "/#", "#/", ";", "|", "&", "&&", "||", "$", "~", "%", "$x", "${", "@{", "\n", "\t", " ",
	"{RED}", "{RESET}", "{BLUE", "{a}", "; global " + sentinel + "=1", "\nglobal " + sentinel + "=1\n", "| global " + sentinel + "=1",
	"${global " + sentinel + "=1}", "' ; global " + sentinel + "=1 ; '", "\" ; global " + sentinel + "=1 ; \"", ") ; global " + sentinel + "=1 ; %(",
	"é", "日本", "🙂", "ß", " ", "​", " ",
}

var strGen = hgen.HostileString(hgen.StrOpts{MaxParts: 8, Newlines: true, ExtraToks: extraToks})

// balance makes the parentheses of s balanced: a `)` without an open `(` is
// dropped, missing `)` are appended.
func balance(s string) string {
	var b strings.Builder
	depth := 0
	for _, r := range s {
		switch r {
		case '(':
			depth++
		case ')':
			if depth == 0 {
				continue
			}
			depth--
		}
		b.WriteRune(r)
	}
	b.WriteString(strings.Repeat(")", depth))
	return b.String()
}

// inDomain reports whether s is in the encoder's domain.
func inDomain(enc, s string) bool {
	if !utf8.ValidString(s) {
		return false
	}
	for _, r := range s {
		if r < 0x20 && r != '\t' && r != '\n' && r != '\r' || r == 0x7f {
			return false
		}
	}
	switch enc {
	case "sq":
		return !strings.Contains(s, "'")
	case "dq":
		return true
	case "bq":
		return !strings.ContainsAny(s, "$~") && balance(s) == s && ansi.ExpandConsts(s) == s &&
			ansi.ForceExpandConsts(s, true) == s && ansi.ForceExpandConsts(s, false) == s
	}
	return false
}

// toDomain maps an arbitrary string into the encoder's domain (construction,
// not rejection). It is the identity on strings already in the domain.
func toDomain(enc, s string) string {
	s = strings.ToValidUTF8(s, "")
	s = strings.Map(func(r rune) rune {
		if r < 0x20 && r != '\t' && r != '\n' && r != '\r' || r == 0x7f {
			return -1
		}
		return r
	}, s)
	switch enc {
	case "sq":
		s = strings.ReplaceAll(s, "'", "")
	case "bq":
		s = strings.Map(func(r rune) rune {
			if r == '$' || r == '~' {
				return -1
			}
			return r
		}, s)
		s = balance(s)
		for i := 0; i < 64 && !inDomain(enc, s); i++ {
			// a defined {CONST} name: break it by removing one opening brace
			s = strings.Replace(s, "{", "", 1)
		}
		if !inDomain(enc, s) {
			s = strings.ReplaceAll(s, "{", "")
		}
	}
	return s
}

func gen(t *rapid.T) Case {
	c := Case{}
	c.Enc = rapid.SampledFrom([]string{"sq", "dq", "dq", "bq"}).Draw(t, "enc")
	c.Pos = rapid.SampledFrom([]string{"parse", "parse", "builtin", "params", "expr", "expr", "e2ex"}).Draw(t, "pos")
	c.Ctx = rapid.IntRange(0, len(contexts)-1).Draw(t, "ctx")
	raw := strGen.Draw(t, "s")
	c.S = toDomain(c.Enc, raw)
	if c.S != raw {
		core.Count("mapped_into_domain", 1)
	}
	if c.Enc == "dq" {
		c.Mask = rapid.StringOfN(rapid.RuneFrom([]rune("0001")), 0, 6, -1).Draw(t, "mask")
	}
	return c
}

// Literal encodes S.
func (c Case) Literal() string {
	switch c.Enc {
	case "sq":
		return "'" + c.S + "'"
	case "bq":
		return "%(" + c.S + ")"
	}
	var b strings.Builder
	b.WriteByte('"')
	i := 0
	for _, r := range c.S {
		esc := len(c.Mask) > 0 && c.Mask[i%len(c.Mask)] == '1'
		i++
		switch r {
		case '\\', '"', '$', '~':
			b.WriteByte('\\')
			b.WriteRune(r)
			continue
		}
		if !esc {
			b.WriteRune(r)
			continue
		}
		switch r {
		case ' ':
			b.WriteString(`\s`)
		case '\t':
			b.WriteString(`\t`)
		case '\r':
			b.WriteString(`\r`)
		case '\n':
			b.WriteString(`\n`)
		case 's', 't', 'r', 'n':
			b.WriteRune(r) // `\s` etc. mean something else
		default:
			b.WriteByte('\\')
			b.WriteRune(r)
		}
	}
	b.WriteByte('"')
	return b.String()
}

func (c Case) isExpr() bool { return c.Pos == "expr" || c.Pos == "e2ex" }

func (c Case) context() string { return contexts[((c.Ctx%len(contexts))+len(contexts))%len(contexts)] }

// Source is the murex text that is parsed / run.
func (c Case) Source() string {
	lit := c.Literal()
	switch c.Pos {
	case "expr":
		return "c09v = " + lit
	case "e2ex":
		return "c09v = " + lit + "\nc09get c09v\n"
	}
	cmd := "c09args"
	if c.Pos == "params" {
		cmd = "c09f"
	}
	ctx, tw := twice(c.context())
	if c.Pos == "parse" {
		// one statement only: cut the context at the end of the first command
		if i := strings.IndexAny(ctx, ";\n#"); i >= 0 {
			ctx = strings.TrimRight(ctx[:i], " ")
		}
		tw = false
	}
	stmt := strings.NewReplacer("CMD", cmd, "L", lit).Replace(ctx)
	if tw {
		return "function c09twice {\n" + stmt + "\n}\nc09twice\nc09twice"
	}
	return stmt
}

// want is the list of argument vectors the program must print.
func (c Case) want() [][]string {
	if c.isExpr() {
		return [][]string{{c.S}}
	}
	ctx, tw := twice(c.context())
	var first []string
	head := ctx
	if i := strings.IndexAny(ctx, ";\n#"); i >= 0 {
		head = ctx[:i]
	}
	for _, f := range strings.Fields(head)[1:] {
		// no other word of a context contains a capital L
		first = append(first, strings.ReplaceAll(f, "L", c.S))
	}
	out := [][]string{first}
	if tw && c.Pos != "parse" {
		out = append(out, first)
	}
	if c.Pos != "parse" && strings.Contains(ctx, "END") {
		out = append(out, []string{"END"})
	}
	return out
}

const prelude = "function c09f {\n  $PARAMS\n}\n"

func sentinelSet() bool {
	if s, _ := lang.GlobalVariables.GetString(sentinel); s != "" {
		lang.GlobalVariables.Unset(sentinel)
		return true
	}
	return false
}

func sameVec(a, b []string) bool {
	if len(a) != len(b) {
		return false
	}
	for i := range a {
		if a[i] != b[i] {
			return false
		}
	}
	return true
}

func withoutEmpty(v []string) []string {
	var out []string
	for _, s := range v {
		if s != "" {
			out = append(out, s)
		}
	}
	return out
}

func (c Case) vecViolation(i int, want, got []string, ctx string) *core.Violation {
	if sameVec(want, got) {
		return nil
	}
	if c.Enc == "bq" && c.S == "" && sameVec(withoutEmpty(want), got) {
		return core.Violf("empty-bq-dropped", "%s\nthe empty literal %%() produced no argument\nwant %q\ngot  %q", ctx, want, got)
	}
	return core.Violf("value", "%s\nS=%q\ncommand %d: want %q\n           got  %q", ctx, c.S, i, want, got)
}

// check runs the oracle. Every end-to-end failure of a double-quoted literal
// whose S contains a double quote is labelled "dq-quote-firstpass": the block
// parser's non-exec pass ends such a literal at the first escaped quote (known
// finding), so whatever goes wrong afterwards (a compile error of any kind, a
// cut statement, text of the literal parsed as commands) has that root cause.
// The exec-mode observers (parse, expr) still check these inputs.
func check(c Case) *core.Violation {
	v := check1(c)
	if v != nil && c.Enc == "dq" && strings.Contains(c.S, `"`) && (c.Pos == "builtin" || c.Pos == "params" || c.Pos == "e2ex") {
		v = core.Violf("dq-quote-firstpass", "double-quoted literal containing \\\" mis-parsed by the block parser (%s)\n%s", v.Kind, v.Msg)
	}
	return v
}

func check1(c Case) *core.Violation {
	if !inDomain(c.Enc, c.S) || c.Pos == "" {
		core.Count("out_of_domain_replay", 1)
		return nil
	}
	sentinelSet()
	src := c.Source()
	want := c.want()

	switch c.Pos {
	case "parse", "expr":
		fork := lang.ShellProcess.Fork(lang.F_FUNCTION | lang.F_NEW_MODULE | lang.F_NO_STDIN | lang.F_CREATE_STDOUT | lang.F_CREATE_STDERR)
		defer fork.Kill()
		fork.Name.Set("verif")
		if c.Pos == "parse" {
			name, params, err := lang.ParseStatementParameters([]rune(src), fork.Process)
			if sentinelSet() {
				return core.Violf("injected", "parsing %q ran a command hidden in the literal (S=%q)", src, c.S)
			}
			if err != nil {
				return core.Violf("error", "ParseStatementParameters(%q) failed: %v\nS=%q", src, err, c.S)
			}
			if name != "c09args" {
				return core.Violf("value", "ParseStatementParameters(%q): command name %q", src, name)
			}
			return c.vecViolation(0, want[0], params, fmt.Sprintf("ParseStatementParameters(%q)", src))
		}
		dt, err := expressions.ExecuteExpr(fork.Process, []rune(src))
		if err == nil {
			_, err = dt.GetValue()
		}
		if sentinelSet() {
			return core.Violf("injected", "evaluating %q ran a command hidden in the literal (S=%q)", src, c.S)
		}
		if err != nil {
			return core.Violf("error", "ExecuteExpr(%q) failed: %v\nS=%q", src, err, c.S)
		}
		got, err := fork.Variables.GetString("c09v")
		if err != nil {
			return core.Violf("error", "ExecuteExpr(%q): variable not assigned: %v", src, err)
		}
		if got != c.S {
			return core.Violf("value", "ExecuteExpr(%q)\nwant %q\ngot  %q", src, c.S, got)
		}
		return nil
	}

	full := src
	if c.Pos == "params" {
		full = prelude + src
	}
	r := core.Run(full + "\n")
	if r.Hung {
		return core.Violf("hang", "program did not finish\n%s", src)
	}
	if sentinelSet() {
		return core.Violf("injected", "running the program ran a command hidden in the literal\n%s\nS=%q", src, c.S)
	}
	ctx := fmt.Sprintf("program:\n%s\nstdout=%q stderr=%q exit=%d err=%v", src, r.Stdout, r.Stderr, r.Exit, r.Err)
	if r.Err != nil || r.Exit != 0 || len(r.Stderr) != 0 {
		return core.Violf("error", "unexpected failure\n%s\nS=%q", ctx, c.S)
	}
	dec := json.NewDecoder(strings.NewReader(string(r.Stdout)))
	for i, w := range want {
		var got []string
		if err := dec.Decode(&got); err != nil {
			return core.Violf("value", "command %d printed no argument vector (%v)\n%s\nS=%q", i, err, ctx, c.S)
		}
		if v := c.vecViolation(i, w, got, ctx); v != nil {
			return v
		}
	}
	if dec.More() {
		return core.Violf("value", "more commands ran than were written\n%s\nS=%q", ctx, c.S)
	}
	return nil
}

// ---------------------------------------------------------------------------

func nonTrivial(s string) bool {
	if strings.ContainsAny(s, "'\"`\\()[]{}<>#;|\n") {
		return true
	}
	for _, r := range s {
		if r >= 0x80 {
			return true
		}
	}
	return false
}

func classify(c Case) core.Class {
	cl := core.Class{NonTrivial: nonTrivial(c.S)}
	kind := "plain"
	switch {
	case !cl.NonTrivial:
	case c.Enc == "dq" && strings.Contains(c.Mask, "1"):
		kind = "rich+escapes"
	default:
		kind = "rich"
	}
	cl.Label = c.Enc + "/" + c.Pos + "/" + kind
	return cl
}

func known(c Case, v *core.Violation) string {
	switch v.Kind {
	case "dq-quote-firstpass":
		// only end to end (the block parser's first pass), only the dq encoder,
		// only when S contains a double quote
		if c.Enc == "dq" && strings.Contains(c.S, `"`) && (c.Pos == "builtin" || c.Pos == "params" || c.Pos == "e2ex") {
			return findingDqQuote
		}
	case "empty-bq-dropped":
		if c.Enc == "bq" && c.S == "" && !c.isExpr() {
			return findingEmptyBq
		}
	}
	return ""
}

var spec = core.Spec[Case]{
	ID: "C09", Gen: gen, Check: check, Classify: classify, Known: known,
	Sample: func(c Case) any { return map[string]any{"src": c.Source(), "s": c.S, "pos": c.Pos} },
}

func TestProp(t *testing.T)   { core.RunProp(t, spec) }
func TestReplay(t *testing.T) { core.Replay(t, spec) }

// FuzzC09 is the native (coverage guided) entry: the fuzzer's string is mapped
// into the encoder's domain and goes through the same oracle.
func FuzzC09(f *testing.F) {
	for _, s := range []string{"", "a b", `a"b`, `a\b`, "x(y)z", "#;|&", "a\nb", "é日本", `\s\t\n`, "{RED}", "$x ~", `'`, "((a)"} {
		for e := 0; e < 3; e++ {
			f.Add(s, "01", uint8(e), uint8(e+len(s)), uint8(len(s)))
		}
	}
	encs := []string{"sq", "dq", "bq"}
	poss := []string{"parse", "builtin", "params", "expr", "e2ex"}
	f.Fuzz(func(t *testing.T, s, mask string, e, p, x uint8) {
		if len(s) > 4096 {
			return
		}
		c := Case{Enc: encs[int(e)%len(encs)], Pos: poss[int(p)%len(poss)], Ctx: int(x) % len(contexts)}
		c.S = toDomain(c.Enc, s)
		if c.Enc == "dq" {
			c.Mask = strings.Map(func(r rune) rune {
				if r == '1' {
					return '1'
				}
				return '0'
			}, mask)
			if len(c.Mask) > 8 {
				c.Mask = c.Mask[:8]
			}
		}
		if v := core.Eval(spec, c, false); v != nil {
			b, _ := json.Marshal(c)
			t.Fatalf("C09 violated: %s\ncase: %s", v.Error(), b)
		}
	})
}
