// C29 — Shell history survives restarts and crashes.
//
// Domain: a history file written by 1–4 consecutive sessions (history.New on
// the same file, then Write per command). A session may "crash": its last
// write is cut at a byte offset (the file is truncated inside that write),
// after which later sessions append more commands. One crash point per case
// may be swept over EVERY byte offset of the write.
// Oracle: model = trimmed non-empty commands in order; a fresh session's
// GetLine(0..Len-1), with consecutive duplicates collapsed, must equal the
// collapsed model in which each torn entry is present or absent and every
// other entry is present with its full text.
package c29

import (
	"encoding/json"
	"fmt"
	"os"
	"path/filepath"
	"strings"
	"sync/atomic"
	"testing"
	"unicode/utf8"

	"github.com/lmorg/murex/shell/history"
	"pgregory.net/rapid"
	"verif/harness/core"
	"verif/harness/gen"
)

var workDir string

func TestMain(m *testing.M) {
	core.InitMurex() // history.Write reads the config key shell/history-write-enabled
	core.Main(m, "C29")
}

// scratch creates the per-process scratch directory; the returned function
// removes it (core.Main ends in os.Exit, so the tests clean up themselves).
func scratch() func() {
	workDir = core.WorkDir("C29")
	return func() { core.CleanWorkDir("C29") }
}

// Cmd is one command line: Pre + Unit×Rep + "x"×Pad + Post (compact so that
// 200 KiB commands keep the case file small).
type Cmd struct {
	Pre  string `json:"pre,omitempty"`
	Unit string `json:"unit"`
	Rep  int    `json:"rep"`
	Pad  int    `json:"pad,omitempty"`
	Post string `json:"post,omitempty"`
}

func (c Cmd) Text() string {
	rep := c.Rep
	if rep < 1 {
		rep = 1
	}
	return c.Pre + strings.Repeat(c.Unit, rep) + strings.Repeat("x", c.Pad) + c.Post
}

// Session is one shell session on the history file.
type Session struct {
	Cmds []Cmd `json:"cmds"`
	// Torn: the session crashes while writing its last command; that write
	// is cut at byte Offset (>= 0: Offset mod length; < 0: length+Offset, so
	// -1 = "only the newline is missing").
	Torn   bool `json:"torn,omitempty"`
	Offset int  `json:"offset,omitempty"`
}

type Case struct {
	Sessions []Session `json:"sessions"`
	// Sweep is the index of a torn session whose last write is cut at every
	// byte offset in turn (all offsets when the write is <= 2 KiB, otherwise
	// the first and last 256 plus 1536 evenly spaced ones); -1 = none.
	Sweep int `json:"sweep"`
}

// ---------------------------------------------------------------------------
// generator

var wsGen = rapid.SampledFrom([]string{"", "", "", " ", "  ", "\t", "\n", " \n", "\r\n", " ", "  "})

var unitGen = gen.HostileString(gen.StrOpts{MaxParts: 6, Newlines: true, Control: true, NUL: true,
	ExtraToks: []string{"out hello", "echo \"a b\"", "<>&", " ", "\\u0041", "\"}", "{\"block\":\"x\"}", "\\", "\"", "ls -l | grep foo\n", "日本語", "é"}})

// lineOverhead is the typical size of the JSON wrapper around the block:
// {"datetime":"2026-09-21T23:13:03.398123456Z","block":…}
const lineOverhead = 13 + 30 + 10 + 1

func jsonLen(s string) int {
	b, _ := json.Marshal(s)
	return len(b)
}

func genCmd(t *rapid.T, small bool) Cmd {
	c := Cmd{Rep: 1}
	c.Pre = wsGen.Draw(t, "pre")
	c.Post = wsGen.Draw(t, "post")
	c.Unit = unitGen.Draw(t, "unit")
	if !utf8.ValidString(c.Unit) {
		c.Unit = strings.ToValidUTF8(c.Unit, "?")
	}
	if strings.TrimSpace(c.Unit) == "" && rapid.IntRange(0, 3).Draw(t, "keepblank") != 0 {
		c.Unit += "cmd"
	}
	size := rapid.SampledFrom([]string{"s", "s", "s", "s", "s", "m", "m", "b", "l"}).Draw(t, "size")
	if small && (size == "b" || size == "l") {
		size = "m"
	}
	unitLen := len(c.Unit)
	if unitLen == 0 {
		unitLen = 1
	}
	switch size {
	case "m":
		target := rapid.IntRange(100, 1900).Draw(t, "len")
		if rapid.Bool().Draw(t, "byrep") && len(c.Unit) > 0 {
			c.Rep = target/unitLen + 1
		} else {
			c.Pad = target
		}
	case "b": // the JSON line is within a few bytes of 64 KiB
		if len(c.Unit) > 0 && rapid.Bool().Draw(t, "byrep") {
			c.Rep = rapid.IntRange(1, 30000/unitLen+1).Draw(t, "rep")
		}
		delta := rapid.IntRange(-24, 24).Draw(t, "delta")
		have := jsonLen(strings.TrimSpace(Cmd{Pre: c.Pre, Unit: c.Unit, Rep: c.Rep, Post: c.Post}.Text())) + lineOverhead
		c.Pad = 65536 + delta - have
		if c.Pad < 0 {
			c.Pad = 0
		}
	case "l":
		target := rapid.IntRange(66000, 200*1024).Draw(t, "len")
		if rapid.Bool().Draw(t, "byrep") && len(c.Unit) > 0 {
			c.Rep = target/unitLen + 1
		} else {
			c.Pad = target
		}
	}
	return c
}

func gen_(t *rapid.T) Case {
	c := Case{Sweep: -1}
	sweep := rapid.IntRange(0, 5).Draw(t, "sweep") == 0
	ns := rapid.IntRange(1, 4).Draw(t, "sessions")
	budget := 20
	var prev *Cmd
	for i := 0; i < ns; i++ {
		var s Session
		max := 8
		if sweep {
			max = 3
		}
		if max > budget {
			max = budget
		}
		n := rapid.IntRange(0, max).Draw(t, "cmds")
		if i == 0 && n == 0 {
			n = 1
		}
		budget -= n
		for k := 0; k < n; k++ {
			var cmd Cmd
			if prev != nil && rapid.IntRange(0, 5).Draw(t, "dup") == 0 {
				cmd = *prev
				if rapid.Bool().Draw(t, "dupws") {
					cmd.Pre, cmd.Post = cmd.Post, cmd.Pre // same command after trimming (mostly)
				}
			} else {
				cmd = genCmd(t, sweep)
			}
			s.Cmds = append(s.Cmds, cmd)
			prev = &s.Cmds[len(s.Cmds)-1]
		}
		if n > 0 && rapid.IntRange(0, 2).Draw(t, "torn") == 0 {
			s.Torn = true
			switch rapid.IntRange(0, 5).Draw(t, "offkind") {
			case 0:
				s.Offset = -1
			case 1:
				s.Offset = -rapid.IntRange(1, 12).Draw(t, "fromend")
			case 2:
				s.Offset = rapid.IntRange(0, 60).Draw(t, "fromstart")
			default:
				s.Offset = rapid.IntRange(0, 1<<18).Draw(t, "offset")
			}
		}
		c.Sessions = append(c.Sessions, s)
	}
	if sweep {
		// sweep the first torn session; make one if there is none
		for i, s := range c.Sessions {
			if s.Torn {
				c.Sweep = i
				break
			}
		}
		if c.Sweep < 0 {
			i := rapid.IntRange(0, len(c.Sessions)-1).Draw(t, "sweepsession")
			if len(c.Sessions[i].Cmds) == 0 {
				c.Sessions[i].Cmds = []Cmd{genCmd(t, true)}
			}
			c.Sessions[i].Torn = true
			c.Sweep = i
		}
		if c.Sweep == len(c.Sessions)-1 {
			// something must be written after the crash
			c.Sessions = append(c.Sessions, Session{Cmds: []Cmd{genCmd(t, true), genCmd(t, true)}})
		}
	}
	return c
}

// ---------------------------------------------------------------------------
// replay

// wrec is one write as it went to the file.
type wrec struct {
	block string // trimmed text
	wlen  int    // bytes the complete write appended (JSON line + newline)
	kept  int    // bytes of it that stayed in the file (== wlen unless torn)
	lead  int    // 1 when the write began with a newline of its own (a writer that repairs a torn line)
}

type run struct {
	file   string
	writes []wrec
}

var fileCounter int64

func fileSize(path string) int64 {
	st, err := os.Stat(path)
	if err != nil {
		return 0
	}
	return st.Size()
}

func firstByteAt(path string, off int64) byte {
	f, err := os.Open(path)
	if err != nil {
		return 0
	}
	defer f.Close()
	var b [1]byte
	if _, err := f.ReadAt(b[:], off); err != nil {
		return 0
	}
	return b[0]
}

func collapse(in []string) []string {
	var out []string
	for _, s := range in {
		if len(out) > 0 && out[len(out)-1] == s {
			continue
		}
		out = append(out, s)
	}
	return out
}

func equal(a, b []string) bool {
	if len(a) != len(b) {
		return false
	}
	for i := range a {
		if a[i] != b[i] {
			return false
		}
	}
	return true
}

// scanLimit is bufio.MaxScanTokenSize: the line reader of the unchanged tree
// gives up at the first line of that many bytes.
const scanLimit = 64 * 1024

// predicted returns what a reader yields under the two defect mechanisms this
// check has found in the unchanged tree (used only to NAME a violation, never
// to accept a result):
//
//	glue : a write that follows a torn write continues the torn line
//	limit: reading stops at the first physical line of >= 64 KiB
func (r *run) predicted(glue, limit bool) []string {
	var out []string
	type frag struct {
		w        wrec
		complete bool // the whole JSON object is in the file
		newline  bool
	}
	var line []frag
	lineLen := 0
	flush := func() bool { // returns false when reading stops
		defer func() { line, lineLen = nil, 0 }()
		if len(line) == 0 {
			return true
		}
		if limit && lineLen >= scanLimit {
			return false
		}
		if len(line) == 1 && line[0].complete && line[0].w.block != "" {
			out = append(out, line[0].w.block)
		}
		return true
	}
	for _, w := range r.writes {
		k := w.kept
		if k == 0 {
			continue
		}
		if w.lead == 1 {
			if !flush() { // the writer's own newline ends the torn line
				return out
			}
			k--
			if k == 0 {
				continue
			}
		}
		body := w.wlen - w.lead - 1
		f := frag{w: w, complete: k >= body, newline: k == body+1}
		line = append(line, f)
		lineLen += k
		if f.newline {
			lineLen-- // the newline is not part of the token
			if !flush() {
				return out
			}
		} else if !glue {
			if !flush() {
				return out
			}
		}
	}
	flush()
	return out
}

// verify loads the file in a fresh session and compares it with the model.
func (r *run) verify(when string) *core.Violation {
	h, err := history.New(r.file)
	if err != nil {
		return core.Violf("load-error", "%s: history.New: %v", when, err)
	}
	var loaded []string
	for i := 0; i < h.Len(); i++ {
		s, err := h.GetLine(i)
		if err != nil {
			return core.Violf("getline-error", "%s: GetLine(%d) with Len()=%d: %v", when, i, h.Len(), err)
		}
		loaded = append(loaded, s)
	}
	got := collapse(loaded)

	// accepted: every subset of the torn entries present
	var torn []int
	for i, w := range r.writes {
		if w.kept != w.wlen && w.block != "" {
			torn = append(torn, i)
		}
	}
	if len(torn) > 10 {
		return core.Violf("bad-case", "too many crash points (%d)", len(torn))
	}
	for mask := 0; mask < 1<<len(torn); mask++ {
		var want []string
		ti := 0
		for i, w := range r.writes {
			if w.block == "" {
				continue
			}
			if ti < len(torn) && torn[ti] == i {
				present := mask&(1<<ti) != 0
				ti++
				if !present {
					continue
				}
			}
			want = append(want, w.block)
		}
		if equal(got, collapse(want)) {
			return nil
		}
	}

	// not acceptable: name the failure
	kind := "mismatch"
	byLimit := equal(got, collapse(r.predicted(false, true)))
	byGlue := equal(got, collapse(r.predicted(true, false)))
	switch {
	case byLimit && byGlue:
		kind = "long-entry-or-torn-write" // either mechanism alone explains it
	case byLimit:
		kind = "long-entry-hides-later"
	case byGlue:
		kind = "torn-write-swallows-next"
	case equal(got, collapse(r.predicted(true, true))):
		kind = "long-entry+torn-write"
	}
	return core.Violf(kind, "%s: a fresh session reads %d entries (collapsed %d)\nwritten : %s\nread    : %s",
		when, len(loaded), len(got), r.describeWrites(), describe(got))
}

func short(s string) string {
	if len(s) > 40 {
		return fmt.Sprintf("%q…(%d bytes)", s[:24], len(s))
	}
	return fmt.Sprintf("%q", s)
}

func describe(l []string) string {
	var p []string
	for _, s := range l {
		p = append(p, short(s))
	}
	return "[" + strings.Join(p, ", ") + "]"
}

func (r *run) describeWrites() string {
	var p []string
	for _, w := range r.writes {
		s := short(w.block)
		if w.kept != w.wlen {
			s += fmt.Sprintf("<TORN at %d of %d>", w.kept, w.wlen)
		} else if w.wlen-w.lead-1 >= scanLimit {
			s += fmt.Sprintf("<line %d bytes>", w.wlen-w.lead-1)
		}
		p = append(p, s)
	}
	return "[" + strings.Join(p, ", ") + "]"
}

// session runs session i. With keepWhole the torn write is left complete (the
// caller cuts it itself: sweep). It returns the file size before the torn write
// and the full length of that write (0,0 when the session is not torn).
func (r *run) session(c Case, i int, keepWhole bool) (*core.Violation, int64, int) {
	s := c.Sessions[i]
	if v := r.verify(fmt.Sprintf("start of session %d", i+1)); v != nil {
		return v, 0, 0
	}
	h, _ := history.New(r.file)
	var size0 int64
	var wlen int
	for k, cmd := range s.Cmds {
		text := cmd.Text()
		before := fileSize(r.file)
		if _, err := h.Write(text); err != nil {
			return core.Violf("write-error", "session %d: Write(%s): %v", i+1, short(text), err), 0, 0
		}
		n := int(fileSize(r.file) - before)
		w := wrec{block: strings.TrimSpace(text), wlen: n, kept: n}
		if n > 0 && firstByteAt(r.file, before) == '\n' {
			w.lead = 1
		}
		if s.Torn && k == len(s.Cmds)-1 && n > 0 {
			size0, wlen = before, n
			if keepWhole {
				r.writes = append(r.writes, w)
				break
			}
			o := s.Offset
			if o < 0 {
				o = n + o
				if o < 0 {
					o = 0
				}
			} else {
				o = o % n
			}
			if err := os.Truncate(r.file, before+int64(o)); err != nil {
				return core.Violf("harness", "truncate: %v", err), 0, 0
			}
			w.kept = o
		}
		r.writes = append(r.writes, w)
	}
	return nil, size0, wlen
}

func sweepOffsets(n int) []int {
	var o []int
	if n <= 2048 {
		for i := 0; i < n; i++ {
			o = append(o, i)
		}
		return o
	}
	for i := 0; i < 256; i++ {
		o = append(o, i)
	}
	for k := 0; k < 1536; k++ {
		o = append(o, 256+(n-512)*k/1536)
	}
	for i := n - 256; i < n; i++ {
		o = append(o, i)
	}
	return o
}

func check(c Case) *core.Violation {
	if len(c.Sessions) == 0 {
		return nil
	}
	for _, s := range c.Sessions {
		for _, cmd := range s.Cmds {
			if !utf8.ValidString(cmd.Text()) {
				return core.Violf("bad-case", "command is not valid UTF-8")
			}
		}
	}
	r := &run{file: filepath.Join(workDir, fmt.Sprintf("hist-%d.json", atomic.AddInt64(&fileCounter, 1)))}
	os.Remove(r.file)
	defer os.Remove(r.file)

	sweep := c.Sweep
	if sweep >= len(c.Sessions) || sweep < 0 || !c.Sessions[sweep].Torn || len(c.Sessions[sweep].Cmds) == 0 {
		sweep = -1
	}
	last := len(c.Sessions)
	if sweep >= 0 {
		last = sweep + 1
	}
	var size0 int64
	var wlen int
	for i := 0; i < last; i++ {
		v, s0, wl := r.session(c, i, i == sweep)
		if v != nil {
			return v
		}
		size0, wlen = s0, wl
	}
	if sweep < 0 {
		return r.verify("after the last session")
	}

	// sweep: the file as it was just before the truncation is rebuilt for every offset
	if wlen == 0 {
		return nil
	}
	tornIdx := len(r.writes) - 1
	snapWrites := append([]wrec{}, r.writes...)
	full, err := os.ReadFile(r.file)
	if err != nil || int64(len(full)) != size0+int64(wlen) {
		return core.Violf("harness", "sweep snapshot: %v (size %d, want %d)", err, len(full), size0+int64(wlen))
	}
	offsets := sweepOffsets(wlen)
	core.Count("sweep_offsets", len(offsets))
	for _, o := range offsets {
		if err := os.WriteFile(r.file, full[:int(size0)+o], 0o600); err != nil {
			return core.Violf("harness", "sweep write: %v", err)
		}
		r.writes = append(r.writes[:0], snapWrites...)
		r.writes[tornIdx].kept = o
		for i := sweep + 1; i < len(c.Sessions); i++ {
			if v, _, _ := r.session(c, i, false); v != nil {
				v.Msg = fmt.Sprintf("[sweep: session %d's last write cut at byte %d of %d] ", sweep+1, o, wlen) + v.Msg
				return v
			}
		}
		if v := r.verify("after the last session"); v != nil {
			v.Msg = fmt.Sprintf("[sweep: session %d's last write cut at byte %d of %d] ", sweep+1, o, wlen) + v.Msg
			return v
		}
	}
	return nil
}

// ---------------------------------------------------------------------------
// classification and known findings

func features(c Case) (sessions, torn, long, rich, afterTorn int, sweep bool) {
	sessions = len(c.Sessions)
	seenTorn := false
	for i, s := range c.Sessions {
		for _, cmd := range s.Cmds {
			if seenTorn {
				afterTorn++
			}
			t := strings.TrimSpace(cmd.Text())
			// the JSON line is 24 + len(timestamp) + jsonLen bytes and an RFC 3339
			// timestamp has 20..35 bytes: count every entry that CAN reach 64 KiB
			if jsonLen(t)+24+35 >= scanLimit {
				long++
			}
			if strings.Contains(t, "\n") || !isASCII(t) {
				rich++
			}
		}
		if s.Torn && len(s.Cmds) > 0 {
			torn++
			seenTorn = true
			if c.Sweep == i {
				sweep = true
			}
		}
	}
	return
}

func isASCII(s string) bool {
	for i := 0; i < len(s); i++ {
		if s[i] >= 0x80 {
			return false
		}
	}
	return true
}

func classify(c Case) core.Class {
	sessions, torn, long, rich, _, sweep := features(c)
	cl := core.Class{}
	cl.NonTrivial = sessions >= 2 && (torn > 0 || long > 0 || rich > 0)
	var l []string
	if sessions >= 2 {
		l = append(l, "multi-session")
	} else {
		l = append(l, "one-session")
	}
	if sweep {
		l = append(l, "crash-sweep")
	} else if torn > 0 {
		l = append(l, "crash")
	}
	if long > 0 {
		l = append(l, "entry>=64KiB")
	}
	if rich > 0 {
		l = append(l, "multiline/non-ascii")
	}
	cl.Label = strings.Join(l, ",")
	return cl
}

// known findings (both confirmed against the unchanged tree, see known/C29):
//
//	C29-long-entry-hides-later   : openHist's bufio.Scanner stops at the first
//	                               line >= 64 KiB; every later entry is invisible
//	C29-torn-write-swallows-next : Write appends without looking at the end of
//	                               the file; after a torn write the next entry
//	                               continues the partial line and is lost
func known(c Case, v *core.Violation) string {
	_, torn, long, _, afterTorn, _ := features(c)
	switch v.Kind {
	case "long-entry-hides-later":
		if long > 0 {
			return "C29-long-entry-hides-later"
		}
	case "torn-write-swallows-next":
		if torn > 0 && afterTorn > 0 {
			return "C29-torn-write-swallows-next"
		}
	case "long-entry-or-torn-write":
		// e.g. a torn 70 KiB line followed by one more entry: attributed to
		// whichever of the two findings is still open
		if torn > 0 && afterTorn > 0 {
			if core.IsKnownOpen("C29-torn-write-swallows-next") {
				return "C29-torn-write-swallows-next"
			}
			return "C29-long-entry-hides-later"
		}
	case "long-entry+torn-write":
		// both mechanisms at once (the over-long line may itself be the result
		// of a torn line glued to the next entry); counted under the reader defect
		if torn > 0 && afterTorn > 0 {
			return "C29-long-entry-hides-later"
		}
	}
	return ""
}

var spec = core.Spec[Case]{
	ID: "C29", Gen: gen_, Check: check, Classify: classify, Known: known,
	Sample: func(c Case) any {
		var out []string
		for i, s := range c.Sessions {
			var p []string
			for _, cmd := range s.Cmds {
				p = append(p, short(cmd.Text()))
			}
			line := fmt.Sprintf("session %d: %s", i+1, strings.Join(p, " ; "))
			if s.Torn {
				if c.Sweep == i {
					line += "  <crash: last write cut at every offset>"
				} else {
					line += fmt.Sprintf("  <crash: last write cut at %d>", s.Offset)
				}
			}
			out = append(out, line)
		}
		return out
	},
}

func TestProp(t *testing.T)   { defer scratch()(); core.RunProp(t, spec) }
func TestReplay(t *testing.T) { defer scratch()(); core.Replay(t, spec) }
