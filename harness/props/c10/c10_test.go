// C10 — escaped command lines parse back to the original argv.
//
// Domain: an array of 0–6 arbitrary strings (valid UTF-8, punctuation,
// whitespace, tab/CR/LF, non-ASCII; no other control characters) after a
// plain command name.
//
// Two escapers are exercised:
//
//   - `murex --execute cmd arg...`: main.go:argvToCmdLineStr (copy the vector,
//     utils/escape.CommandLine, join with a blank). The function lives in
//     package main, so the harness mirrors its three lines in-process (the
//     mirror is compared with the text of main.go at start-up) and, on a
//     sample, runs the real binary built from the tree under test.
//   - `esccli`: called as a function (the registered Go builtin is invoked
//     with the array as its parameters) and as a method (`<stdin> -> esccli`
//     with the array as JSON on stdin).
//
// Oracle: the escaped text, parsed by the real block parser, is exactly one
// command without pipe/logic properties whose parameters (real statement
// parser, exec mode) are the original strings; executed, the command receives
// exactly those strings and nothing else runs (sentinel builtin / sentinel
// file).
//
// Known findings (one per character class the escaping table misses) are
// matched by known(): a failure belongs to a class only when the case contains
// that class's trigger and the failure disappears once the known triggers are
// neutralised. While a class is listed as open, three cases in four are
// generated without its trigger so the search continues behind it.
package c10

import (
	"bytes"
	"context"
	"crypto/sha256"
	"encoding/hex"
	"encoding/json"
	"fmt"
	"os"
	"os/exec"
	"path/filepath"
	"regexp"
	"runtime"
	"runtime/debug"
	"strings"
	"sync"
	"sync/atomic"
	"syscall"
	"testing"
	"time"

	"github.com/lmorg/murex/lang"
	"github.com/lmorg/murex/lang/types"
	"github.com/lmorg/murex/utils/escape"
	"pgregory.net/rapid"
	"verif/harness/core"
	hgen "verif/harness/gen"
)

// ---------------------------------------------------------------------------
// known finding classes

type class struct {
	id string
	// trigger: argument number i (0 = first after the command name) sets the class off
	trigger func(i int, arg string) bool
	// neutral rewrites the argument so that it no longer contains the trigger
	neutral func(i int, arg string) string
}

func repl(old, new string) func(int, string) string {
	return func(_ int, s string) string { return strings.ReplaceAll(s, old, new) }
}

// assignPrefix: operators that turn `cmd <op>...` into an assignment expression
var assignPrefix = []string{"=", "+=", "-=", "/="}

func startsAssign(a string) bool {
	for _, p := range assignPrefix {
		if strings.HasPrefix(a, p) {
			return true
		}
	}
	return false
}

var classes = []class{
	{"C10-empty-argument-dropped", func(_ int, a string) bool { return a == "" }, func(_ int, a string) string {
		if a == "" {
			return "x"
		}
		return a
	}},
	{"C10-semicolon-not-escaped", func(_ int, a string) bool { return strings.Contains(a, ";") }, repl(";", "x")},
	{"C10-double-ampersand-not-escaped", func(_ int, a string) bool { return strings.Contains(a, "&&") }, func(_ int, a string) string {
		for strings.Contains(a, "&&") {
			a = strings.ReplaceAll(a, "&&", "&x")
		}
		return a
	}},
	{"C10-tilde-not-escaped", func(_ int, a string) bool { return strings.Contains(a, "~") }, repl("~", "x")},
	{"C10-curly-brace-not-escaped", func(_ int, a string) bool { return strings.ContainsAny(a, "{}") }, func(_ int, a string) string {
		return strings.NewReplacer("{", "x", "}", "x").Replace(a)
	}},
	{"C10-percent-bracket-not-escaped", func(_ int, a string) bool { return strings.Contains(a, "%[") }, repl("%[", "%x")},
	{"C10-backtick-not-escaped", func(_ int, a string) bool { return strings.Contains(a, "`") }, repl("`", "x")},
	// `cmd =x`, `cmd += 1`: the first argument starts with an assignment
	// operator and the whole line is taken as an expression
	{"C10-assignment-operator-not-escaped", func(i int, a string) bool { return i == 0 && startsAssign(a) }, func(i int, a string) string {
		if i == 0 && startsAssign(a) {
			return "x" + a
		}
		return a
	}},
}

func neutralise(args []string, only int) []string {
	out := make([]string, len(args))
	for i, a := range args {
		// fixed point: neutralising one class must not create another trigger
		for pass := 0; pass < 4; pass++ {
			for ci, cl := range classes {
				if only >= 0 && ci != only {
					continue
				}
				if !core.IsKnownOpen(cl.id) {
					continue
				}
				a = cl.neutral(i, a)
			}
		}
		out[i] = a
	}
	return out
}

// ---------------------------------------------------------------------------

var (
	injected   int32  // set by the c10inj builtin
	mirrorOK   = true // main.go:argvToCmdLineStr still has the mirrored body
	mirrorNote string
	repoDir    = "/repo"
	binPath    string // real murex binary ("" = unavailable)
	binWork    string
	helper     string // external argv echo (coreutils printf)
)

// The two bodies of main.go:argvToCmdLineStr the harness knows how to mirror.
//
//	A (original): escape.CommandLine(cmdLine)      -> called directly
//	B (repaired): escape.CommandLineArgs(cmdLine)  -> that function does not exist
//	   in the original tree, so it cannot be referenced here; `esccli` as a
//	   function is the same three steps (escape the slice with that function,
//	   join with a blank) plus a newline, so the mirror goes through the
//	   registered esccli builtin after checking that cmdEscapeCli calls the
//	   same function.
const (
	bodyA = `cmdLine := make([]string, len(argv))
	copy(cmdLine, argv)
	escape.CommandLine(cmdLine)
	return strings.Join(cmdLine, " ")`
	bodyB = `cmdLine := make([]string, len(argv))
	copy(cmdLine, argv)
	escape.CommandLineArgs(cmdLine)
	return strings.Join(cmdLine, " ")`
)

var mirrorMode = "A"

// argvToCmdLineStr mirrors main.go.
func argvToCmdLineStr(argv []string) (string, error) {
	if mirrorMode == "B" {
		out, err := esccliFn(argv)
		if err != nil {
			return "", err
		}
		return strings.TrimSuffix(out, "\n"), nil
	}
	cmdLine := make([]string, len(argv))
	copy(cmdLine, argv)
	escape.CommandLine(cmdLine)
	return strings.Join(cmdLine, " "), nil
}

var rxFn = regexp.MustCompile(`(?s)func argvToCmdLineStr\(argv \[\]string\) string \{\n\t(.*?)\n\}`)

func checkMirror() {
	b, err := os.ReadFile(filepath.Join(repoDir, "main.go"))
	if err != nil {
		mirrorNote = "cannot read main.go: " + err.Error()
		return
	}
	m := rxFn.FindSubmatch(b)
	switch {
	case m != nil && string(m[1]) == bodyA:
		mirrorMode = "A"
	case m != nil && string(m[1]) == bodyB:
		cli, _ := os.ReadFile(filepath.Join(repoDir, "builtins/core/escape/escape.go"))
		if bytes.Contains(cli, []byte("\tescape.CommandLineArgs(s)\n\n\t_, err := p.Stdout.Writeln([]byte(strings.Join(s, \" \")))")) {
			mirrorMode = "B"
			mirrorNote = "main.go:argvToCmdLineStr calls escape.CommandLineArgs; mirrored through the esccli builtin, which calls the same function"
			return
		}
		fallthrough
	default:
		mirrorOK = false
		mirrorNote = "main.go:argvToCmdLineStr has a body the harness cannot mirror; the --execute path is checked through the real binary only"
	}
}

// buildBinary builds (once per tree state, shared by all shards through a
// lock file) the real murex binary of the tree under test.
func buildBinary() {
	if os.Getenv("C10_NO_BINARY") != "" {
		return
	}
	base := os.Getenv("VERIF_WORK")
	if base == "" {
		base = "/verif/.work"
	}
	head, _ := exec.Command("git", "-C", repoDir, "rev-parse", "HEAD").Output()
	diff, _ := exec.Command("git", "-C", repoDir, "diff", "HEAD").Output()
	h := sha256.New()
	h.Write([]byte(repoDir))
	h.Write(head)
	h.Write(diff)
	key := hex.EncodeToString(h.Sum(nil))[:16]
	dir := filepath.Join(base, "C10-bin")
	if os.MkdirAll(dir, 0o755) != nil {
		return
	}
	lock, err := os.OpenFile(filepath.Join(dir, "lock"), os.O_CREATE|os.O_RDWR, 0o644)
	if err != nil {
		return
	}
	defer lock.Close()
	if syscall.Flock(int(lock.Fd()), syscall.LOCK_EX) != nil {
		return
	}
	defer syscall.Flock(int(lock.Fd()), syscall.LOCK_UN)
	out := filepath.Join(dir, "murex-"+key)
	if st, err := os.Stat(out); err == nil && st.Size() > 0 {
		binPath = out
		return
	}
	// drop binaries of older tree states
	if old, _ := filepath.Glob(filepath.Join(dir, "murex-*")); len(old) > 3 {
		for _, o := range old {
			os.Remove(o)
		}
	}
	ctx, cancel := context.WithTimeout(context.Background(), 8*time.Minute)
	defer cancel()
	cmd := exec.CommandContext(ctx, "go", "build", "-o", out+".tmp", ".")
	cmd.Dir = repoDir
	env := []string{}
	for _, e := range os.Environ() {
		if strings.HasPrefix(e, "GOFLAGS=") || strings.HasPrefix(e, "GOTOOLCHAIN=") || strings.HasPrefix(e, "GOSUMDB=") {
			continue
		}
		env = append(env, e)
	}
	cmd.Env = append(env, "GOPROXY=off")
	if b, err := cmd.CombinedOutput(); err != nil {
		core.Note("binary_build_failed", strings.TrimSpace(string(b)+" "+err.Error()))
		os.Remove(out + ".tmp")
		return
	}
	if os.Rename(out+".tmp", out) == nil {
		binPath = out
	}
}

var binOnce sync.Once

// needBinary builds the real binary on first use (exec-bin cases only).
func needBinary() {
	binOnce.Do(func() {
		if helper != "" {
			buildBinary()
		}
		if binPath != "" {
			// the binary runs with this directory as cwd: `./inj` is what
			// injected text would run, C10INJECTED is what it leaves behind
			binWork = core.WorkDir("C10")
			os.WriteFile(filepath.Join(binWork, "inj"), []byte("#!/bin/sh\n: > C10INJECTED\n"), 0o755)
		} else {
			core.Note("binary", "real murex binary not available: exec-bin cases skipped")
		}
	})
}

// memoryWatchdog ends the process when the heap passes 6 GiB: text that sends
// the parser into an allocating loop would otherwise take the machine down
// before any time budget is hit. The journal names the case; the driver then
// replays it in a fresh process.
func memoryWatchdog() {
	var ms runtime.MemStats
	for {
		time.Sleep(500 * time.Millisecond)
		runtime.ReadMemStats(&ms)
		if ms.HeapAlloc > 6<<30 {
			fmt.Fprintln(os.Stderr, "verif C10: heap above 6 GiB, giving up on the current case (see journal)")
			os.Exit(3)
		}
	}
}

func TestMain(m *testing.M) {
	core.InitMurex()
	go memoryWatchdog()
	if d := os.Getenv("VERIF_REPO"); d != "" {
		repoDir = d
	}
	checkMirror()
	if mirrorNote != "" {
		core.Note("execute_mirror", mirrorNote)
	}
	for _, p := range []string{"/usr/bin/printf", "/bin/printf"} {
		if st, err := os.Stat(p); err == nil && !st.IsDir() {
			helper = p
			break
		}
	}
	lang.DefineFunction("c10args", func(p *lang.Process) error {
		b, _ := json.Marshal(p.Parameters.StringArray())
		p.Stdout.SetDataType(types.Json)
		_, err := p.Stdout.Write(append(b, '\n'))
		return err
	}, types.Json)
	lang.DefineFunction("inj", func(p *lang.Process) error {
		atomic.StoreInt32(&injected, 1)
		return nil
	}, types.Null)
	lang.DefineFunction("./inj", func(p *lang.Process) error {
		atomic.StoreInt32(&injected, 1)
		return nil
	}, types.Null)
	core.MainWith(m, "C10", func() { core.CleanWorkDir("C10") })
}

// ---------------------------------------------------------------------------

type Case struct {
	Args []string `json:"args"`
	// Mode: exec-parse exec-run exec-bin (the --execute escaper at parser
	// level, executed in-process, through the real binary); cli-fn cli-method
	// (esccli as function / method).
	Mode string `json:"mode"`
	// Run: for the esccli modes, also execute the re-parsed line.
	Run bool `json:"run"`
}

var payloads = []string{
	";inj", ";./inj", "&&inj", "&&./inj", "||inj", "|inj", "\ninj\n", "\n./inj", "->inj", "=>inj", "`inj`", "${inj}", "@{inj}", "$(inj)", "{inj}",
	"a;b", "x&&y", "x&y", "&", "~", "~root", "a~b", "~>", "%[1]", "%[", "%{a:1}", "%{", "%(a)", "%(", "{}", "{a}", "{", "}", "`", "`a`", "=>", "->", "=", "==", ":", "::",
	"-", "--", "-x", "--flag=v", "[", "]", "[1]", "[[a]]", "!", "!!", "^", ",", ".", "..", "/", "/#", "#/", "+", "_", "%", "%%", "<in>", "<!out>", "<stdin>", ">", ">>", "|>",
	"\\", "\\\\", "\\s", "\\t", "\\n", "\\ ", " ", "  ", "\t", "\n", "\r\n", "\r", "a b", " a", "a ", "'", "\"", "'a b'", "\"a b\"", "(", ")", "(a b)", "$x", "@x", "$", "@", "*", "?", "*.go",
	"é", "日本", "🙂", "ß", " ", " ", "​",
	// assignment operators and odd runs of operator characters
	"+=", "-=", "/=", "*=", ":=", "+=1", "-=1", "/=2", "++", "==", "&&&", "&&&&&", "&&&inj", "a&&&b", "|||", ";;", "===",
}

// operands that make `cmd <op> <operand>` a valid expression
var operands = []string{"1", "2 + 3", "1.5", "x", "'s'", "$v", "true"}

var argGen = hgen.HostileString(hgen.StrOpts{MaxParts: 6, Newlines: true, ExtraToks: payloads})

// genBin generates cases for the real binary only (TestPropBin: a start of the
// binary costs seconds, so it has its own small case count).
func genBin(t *rapid.T) Case {
	c := gen(t)
	c.Mode = "exec-bin"
	for i, a := range c.Args {
		c.Args[i] = strings.ReplaceAll(a, "\x00", "")
	}
	return c
}

func gen(t *rapid.T) Case {
	c := Case{}
	c.Mode = rapid.SampledFrom([]string{"exec-parse", "exec-parse", "exec-parse", "exec-run", "exec-run", "cli-fn", "cli-fn", "cli-method"}).Draw(t, "mode")
	c.Run = rapid.Bool().Draw(t, "run")
	n := rapid.IntRange(0, 6).Draw(t, "n")
	behind := rapid.IntRange(0, 3).Draw(t, "behind") != 0
	for i := 0; i < n; i++ {
		a := strings.ToValidUTF8(argGen.Draw(t, "arg"), "")
		c.Args = append(c.Args, a)
	}
	// `cmd += 1`: an assignment-shaped argument vector (the whole line would
	// be taken as an expression if the operator were not escaped)
	if rapid.IntRange(0, 7).Draw(t, "assignshape") == 0 {
		op := rapid.SampledFrom([]string{"=", "+=", "-=", "/=", "*=", ":=", "++", "--"}).Draw(t, "assignop")
		operand := rapid.SampledFrom(operands).Draw(t, "operand")
		if rapid.Bool().Draw(t, "glued") {
			c.Args = append([]string{op + operand}, c.Args...)
		} else {
			c.Args = append([]string{op, operand}, c.Args...)
		}
		if len(c.Args) > 6 {
			c.Args = c.Args[:6]
		}
	}
	if behind {
		// search behind the open known findings: no trigger of an open class
		nn := neutralise(c.Args, -1)
		for i := range nn {
			if nn[i] != c.Args[i] {
				core.Count("neutralised_args", 1)
			}
		}
		c.Args = nn
	}
	return c
}

// ---------------------------------------------------------------------------

func sameVec(a, b []string) bool {
	if len(a) != len(b) {
		return false
	}
	for i := range a {
		if a[i] != b[i] {
			return false
		}
	}
	return true
}

func wasInjected() bool { return atomic.SwapInt32(&injected, 0) != 0 }

// reparse checks that `line` is one plain command whose parameters are want.
func reparse(line string, wantName string, want []string, run bool, what string) *core.Violation {
	wasInjected()
	blk, err := lang.ParseBlock([]rune(line))
	if err != nil {
		return core.Violf("parse-error", "%s\nescaped line: %q\nblock parser: %v", what, line, err)
	}
	if len(*blk) != 1 {
		var names []string
		for _, f := range *blk {
			names = append(names, string(f.Command))
		}
		return core.Violf("commands", "%s\nescaped line: %q\nparses as %d commands %q, want exactly one", what, line, len(*blk), names)
	}
	fn := (*blk)[0]
	if string(fn.Command) != wantName {
		return core.Violf("commands", "%s\nescaped line: %q\nthe block parser takes the line as command %q (an expression), want %q", what, line, string(fn.Command), wantName)
	}
	if fn.Properties.FollowOnFn() || fn.Properties.PipeOut() || fn.Properties.PipeErr() || fn.Properties.LogicAnd() || fn.Properties.LogicOr() || fn.Properties.Method() {
		return core.Violf("commands", "%s\nescaped line: %q\nthe command has pipe/logic properties %s", what, line, fn.Properties.Decompose())
	}
	fork := lang.ShellProcess.Fork(lang.F_FUNCTION | lang.F_NEW_MODULE | lang.F_NO_STDIN | lang.F_CREATE_STDOUT | lang.F_CREATE_STDERR)
	fork.Name.Set("verif")
	name, params, err := lang.ParseStatementParameters(fn.Raw, fork.Process)
	fork.Kill()
	if wasInjected() {
		return core.Violf("injected", "%s\nescaped line: %q\nparsing the parameters ran a command", what, line)
	}
	if err != nil {
		return core.Violf("parse-error", "%s\nescaped line: %q\nstatement parser: %v", what, line, err)
	}
	if name != wantName {
		return core.Violf("vector", "%s\nescaped line: %q\ncommand name %q, want %q", what, line, name, wantName)
	}
	if !sameVec(params, want) {
		return core.Violf("vector", "%s\nescaped line: %q\nwant parameters %q\ngot  parameters %q", what, line, want, params)
	}
	if !run {
		return nil
	}
	r := core.Run(line + "\n")
	if r.Hung {
		return core.Violf("hang", "%s\nescaped line: %q did not finish", what, line)
	}
	if wasInjected() {
		return core.Violf("injected", "%s\nescaped line: %q\nrunning it ran a second command", what, line)
	}
	if r.Err != nil || r.Exit != 0 || len(r.Stderr) != 0 {
		return core.Violf("run-error", "%s\nescaped line: %q\nexit=%d err=%v stderr=%q", what, line, r.Exit, r.Err, r.Stderr)
	}
	var got []string
	dec := json.NewDecoder(bytes.NewReader(r.Stdout))
	if err := dec.Decode(&got); err != nil || dec.More() {
		return core.Violf("vector", "%s\nescaped line: %q\nstdout %q is not one argument vector", what, line, r.Stdout)
	}
	if !sameVec(got, want) {
		return core.Violf("vector", "%s\nescaped line: %q\nwant arguments %q\ngot  arguments %q", what, line, want, got)
	}
	return nil
}

func esccliFn(array []string) (string, error) {
	fn := lang.GoFunctions["esccli"]
	if fn == nil {
		return "", fmt.Errorf("esccli is not registered")
	}
	fork := lang.ShellProcess.Fork(lang.F_FUNCTION | lang.F_NEW_MODULE | lang.F_NO_STDIN | lang.F_CREATE_STDOUT | lang.F_CREATE_STDERR)
	defer fork.Kill()
	fork.Name.Set("esccli")
	fork.IsMethod = false
	cp := append([]string{}, array...)
	fork.Parameters.DefineParsed(cp)
	if err := fn(fork.Process); err != nil {
		return "", err
	}
	fork.Stdout.Close()
	b, err := fork.Stdout.ReadAll()
	return string(b), err
}

// check converts a Go panic inside the code under test into a violation.
func check(c Case) (v *core.Violation) {
	defer func() {
		if r := recover(); r != nil {
			v = core.Violf("panic", "%s args=%q: panic: %v\n%s", c.Mode, c.Args, r, debug.Stack())
		}
	}()
	return check1(c)
}

func check1(c Case) *core.Violation {
	args := c.Args
	if args == nil {
		args = []string{}
	}
	for _, a := range args {
		if !validArg(a) {
			core.Count("out_of_domain_replay", 1)
			return nil
		}
	}
	what := fmt.Sprintf("%s args=%q", c.Mode, args)
	switch c.Mode {
	case "exec-parse", "exec-run":
		if !mirrorOK {
			core.Count("execute_mirror_stale_skipped", 1)
			return nil
		}
		line, err := argvToCmdLineStr(append([]string{"c10args"}, args...))
		if err != nil {
			return core.Violf("esccli-error", "%s\nmirror of argvToCmdLineStr failed: %v", what, err)
		}
		return reparse(line, "c10args", args, c.Mode == "exec-run", what)
	case "exec-bin":
		needBinary()
		if binPath == "" {
			core.Count("binary_unavailable_skipped", 1)
			return nil
		}
		return checkBinary(args, what)
	case "cli-fn", "cli-method":
		array := append([]string{"cmd0"}, args...)
		var out string
		if c.Mode == "cli-fn" {
			o, err := esccliFn(array)
			if err != nil {
				return core.Violf("esccli-error", "%s\nesccli failed: %v", what, err)
			}
			out = o
		} else {
			in, _ := json.Marshal(array)
			r := core.RunStdin("<stdin> -> esccli\n", in, types.Json)
			if r.Hung {
				return core.Violf("hang", "%s\n<stdin> -> esccli did not finish", what)
			}
			if r.Err != nil || r.Exit != 0 || len(r.Stderr) != 0 {
				return core.Violf("esccli-error", "%s\n<stdin> -> esccli failed: exit=%d err=%v stderr=%q", what, r.Exit, r.Err, r.Stderr)
			}
			out = string(r.Stdout)
		}
		if !strings.HasSuffix(out, "\n") {
			return core.Violf("esccli-error", "%s\nesccli output %q has no trailing newline", what, out)
		}
		out = out[:len(out)-1]
		// "parsing its output as parameters gives back the same array"
		return reparse("c10args "+out, "c10args", array, c.Run, what+"\nesccli output: "+fmt.Sprintf("%q", out))
	}
	return nil
}

func checkBinary(args []string, what string) *core.Violation {
	for _, a := range args {
		if strings.Contains(a, "\x00") {
			return nil
		}
	}
	os.Remove(filepath.Join(binWork, "C10INJECTED"))
	argv := append([]string{"--execute", helper, `%s\0`, "C10ARGV"}, args...)
	ctx, cancel := context.WithTimeout(context.Background(), 120*time.Second)
	defer cancel()
	cmd := exec.CommandContext(ctx, binPath, argv...)
	cmd.Dir = binWork
	var so, se bytes.Buffer
	cmd.Stdout, cmd.Stderr = &so, &se
	cmd.Stdin = nil
	err := cmd.Run()
	if ctx.Err() != nil {
		core.Count("binary_timeout_inconclusive", 1)
		return nil
	}
	_, statErr := os.Stat(filepath.Join(binWork, "C10INJECTED"))
	if statErr == nil {
		os.Remove(filepath.Join(binWork, "C10INJECTED"))
		return core.Violf("injected", "%s\nmurex --execute %q ran ./inj\nstdout=%q stderr=%q", what, argv[1:], so.String(), se.String())
	}
	out := so.String()
	want := "C10ARGV\x00"
	for _, a := range args {
		want += a + "\x00"
	}
	if err != nil || out != want {
		kind := "vector"
		if err != nil {
			kind = "run-error"
		}
		return core.Violf(kind, "%s\nmurex --execute %q\nwant stdout %q\ngot  stdout %q\nerr=%v stderr=%q", what, argv[1:], want, out, err, se.String())
	}
	return nil
}

func validArg(a string) bool {
	for _, r := range a {
		if r < 0x20 && r != '\t' && r != '\n' && r != '\r' || r == 0x7f {
			return false
		}
	}
	return strings.ToValidUTF8(a, "") == a
}

// ---------------------------------------------------------------------------

const tokenSet = " \t\n\r'\"$@~*?;|&{}()[]<>#\\`%=:-!^,"

func classify(c Case) core.Class {
	meta, trig := false, false
	for i, a := range c.Args {
		if strings.ContainsAny(a, tokenSet) || a == "" {
			meta = true
		}
		for _, cl := range classes {
			if cl.trigger(i, a) {
				trig = true
			}
		}
	}
	cl := core.Class{NonTrivial: meta}
	switch {
	case trig:
		cl.Label = c.Mode + "/known-class-trigger"
	case meta:
		cl.Label = c.Mode + "/token-chars"
	default:
		cl.Label = c.Mode + "/plain"
	}
	return cl
}

// known attributes a failure to a known character class: the case must
// contain the class's trigger, and the same case with the triggers of the
// open known classes neutralised must pass. The class reported is the first
// one whose neutralisation alone makes the case pass, else the first one
// present.
func known(c Case, v *core.Violation) string {
	switch v.Kind {
	case "parse-error", "commands", "vector", "injected", "run-error", "panic":
	default:
		return ""
	}
	var present []int
	for ci, cl := range classes {
		if !core.IsKnownOpen(cl.id) {
			continue
		}
		for i, a := range c.Args {
			if cl.trigger(i, a) {
				present = append(present, ci)
				break
			}
		}
	}
	if len(present) == 0 {
		return ""
	}
	c2 := c
	c2.Args = neutralise(c.Args, -1)
	if check(c2) != nil {
		return "" // something else is wrong as well: report it
	}
	for _, ci := range present {
		c3 := c
		c3.Args = neutralise(c.Args, ci)
		if check(c3) == nil {
			return classes[ci].id
		}
	}
	return classes[present[0]].id
}

var spec = core.Spec[Case]{
	ID: "C10", Gen: gen, Check: check, Classify: classify, Known: known, Journal: true,
}

func TestProp(t *testing.T) { core.RunProp(t, spec) }

// TestPropBin: the same oracle through `murex --execute` of the real binary.
func TestPropBin(t *testing.T) {
	s := spec
	s.Gen = genBin
	core.RunProp(t, s)
}

func TestReplay(t *testing.T) { core.Replay(t, spec) }

// FuzzC10: coverage-guided argv vectors (NUL-separated arguments in one
// string) through the same oracle (no real binary).
func FuzzC10(f *testing.F) {
	for _, s := range []string{"", "a b", "a\x00b c", "x;inj\x00", "~\x00{a}\x00`", "é日本\x00\t\n", "%[1]\x00&&\x00-x", "\\\x00'\"\x00$x@y"} {
		for k := 0; k < 4; k++ {
			f.Add(s, uint8(k))
		}
	}
	modes := []string{"exec-parse", "exec-run", "cli-fn", "cli-method"}
	f.Fuzz(func(t *testing.T, s string, k uint8) {
		if len(s) > 2048 {
			return
		}
		parts := strings.Split(s, "\x00")
		if len(parts) > 6 {
			parts = parts[:6]
		}
		c := Case{Mode: modes[int(k)%len(modes)], Run: k&4 != 0}
		for _, p := range parts {
			p = strings.ToValidUTF8(p, "")
			p = strings.Map(func(r rune) rune {
				if r < 0x20 && r != '\t' && r != '\n' && r != '\r' || r == 0x7f {
					return -1
				}
				return r
			}, p)
			c.Args = append(c.Args, p)
		}
		if v := core.Eval(spec, c, false); v != nil {
			b, _ := json.Marshal(c)
			t.Fatalf("C10 violated: %s\ncase: %s", v.Error(), b)
		}
	})
}
