// C04 — `&&`, `||` and `;` behave as documented in normal mode.
//
// Domain: chains of 1–8 units joined by `;`, newline, `&&`, `||`. A unit is a
// command with a chosen exit number and a visible tag, or a 2–3 stage pipeline
// whose last stage decides the exit number.
// Oracle: reference interpreter of the stated rule.
package c04

import (
	"fmt"
	"strconv"
	"strings"
	"testing"

	"github.com/lmorg/murex/lang"
	"github.com/lmorg/murex/lang/types"
	"pgregory.net/rapid"
	"verif/harness/core"
)

func TestMain(m *testing.M) {
	core.InitMurex()
	// vx <tag> <exit>: prints "<tag>\n" on stdout (as a method: consumes
	// stdin first and prints "<tag>(<stdin with newlines as ,>)\n") and
	// finishes with the chosen exit number.
	lang.DefineMethod("vx", func(p *lang.Process) error {
		tag, _ := p.Parameters.String(0)
		n, _ := p.Parameters.Int(1)
		p.Stdout.SetDataType(types.String)
		if p.IsMethod {
			b, _ := p.Stdin.ReadAll()
			s := strings.ReplaceAll(strings.TrimRight(string(b), "\n"), "\n", ",")
			p.Stdout.Writeln([]byte(tag + "(" + s + ")"))
		} else {
			p.Stdout.Writeln([]byte(tag))
		}
		p.ExitNum = n
		return nil
	}, types.Any, types.String)
	// ve <tag> <exit>: the same on stderr.
	lang.DefineFunction("ve", func(p *lang.Process) error {
		tag, _ := p.Parameters.String(0)
		n, _ := p.Parameters.Int(1)
		p.Stderr.Writeln([]byte(tag))
		p.ExitNum = n
		return nil
	}, types.Null)
	core.Main(m, "C04")
}

// Stage is one command.
type Stage struct {
	Kind string `json:"kind"` // vx ve true false out err fn
	Tag  string `json:"tag"`
	Exit int    `json:"exit"`
}

// Unit is a command or a pipeline of commands.
type Unit struct {
	Join   string  `json:"join"` // joiner BEFORE this unit: "" (first) ; \n && ||
	Pipe   string  `json:"pipe"` // "|" or "->" between the stages
	Stages []Stage `json:"stages"`
}

type Case struct {
	Units []Unit `json:"units"`
}

var exits = []int{0, 1, 2, 7, 255}

func genStage(t *rapid.T, first bool, tag string) Stage {
	kinds := []string{"vx", "vx", "vx", "true", "false", "out", "fn"}
	if first {
		kinds = append(kinds, "ve", "err")
	}
	k := rapid.SampledFrom(kinds).Draw(t, "kind")
	s := Stage{Kind: k, Tag: tag}
	switch k {
	case "vx", "ve", "fn":
		s.Exit = rapid.SampledFrom(exits).Draw(t, "exit")
	case "false":
		s.Exit = 1
	case "err":
		s.Exit = 1 // `err` exits 1 by design
	}
	return s
}

func gen(t *rapid.T) Case {
	n := rapid.IntRange(1, 8).Draw(t, "n")
	var c Case
	tagN := 0
	for i := 0; i < n; i++ {
		u := Unit{}
		if i > 0 {
			u.Join = rapid.SampledFrom([]string{";", "\n", "&&", "||", "&&", "||"}).Draw(t, "join")
		}
		ns := 1
		if rapid.IntRange(0, 3).Draw(t, "pipeline") == 0 {
			ns = rapid.IntRange(2, 3).Draw(t, "stages")
			u.Pipe = rapid.SampledFrom([]string{"|", "->"}).Draw(t, "pipe")
		}
		for j := 0; j < ns; j++ {
			tagN++
			st := genStage(t, j == 0, fmt.Sprintf("T%d", tagN))
			if j > 0 && (st.Kind == "true" || st.Kind == "false" || st.Kind == "out" || st.Kind == "fn") {
				// later stages must be methods that do not depend on how a
				// non-method treats stdin: use vx
				st.Kind = "vx"
				if st.Exit == 0 && rapid.Bool().Draw(t, "exit2") {
					st.Exit = rapid.SampledFrom(exits).Draw(t, "exit3")
				}
			}
			u.Stages = append(u.Stages, st)
		}
		c.Units = append(c.Units, u)
	}
	return c
}

func (s Stage) src() string {
	switch s.Kind {
	case "vx":
		return fmt.Sprintf("vx %s %d", s.Tag, s.Exit)
	case "ve":
		return fmt.Sprintf("ve %s %d", s.Tag, s.Exit)
	case "true":
		return "true"
	case "false":
		return "false"
	case "out":
		return "out " + s.Tag
	case "err":
		return "err " + s.Tag
	case "fn":
		return fmt.Sprintf("c04fn %s %d", s.Tag, s.Exit)
	}
	panic("bad kind")
}

// prelude defines the murex-level exit-code function.
const prelude = "function c04fn {\n  out $1\n  return $2\n}\n"

func (c Case) Source() string {
	var b strings.Builder
	b.WriteString(prelude)
	for _, u := range c.Units {
		switch u.Join {
		case "":
		case "\n":
			b.WriteString("\n")
		default:
			b.WriteString(" " + u.Join + " ")
		}
		for j, s := range u.Stages {
			if j > 0 {
				b.WriteString(" " + u.Pipe + " ")
			}
			b.WriteString(s.src())
		}
	}
	b.WriteString("\n")
	return b.String()
}

// model is the reference interpreter of the statement.
func model(c Case) (stdout, stderr string, exit int) {
	var so, se strings.Builder
	prevExit := 0
	skipping := false
	for i, u := range c.Units {
		run := true
		if i > 0 {
			switch u.Join {
			case ";", "\n":
				skipping = false
			case "&&":
				if skipping || prevExit != 0 {
					run = false
				}
			case "||":
				if skipping || prevExit == 0 {
					run = false
				}
			}
		}
		if !run {
			skipping = true
			// exit number inherited from the command before it
			continue
		}
		skipping = false
		// run the pipeline: only the last stage's stdout is visible; stderr
		// of every stage is visible; the last stage decides the exit number.
		carry := ""
		for j, s := range u.Stages {
			var out string
			switch s.Kind {
			case "vx":
				if j > 0 {
					out = s.Tag + "(" + strings.ReplaceAll(strings.TrimRight(carry, "\n"), "\n", ",") + ")\n"
				} else {
					out = s.Tag + "\n"
				}
			case "ve":
				se.WriteString(s.Tag + "\n")
			case "true":
				out = "true" // a bare `true` is evaluated as an expression: no newline
			case "false":
				out = "false"
			case "out", "fn":
				out = s.Tag + "\n"
			case "err":
				se.WriteString(s.Tag + "\n")
			}
			carry = out
			prevExit = s.Exit
		}
		so.WriteString(carry)
	}
	return so.String(), se.String(), prevExit
}

var boolText = strings.NewReplacer("true\n", "", "false\n", "", "true", "", "false", "")

func check(c Case) *core.Violation {
	src := c.Source()
	r := core.Run(src)
	if r.Hung {
		return core.Violf("hang", "program did not finish\n%s", src)
	}
	wo, we, wx := model(c)
	// What the `true`/`false` builtins print (nothing, "true", "true\n",
	// depending on whether the statement is taken as an expression) is not
	// part of the property: their text is removed from both sides.
	wo = boolText.Replace(wo)
	r.Stdout = []byte(boolText.Replace(string(r.Stdout)))
	if string(r.Stdout) != wo || string(r.Stderr) != we || r.Exit != wx {
		return core.Violf("mismatch", "program:\n%s\nwant stdout=%q stderr=%q exit=%d\ngot  stdout=%q stderr=%q exit=%d (err=%v)",
			src, wo, we, wx, r.Stdout, r.Stderr, r.Exit, r.Err)
	}
	return nil
}

func classify(c Case) core.Class {
	logic := 0
	pipes := 0
	var shape strings.Builder
	for _, u := range c.Units {
		if u.Join == "&&" || u.Join == "||" {
			logic++
		}
		if len(u.Stages) > 1 {
			pipes++
		}
		shape.WriteString(u.Join)
		for _, s := range u.Stages {
			shape.WriteString(s.Kind[:1] + strconv.Itoa(s.Exit) + "|")
		}
	}
	skipped := countSkipped(c)
	cl := core.Class{Key: shape.String()}
	cl.NonTrivial = logic >= 2 && skipped >= 1
	switch {
	case cl.NonTrivial && pipes > 0:
		cl.Label = "logic>=2,skip>=1,pipeline"
	case cl.NonTrivial:
		cl.Label = "logic>=2,skip>=1"
	case logic > 0:
		cl.Label = "some-logic"
	default:
		cl.Label = "no-logic"
	}
	return cl
}

func countSkipped(c Case) int {
	prevExit, skipping, n := 0, false, 0
	for i, u := range c.Units {
		run := true
		if i > 0 {
			switch u.Join {
			case ";", "\n":
				skipping = false
			case "&&":
				run = !(skipping || prevExit != 0)
			case "||":
				run = !(skipping || prevExit == 0)
			}
		}
		if !run {
			skipping = true
			n++
			continue
		}
		skipping = false
		prevExit = u.Stages[len(u.Stages)-1].Exit
	}
	return n
}

var spec = core.Spec[Case]{
	ID: "C04", Gen: gen, Check: check, Classify: classify,
	Sample: func(c Case) any { return strings.TrimPrefix(c.Source(), prelude) },
}

func TestProp(t *testing.T)   { core.RunProp(t, spec) }
func TestReplay(t *testing.T) { core.Replay(t, spec) }
