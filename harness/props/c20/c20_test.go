// C20 — Parsing any text terminates without panicking.
//
// Domain: rune strings of up to 400 runes, biased towards murex token
// characters: (a) token soup, (b) real snippets from /repo's tests (the
// committed fuzz seed corpus, embedded) with 1-4 random mutations (delete,
// insert a token, duplicate, truncate, splice two snippets), (c) nesting
// stress (an opener repeated up to 150 times with or without closers).
// Oracle: every parser entry point returns a value or an error — a Go panic is
// recovered inside the oracle and reported; a call that runs longer than a
// generous budget is re-run with 4x the budget before it is called a hang.
// See oracle/oracle.go for the entry points.
package c20

import (
	"embed"
	"fmt"
	"os"
	"sort"
	"strconv"
	"strings"
	"testing"

	"pgregory.net/rapid"
	"verif/harness/core"
	"verif/harness/props/c20/oracle"
)

// fuzzCoordinator: `go test -fuzz` prints its progress lines on os.Stderr of
// the coordinating process (the workers carry -test.fuzzworker).
func fuzzCoordinator() bool {
	fuzz, worker := false, false
	for _, a := range os.Args[1:] {
		if strings.HasPrefix(a, "-test.fuzz=") {
			fuzz = true
		}
		if strings.HasPrefix(a, "-test.fuzzworker") {
			worker = true
		}
	}
	return fuzz && !worker
}

func TestMain(m *testing.M) {
	// `?` and backticks make the parsers print a deprecation warning on
	// os.Stderr for every occurrence; keep the shard logs small. (Go panics
	// and the testing package do not write through this variable.)
	if !fuzzCoordinator() {
		if f, err := os.OpenFile(os.DevNull, os.O_WRONLY, 0); err == nil {
			os.Stderr = f
		}
	}
	core.Main(m, "C20")
}

type Case struct {
	Text string `json:"text"`
	Pos  int    `json:"pos"` // cursor position handed to the tokenizer (0..len+1)
}

// ---------------------------------------------------------------------------
// generator

//go:embed testdata/fuzz/FuzzParseBlock/seed-*
var seedFS embed.FS

// snippets are the strings of the committed seed corpus (hostile constants and
// blocks harvested from /repo's tests), in file-name order.
var snippets = func() []string {
	ents, err := seedFS.ReadDir("testdata/fuzz/FuzzParseBlock")
	if err != nil {
		panic(err)
	}
	var names []string
	for _, e := range ents {
		names = append(names, e.Name())
	}
	sort.Strings(names)
	var out []string
	for _, n := range names {
		b, _ := seedFS.ReadFile("testdata/fuzz/FuzzParseBlock/" + n)
		lines := strings.Split(string(b), "\n")
		if len(lines) < 2 || !strings.HasPrefix(lines[1], "string(") {
			continue
		}
		s, err := strconv.Unquote(strings.TrimSuffix(strings.TrimPrefix(lines[1], "string("), ")"))
		if err == nil && s != "" {
			out = append(out, s)
		}
	}
	if len(out) < 100 {
		panic("seed corpus missing")
	}
	return out
}()

var tokens = []string{
	" ", " ", " ", "\t", "\n", "\r\n",
	"'", "\"", "`", "(", ")", "%(", "'a b'", "\"a $b\"", "(a (b) c)", "%(a b)",
	"|", "->", "=>", "|>", ">>", "~>", ">", "?", "?:", "??", "&&", "||", ";", "&", " | ", " -> ", " => ",
	"{", "}", "[", "]", "[[", "]]", "%[", "%{", "{ out x }", "${", "@{", "${out x}", "@{out x}", "$(", "@(",
	"$", "@", "~", "$x", "@x", "$(x)", "$x.y", "$x[", "$x[[", "$x[1]", "@x[1..2]", "$x[[/a]]", "~/", "~root", "$.",
	"\\", "\\\\", "\\s", "\\n", "\\t", "\\$", "\\'", "\\\"", "\\|", "\\{", "\\ ", "\\x",
	"#", " # x\n", "/#", "#/", "/# x #/",
	"<", "<err>", "<!out>", "<null>", "<pipe>", "<stdin>",
	":", ": ", "::", ",", ", ", ".", "..", "1..5", "[1..2]", "[..]",
	"=", "==", "!=", "=~", "!~", "<~", "+=", "-=", "*=", "/=", "++", "--", "+", "-", "*", "/", "%", "!", ">=", "<=", "<=>", " = ", " == ", " + ", " - ", " * ", " / ",
	"0", "1", "5", "42", "-1", "1.5", "1e9", "0x1f", "true", "false", "null",
	"out", "echo", "a", "b", "x", "foo", "bar", "if", "else", "then", "switch", "case", "function", "try", "and", "or", "not", "exit",
	"a=b", "a = 5", "--flag", "-f", "f(", "f()", "out(a,b)", "datetime(",
	"é", "日本", "🙂", " ", "​", " ", "\ufeff", "\x00", "\x01", "\x1b", "\x7f",
}

var genPart = rapid.Custom(func(t *rapid.T) string {
	switch k := rapid.IntRange(0, 11).Draw(t, "k"); {
	case k <= 9:
		return rapid.SampledFrom(tokens).Draw(t, "tok")
	case k == 10:
		return string(rune(rapid.IntRange(0x20, 0x7e).Draw(t, "ascii")))
	default:
		return string(rapid.Rune().Draw(t, "rune"))
	}
})

func genSoup(t *rapid.T) string {
	var parts []string
	if rapid.IntRange(0, 11).Draw(t, "long") == 11 {
		parts = rapid.SliceOfN(genPart, 25, 120).Draw(t, "parts")
	} else {
		parts = rapid.SliceOfN(genPart, 0, 24).Draw(t, "parts")
	}
	return strings.Join(parts, "")
}

// Mutation is one edit of a rune string; positions are taken modulo the
// current length so that every value is meaningful while shrinking.
type mutation struct {
	Op  int
	At  int
	Len int
	Tok string
}

var genMutation = rapid.Custom(func(t *rapid.T) mutation {
	return mutation{
		Op:  rapid.IntRange(0, 5).Draw(t, "op"),
		At:  rapid.IntRange(0, 400).Draw(t, "at"),
		Len: rapid.IntRange(1, 12).Draw(t, "len"),
		Tok: genPart.Draw(t, "tok"),
	}
})

func mutate(r []rune, m mutation) []rune {
	at := 0
	if len(r) > 0 {
		at = m.At % (len(r) + 1)
	}
	end := at + m.Len
	if end > len(r) {
		end = len(r)
	}
	cat := func(parts ...[]rune) []rune {
		var out []rune
		for _, p := range parts {
			out = append(out, p...)
		}
		return out
	}
	switch m.Op {
	case 0: // delete a range
		return cat(r[:at], r[end:])
	case 1: // insert a token
		return cat(r[:at], []rune(m.Tok), r[at:])
	case 2: // duplicate a range
		return cat(r[:end], r[at:end], r[end:])
	case 3: // truncate
		return cat(r[:at])
	case 4: // replace a range by a token
		return cat(r[:at], []rune(m.Tok), r[end:])
	default: // drop the head
		return cat(r[at:])
	}
}

func genMutant(t *rapid.T) string {
	r := []rune(rapid.SampledFrom(snippets).Draw(t, "snippet"))
	if rapid.IntRange(0, 5).Draw(t, "splice") == 5 {
		o := []rune(rapid.SampledFrom(snippets).Draw(t, "snippet2"))
		cut := rapid.IntRange(0, len(r)).Draw(t, "cut")
		cut2 := rapid.IntRange(0, len(o)).Draw(t, "cut2")
		r = append(append([]rune{}, r[:cut]...), o[cut2:]...)
	}
	for _, m := range rapid.SliceOfN(genMutation, 0, 4).Draw(t, "mutations") {
		r = mutate(r, m)
	}
	return string(r)
}

var openers = []string{"{", "(", "[", "[[", "%[", "%{", "%(", "${", "@{", "$(", "\"", "'", "f(", "$x[", "$x[[", "{ if {", "out ${", "a = (", "1 + (", "%[ [", "%{a:", "<", "/#", "\\", "!", "-", "$", "@", "~", "->", "|", "&", "? ", "a -> "}
var closers = map[string]string{"{": "}", "(": ")", "[": "]", "[[": "]]", "%[": "]", "%{": "}", "%(": ")", "${": "}", "@{": "}", "$(": ")", "\"": "\"", "'": "'", "f(": ")", "$x[": "]", "$x[[": "]]", "{ if {": "}}", "out ${": "}", "a = (": ")", "1 + (": ")", "%[ [": "]]", "%{a:": "}", "<": ">", "/#": "#/"}

func genNest(t *rapid.T) string {
	op := rapid.SampledFrom(openers).Draw(t, "opener")
	k := rapid.IntRange(1, 150).Draw(t, "depth")
	body := genPart.Draw(t, "body")
	closeN := rapid.SampledFrom([]int{0, k, k - 1, k + 1, k / 2}).Draw(t, "closers")
	sep := rapid.SampledFrom([]string{"", "", " ", "\n"}).Draw(t, "sep")
	var b strings.Builder
	for i := 0; i < k; i++ {
		b.WriteString(op)
		b.WriteString(sep)
	}
	b.WriteString(body)
	if cl := closers[op]; cl != "" {
		for i := 0; i < closeN; i++ {
			b.WriteString(sep)
			b.WriteString(cl)
		}
	}
	return b.String()
}

func gen(t *rapid.T) Case {
	var text string
	switch k := rapid.IntRange(0, 19).Draw(t, "mode"); {
	case k < 9:
		text = genSoup(t)
	case k < 17:
		text = genMutant(t)
	default:
		text = genNest(t)
	}
	text = oracle.Normalise(text)
	n := len([]rune(text))
	pos := rapid.SampledFrom([]int{n, 0, n / 2, n + 1, 1, n - 1}).Draw(t, "pos")
	return Case{Text: text, Pos: oracle.NormPos(text, pos)}
}

// ---------------------------------------------------------------------------
// oracle, classification, known findings

func check(c Case) *core.Violation {
	if kind, msg := oracle.Check(c.Text, c.Pos); kind != "" {
		return core.Violf(kind, "%s", msg)
	}
	return nil
}

func classify(c Case) core.Class {
	text := oracle.Normalise(c.Text)
	cl := oracle.TokenClasses(text)
	n := len([]rune(text))
	out := core.Class{Key: text + "\x00" + strconv.Itoa(c.Pos), NonTrivial: len(cl) >= 3 && n >= 6}
	bucket := "classes<3"
	switch {
	case len(cl) >= 6:
		bucket = "classes>=6"
	case len(cl) >= 3:
		bucket = "classes3-5"
	}
	res := oracle.BlockOutcome(text)
	size := "short"
	if n > 100 {
		size = "long"
	}
	out.Label = fmt.Sprintf("%s,%s,%s", bucket, res, size)
	return out
}

func known(c Case, v *core.Violation) string { return oracle.Known(c.Text, c.Pos, v.Kind, v.Msg) }

var spec = core.Spec[Case]{
	ID: "C20", Gen: gen, Check: check, Classify: classify, Known: known, Journal: true,
	Sample: func(c Case) any { return c.Text },
}

func TestProp(t *testing.T)   { core.RunProp(t, spec) }
func TestReplay(t *testing.T) { core.Replay(t, spec) }

// Native coverage-guided targets (thorough tier). The same targets exist in
// ./fz, a package that does not link harness/core (all of murex) and fuzzes
// about ten times faster; these copies are what the driver runs as long as it
// has no per-target package setting.
func FuzzParseBlock(f *testing.F) {
	f.Fuzz(func(t *testing.T, s string) {
		if msg := oracle.FuzzOne(s, 0, oracle.ParserTargets); msg != "" {
			t.Fatalf("C20 violated: %s", msg)
		}
	})
}

func FuzzHighlighter(f *testing.F) {
	f.Fuzz(func(t *testing.T, s string, pos int) {
		if msg := oracle.FuzzOne(s, pos, oracle.TokenizerTargets); msg != "" {
			t.Fatalf("C20 violated: %s", msg)
		}
	})
}
