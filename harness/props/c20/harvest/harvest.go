//go:build ignore

// harvest builds a seed corpus for the native fuzz targets of C20/C37/C34 from
// the murex snippets in /repo's own tests:
//
//	go run props/c20/harvest/harvest.go -repo /repo -max 400 -out props/c20/testdata/fuzz/FuzzParseBlock [-extra file]
//
// It collects (1) every string literal that is the value of a `Block:` field
// in a *_test.go file, (2) the inputs of /repo's committed fuzz corpora,
// (3) other test string literals that look like murex code, and writes them in
// Go's corpus file format (one `string(...)` argument), named seed-NNN. The
// selection is deterministic: the -extra entries, then (1) and (2) ordered by
// sha256, then (3) ordered by sha256, cut at -max. Literals longer than 400 runes are skipped.
package main

import (
	"bufio"
	"crypto/sha256"
	"flag"
	"fmt"
	"go/ast"
	"go/parser"
	"go/token"
	"io/fs"
	"os"
	"path/filepath"
	"sort"
	"strconv"
	"strings"
	"unicode/utf8"
)

func main() {
	repo := flag.String("repo", "/repo", "murex checkout")
	out := flag.String("out", "", "corpus directory")
	max := flag.Int("max", 400, "maximum number of entries")
	extra := flag.String("extra", "", "file with extra entries, one Go-quoted string per line")
	withPos := flag.Bool("withpos", false, "add a second argument int(<cursor position>) to every entry")
	flag.Parse()
	if *out == "" {
		fmt.Fprintln(os.Stderr, "need -out")
		os.Exit(2)
	}

	var must, first, rest []string
	seen := map[string]bool{}
	add := func(list *[]string, s string) {
		if s == "" || seen[s] || utf8.RuneCountInString(s) > 400 || !utf8.ValidString(s) {
			return
		}
		seen[s] = true
		*list = append(*list, s)
	}

	if *extra != "" {
		f, err := os.Open(*extra)
		if err != nil {
			panic(err)
		}
		sc := bufio.NewScanner(f)
		for sc.Scan() {
			line := strings.TrimSpace(sc.Text())
			if line == "" || strings.HasPrefix(line, "//") {
				continue
			}
			s, err := strconv.Unquote(line)
			if err != nil {
				panic(fmt.Sprintf("%s: %v", line, err))
			}
			add(&must, s)
		}
		f.Close()
	}

	filepath.WalkDir(*repo, func(path string, d fs.DirEntry, err error) error {
		if err != nil {
			return nil
		}
		if d.IsDir() {
			n := d.Name()
			if n == "vendor" || n == ".git" || n == "node_modules" {
				return filepath.SkipDir
			}
			return nil
		}
		// committed fuzz corpora of the repository
		if strings.Contains(path, "/testdata/fuzz/") {
			b, err := os.ReadFile(path)
			if err == nil {
				lines := strings.Split(string(b), "\n")
				if len(lines) >= 2 && strings.HasPrefix(lines[0], "go test fuzz v1") {
					for _, l := range lines[1:] {
						if strings.HasPrefix(l, "string(") && strings.HasSuffix(l, ")") {
							if s, err := strconv.Unquote(l[len("string(") : len(l)-1]); err == nil {
								add(&first, s)
							}
						}
					}
				}
			}
			return nil
		}
		if !strings.HasSuffix(path, "_test.go") {
			return nil
		}
		fset := token.NewFileSet()
		file, err := parser.ParseFile(fset, path, nil, 0)
		if err != nil {
			return nil
		}
		blockLits := map[*ast.BasicLit]bool{}
		ast.Inspect(file, func(n ast.Node) bool {
			kv, ok := n.(*ast.KeyValueExpr)
			if !ok {
				return true
			}
			if id, ok := kv.Key.(*ast.Ident); ok && (id.Name == "Block" || id.Name == "Expression" || id.Name == "Code") {
				ast.Inspect(kv.Value, func(m ast.Node) bool {
					if bl, ok := m.(*ast.BasicLit); ok && bl.Kind == token.STRING {
						blockLits[bl] = true
					}
					return true
				})
			}
			return true
		})
		ast.Inspect(file, func(n ast.Node) bool {
			bl, ok := n.(*ast.BasicLit)
			if !ok || bl.Kind != token.STRING {
				return true
			}
			s, err := strconv.Unquote(bl.Value)
			if err != nil {
				return true
			}
			if blockLits[bl] {
				add(&first, s)
			} else if looksLikeMurex(s) {
				add(&rest, s)
			}
			return true
		})
		return nil
	})

	// deterministic order
	sort.Slice(first, func(i, j int) bool { return hash(first[i]) < hash(first[j]) })
	sort.Slice(rest, func(i, j int) bool { return hash(rest[i]) < hash(rest[j]) })
	all := append(append(must, first...), rest...)
	if len(all) > *max {
		all = all[:*max]
	}
	os.MkdirAll(*out, 0o755)
	old, _ := filepath.Glob(filepath.Join(*out, "seed-*"))
	for _, f := range old {
		os.Remove(f)
	}
	for i, s := range all {
		body := "go test fuzz v1\nstring(" + strconv.Quote(s) + ")\n"
		if *withPos {
			// alternate: end of line, middle, start
			n := utf8.RuneCountInString(s)
			body += fmt.Sprintf("int(%d)\n", []int{n, n / 2, 0, n + 1, 1}[i%5])
		}
		if err := os.WriteFile(filepath.Join(*out, fmt.Sprintf("seed-%03d", i)), []byte(body), 0o644); err != nil {
			panic(err)
		}
	}
	fmt.Printf("%d extra, %d Block/corpus entries, %d other literals, wrote %d\n", len(must), len(first), len(rest), len(all))
}

func hash(s string) string { return fmt.Sprintf("%x", sha256.Sum256([]byte(s))) }

func looksLikeMurex(s string) bool {
	if len(s) < 4 {
		return false
	}
	for _, tok := range []string{" -> ", " => ", " | ", "${", "@{", "%[", "%{", "%(", "$(", "|>", " && ", " || ", "?:", "out ", "out: ", "<!out>", "<err>"} {
		if strings.Contains(s, tok) {
			return true
		}
	}
	return false
}
