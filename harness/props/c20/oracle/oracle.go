// Package oracle holds the C20 oracle: every murex parser entry point returns
// (value or error) for any rune string — no Go panic, no endless loop. It
// imports only lang/expressions and utils/parser so that the native fuzz
// targets in ../fz link a small binary (linking all of murex through
// harness/core makes `go test -fuzz` about ten times slower).
//
// Entry points (all parse-only; nothing is executed):
//
//	block      expressions.ParseBlock(text)                       (lang.ParseBlock, what Fork.Execute calls)
//	expr       expressions.ExpressionParser(text, 0, false)       (lang.ParseExpression, exec=false)
//	statement  expressions.NewParser(nil, text, 0).ParseStatement(false)
//	           — the statement/parameter parser behind StatementParametersParser.
//	           StatementParametersParser itself calls ParseStatement(true), which
//	           *executes* sub-shells and reads variables; that is C19's domain and
//	           would run whatever the fuzzer invents, so only exec=false is driven.
//	tokenizer  parser.Parse(text, pos) for pos = 0 (highlighter, autocomplete)
//	           and a cursor position (hint text, `murex-parser`)
package oracle

import (
	"encoding/json"
	"fmt"
	"os"
	"runtime/debug"
	"strconv"
	"strings"
	"sync"
	"time"
	"unicode/utf8"

	"github.com/lmorg/murex/lang/expressions"
	"github.com/lmorg/murex/utils/parser"
)

// MaxRunes bounds the domain ("up to a few hundred characters").
const MaxRunes = 400

// Budget is the watchdog limit of one parser call on <= MaxRunes runes
// (ordinary calls take microseconds). A call that exceeds it is re-run with
// 4x the budget before it is called a hang.
var Budget = func() time.Duration {
	// VERIF_C20_BUDGET_MS shortens the budget for exploratory runs only; the
	// registered configuration never sets it.
	if ms, err := strconv.Atoi(os.Getenv("VERIF_C20_BUDGET_MS")); err == nil && ms > 0 {
		return time.Duration(ms) * time.Millisecond
	}
	return 10 * time.Second
}()

// Normalise maps any string into the domain: valid UTF-8, at most MaxRunes.
func Normalise(s string) string {
	if !utf8.ValidString(s) {
		s = string([]rune(s))
	}
	if utf8.RuneCountInString(s) > MaxRunes {
		s = string([]rune(s)[:MaxRunes])
	}
	return s
}

// NormPos maps an arbitrary integer to a cursor position 0..len(runes)+1.
func NormPos(text string, pos int) int {
	n := utf8.RuneCountInString(text) + 2
	if pos < 0 {
		pos = -pos
	}
	if pos < 0 { // MinInt
		pos = 0
	}
	return pos % n
}

// Targets are the entry points in the order they are run.
var Targets = []string{"block", "expr", "statement", "tokenizer", "tokenizer-pos"}

// Outcome of one guarded call.
type Outcome struct {
	Panic    any
	Stack    string
	Err      error
	TimedOut bool
}

func call(target string, r []rune, pos int) (err error) {
	switch target {
	case "block":
		_, err = expressions.ParseBlock(r)
	case "expr":
		_, err = expressions.ExpressionParser(r, 0, false)
	case "statement":
		err = expressions.NewParser(nil, r, 0).ParseStatement(false)
	case "tokenizer":
		parser.Parse(r, 0)
	case "tokenizer-pos":
		parser.Parse(r, pos)
	default:
		panic("unknown target " + target)
	}
	return
}

// Guarded runs one entry point on a private copy of the runes under the
// watchdog and converts a panic into a value.
func Guarded(target, text string, pos int, budget time.Duration) Outcome {
	done := make(chan Outcome, 1)
	go func() {
		var o Outcome
		defer func() {
			if p := recover(); p != nil {
				o.Panic = p
				o.Stack = string(debug.Stack())
			}
			done <- o
		}()
		o.Err = call(target, []rune(text), pos)
	}()
	tm := time.NewTimer(budget)
	defer tm.Stop()
	select {
	case o := <-done:
		return o
	case <-tm.C:
		return Outcome{TimedOut: true}
	}
}

// Check returns ("", "") when every entry point returned a value or an error.
func Check(text string, pos int) (kind, msg string) {
	return CheckTargets(text, pos, Targets)
}

// ParserTargets / TokenizerTargets are the groups the two native fuzz targets drive.
var (
	ParserTargets    = []string{"block", "expr", "statement"}
	TokenizerTargets = []string{"tokenizer", "tokenizer-pos"}
)

// CheckTargets is Check restricted to some entry points.
func CheckTargets(text string, pos int, targets []string) (kind, msg string) {
	text = Normalise(text)
	pos = NormPos(text, pos)
	skipped := ""
	for _, target := range targets {
		if (target == "block" || target == "expr" || target == "statement") && SubExprLoopShape(text) && knownOpenCached(KnownSubExprLoop) && os.Getenv("VERIF_REPLAY") == "" {
			// Known endless loop: the call is not made during the search (a
			// looping goroutine can never be stopped and would starve the
			// shard); it is reported below as the known failure it is, so the
			// caller counts it as excluded. Replays do make the call.
			if skipped == "" {
				skipped = target
			}
			continue
		}
		o := Guarded(target, text, pos, Budget)
		if o.TimedOut {
			// confirm with four times the budget before calling it a hang
			o = Guarded(target, text, pos, 4*Budget)
			if o.TimedOut {
				return "hang:" + target, fmt.Sprintf("%s did not return within %v (and not within %v on a second run)\ninput (%d runes): %q\npos: %d",
					target, Budget, 4*Budget, utf8.RuneCountInString(text), text, pos)
			}
		}
		if o.Panic != nil {
			return "panic:" + target, fmt.Sprintf("%s panicked: %v\ninput (%d runes): %q\npos: %d\n%s",
				target, o.Panic, utf8.RuneCountInString(text), text, pos, trimStack(o.Stack))
		}
	}
	if skipped != "" {
		return "hang:" + skipped, fmt.Sprintf("%s not called: the input has the shape of the open known finding %s (endless loop)\ninput (%d runes): %q",
			skipped, KnownSubExprLoop, utf8.RuneCountInString(text), text)
	}
	return "", ""
}

// trimStack keeps the frames below the panic, without the harness frames.
func trimStack(s string) string {
	lines := strings.Split(s, "\n")
	var out []string
	seenPanic := false
	for i := 0; i < len(lines); i++ {
		if strings.HasPrefix(lines[i], "panic(") {
			seenPanic = true
		}
		if !seenPanic {
			continue
		}
		out = append(out, lines[i])
		if len(out) >= 16 {
			break
		}
	}
	if len(out) == 0 {
		if len(lines) > 24 {
			lines = lines[:24]
		}
		out = lines
	}
	return strings.Join(out, "\n")
}

// Outcome label of the block parser for the class histogram ("parses",
// "syntax-error", "panics", "hangs", or "not-run" for inputs that have the
// shape of the open endless-loop finding).
func BlockOutcome(text string) string {
	text = Normalise(text)
	if SubExprLoopShape(text) && knownOpenCached(KnownSubExprLoop) {
		return "not-run"
	}
	o := Guarded("block", text, 0, Budget)
	switch {
	case o.TimedOut:
		return "hangs"
	case o.Panic != nil:
		return "panics"
	case o.Err != nil:
		return "syntax-error"
	}
	return "parses"
}

// TokenClasses lists the syntax classes present in s.
func TokenClasses(s string) []string {
	var cl []string
	add := func(ok bool, name string) {
		if ok {
			cl = append(cl, name)
		}
	}
	add(strings.ContainsAny(s, "'\"`") || strings.Contains(s, "%("), "quote")
	add(strings.ContainsAny(s, "|;&?\n") || strings.Contains(s, "->") || strings.Contains(s, "=>"), "flow")
	add(strings.ContainsAny(s, "{}"), "curly")
	add(strings.ContainsAny(s, "[]"), "square")
	add(strings.ContainsAny(s, "()"), "paren")
	add(strings.ContainsAny(s, "$@~"), "sigil")
	add(strings.Contains(s, "\\"), "escape")
	add(strings.Contains(s, "#"), "comment")
	add(strings.ContainsAny(s, "<>"), "angle")
	add(strings.ContainsAny(s, "=+*/%!^-"), "operator")
	add(strings.ContainsAny(s, "0123456789"), "digit")
	add(strings.ContainsAny(s, ":,."), "punct")
	return cl
}

// ---------------------------------------------------------------------------
// known findings (each id = one root cause; see /verif/known_findings.json)

const (
	// `(` directly followed by the end of the text or by a token that ends an
	// expression: the sub-expression parser consumes nothing, the parent
	// computes `charPos += branch.charPos - 1` = one step back, lands on the
	// same `(` again and loops forever (parse_expression.go, first
	// sub-expression site); at the second site (parseSubExpression, used inside
	// %[..], %{..} and $var.(..)) the same step back makes the slice
	// `expression[start:charPos]` panic.
	KnownSubExprLoop = "C20-unclosed-subexpression-loops-forever"
	// statement parser, `>>` / `~>` directly after a one-rune word:
	// `paramTemp[:len(paramTemp)-2]` with len 1 (parse_statement.go).
	KnownRedirectChop = "C20-redirect-after-one-rune-word-panics"
	// statement parser, cast operator `:` as the last rune of the code:
	// processStatementColon steps past the end and parseBareword slices.
	KnownColonAtEnd = "C20-cast-colon-at-end-panics"
	// `$x[{...}` / `@x[{...}` lambda without its closing `]` at the end of a
	// statement: the lambda parser skips the `]` unseen, charPos passes the end
	// and BlockT.append slices out of range.
	KnownLambdaNoBracket = "C20-lambda-without-closing-bracket-panics"
)

// SubExprLoopShape is the input shape of KnownSubExprLoop: a `(` followed by
// end of text, `#`, `;`, `?` (not `??` / `?:`), `|` (not `||`), `->`, `=>` or
// `>>`. It deliberately ignores the context of the `(` (over-approximation:
// while the finding is open these texts are not handed to the block and
// expression parsers at all, because a looping goroutine cannot be stopped).
func SubExprLoopShape(text string) bool {
	r := []rune(text)
	at := func(i int) rune {
		if i < len(r) {
			return r[i]
		}
		return -1
	}
	for i, c := range r {
		if c != '(' {
			continue
		}
		n, n2 := at(i+1), at(i+2)
		switch {
		case n == -1, n == '#', n == ';':
			return true
		case n == '?' && n2 != '?' && n2 != ':':
			return true
		case n == '|' && n2 != '|':
			return true
		case (n == '-' || n == '=' || n == '>') && n2 == '>':
			return true
		}
	}
	return false
}

// topFrames returns the function names of the frames directly below panic().
func topFrames(msg string, n int) []string {
	i := strings.Index(msg, "\npanic(")
	if i < 0 {
		return nil
	}
	lines := strings.Split(msg[i+1:], "\n")
	var out []string
	for j := 2; j < len(lines) && len(out) < n; j += 2 { // name line, then file line
		name := lines[j]
		if k := strings.LastIndex(name, "("); k > 0 {
			name = name[:k]
		}
		if k := strings.LastIndex(name, "/"); k >= 0 {
			name = name[k+1:]
		}
		out = append(out, name)
	}
	return out
}

// Known maps a failure to a known-finding id ("" = not a listed finding). It
// looks at the failure kind, the panic value, the function that panicked and
// the input shape.
func Known(text string, pos int, kind, msg string) string {
	text = Normalise(text)
	switch {
	case kind == "hang:block" || kind == "hang:expr" || kind == "hang:statement":
		if SubExprLoopShape(text) {
			return KnownSubExprLoop
		}
	case kind == "panic:block" || kind == "panic:statement":
		if !strings.Contains(msg, "slice bounds out of range") {
			return ""
		}
		fr := topFrames(msg, 2)
		if len(fr) < 2 {
			return ""
		}
		switch {
		case fr[0] == "expressions.(*ParserT).parseSubExpression" && SubExprLoopShape(text):
			// the same step back at the second sub-expression site (inside
			// %[..], %{..} and $var.(..)): `expression[start:charPos]` with
			// charPos now before start
			return KnownSubExprLoop
		case fr[0] == "expressions.(*ParserT).parseStatement" && strings.Contains(msg, "out of range [:-1]") &&
			(strings.Contains(text, ">>") || strings.Contains(text, "~>")):
			return KnownRedirectChop
		case strings.HasPrefix(fr[0], "expressions.(*ParserT).parseBareword") && fr[1] == "expressions.processStatementColon" &&
			strings.Contains(text, ":"):
			return KnownColonAtEnd
		case fr[0] == "expressions.(*BlockT).append" && kind == "panic:block" && strings.Contains(text, "[{"):
			return KnownLambdaNoBracket
		}
	}
	return ""
}

// IsKnownOpen reports whether id is an open entry of known_findings.json
// (same rule as core.IsKnownOpen; duplicated here to keep this package light).
func IsKnownOpen(id string) bool {
	if id == "" {
		return false
	}
	path := os.Getenv("VERIF_KNOWN")
	if path == "" {
		path = "/verif/known_findings.json"
	}
	b, err := os.ReadFile(path)
	if err != nil {
		return false
	}
	var doc struct {
		Findings []struct {
			ID     string `json:"id"`
			Status string `json:"status"`
		} `json:"findings"`
	}
	if json.Unmarshal(b, &doc) != nil {
		return false
	}
	for _, f := range doc.Findings {
		if f.ID == id && f.Status == "open" {
			return true
		}
	}
	return false
}

var (
	knownMu    sync.Mutex
	knownCache = map[string]bool{}
)

func knownOpenCached(id string) bool {
	knownMu.Lock()
	defer knownMu.Unlock()
	v, ok := knownCache[id]
	if !ok {
		v = IsKnownOpen(id)
		knownCache[id] = v
	}
	return v
}

// FuzzOne is the body of the native fuzz targets: "" = holds or known finding.
func FuzzOne(s string, pos int, targets []string) string {
	text := Normalise(s)
	kind, msg := CheckTargets(text, pos, targets)
	if kind == "" {
		return ""
	}
	if id := Known(text, pos, kind, msg); id != "" && knownOpenCached(id) {
		return ""
	}
	return kind + ": " + msg
}
