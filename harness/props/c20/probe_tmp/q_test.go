package probe
import ("testing";"os";"time";"runtime";"fmt";"github.com/lmorg/murex/lang/expressions")
func TestQ(t *testing.T){
 s := os.Getenv("Q")
 go func(){ expressions.ParseBlock([]rune(s)) ; fmt.Println("returned")}()
 time.Sleep(1500*time.Millisecond)
 buf := make([]byte, 1<<16); n := runtime.Stack(buf, true); fmt.Println(string(buf[:n]))
}
