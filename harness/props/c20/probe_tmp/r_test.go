package probe
import ("testing";"os";"fmt";"strings";"github.com/lmorg/murex/lang/expressions")
func TestR(t *testing.T){
 b,_ := os.ReadFile(os.Getenv("PROBE"))
 for _, s := range strings.Split(strings.TrimRight(string(b),"\n"), "\n") {
  func(){
   defer func(){ if p:=recover();p!=nil{ fmt.Printf("%-22q PANIC %v\n", s, p)} }()
   fns, err := expressions.ParseBlock([]rune(s))
   if err != nil { fmt.Printf("%-22q ERR %s\n", s, strings.Split(err.Error(),"\n")[0]); return }
   var o []string
   for _, f := range *fns { ps := []string{}; for _,p := range f.Parameters { ps = append(ps, string(p)) }; o = append(o, fmt.Sprintf("%s%q", string(f.Command), ps)) }
   fmt.Printf("%-22q %s\n", s, strings.Join(o, "  |  "))
  }()
 }
}
