package probe
import ("testing";"fmt";"os";"time";"strings";"verif/harness/props/c20/oracle")
func TestP(t *testing.T){
 b,_ := os.ReadFile(os.Getenv("PROBE"))
 for _, s := range strings.Split(strings.TrimRight(string(b),"\n"), "\n") {
  s = strings.NewReplacer("\\n","\n","\\t","\t","\\0","\x00").Replace(s)
  for _, tg := range oracle.Targets {
   t0 := time.Now()
   o := oracle.Guarded(tg, s, len([]rune(s)), 3*time.Second)
   st := "ok"
   if o.TimedOut { st = "TIMEOUT" } else if o.Panic != nil { st = fmt.Sprintf("PANIC %v", o.Panic) } else if o.Err != nil { st = "err" }
   if st != "ok" && st != "err" { fmt.Printf("%-24q %-13s %s (%v)\n", s, tg, st, time.Since(t0).Round(time.Millisecond)) }
  }
 }
}
