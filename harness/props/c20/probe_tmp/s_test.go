package probe
import ("testing";"os";"fmt";"strings";"github.com/lmorg/murex/lang/expressions";"github.com/lmorg/murex/utils/parser")
func TestS(t *testing.T){
 b,_ := os.ReadFile(os.Getenv("PROBE"))
 for _, s := range strings.Split(strings.TrimRight(string(b),"\n"), "\n") {
  s = strings.NewReplacer("\\n","\n","\\t","\t").Replace(s)
  pt, _ := parser.Parse([]rune(s), 0)
  T := string(pt.Source[:pt.LastFlowToken])
  fmt.Printf("%-34q unsafe=%-5v T=%-22q ", s, pt.Unsafe, T)
  func(){
   defer func(){ if p:=recover();p!=nil{ fmt.Printf("PANIC %v\n", p)} }()
   fns, err := expressions.ParseBlock([]rune(T))
   if err != nil { fmt.Printf("ERR %s\n", strings.Split(err.Error(),"\n")[0]); return }
   var o []string
   for _, f := range *fns { ps := []string{}; for _,p := range f.Parameters { ps = append(ps, string(p)) }; o = append(o, fmt.Sprintf("%s%q np=%v cast=%q", string(f.Command), ps, f.NamedPipes, string(f.Cast))) }
   fmt.Printf("%s\n", strings.Join(o, "  |  "))
  }()
 }
}
