// Package fz holds the native fuzz targets of C20 in a package that links only
// lang/expressions and utils/parser (see ../oracle). The seed corpus is
// ../testdata (symlink).
package fz

import (
	"os"
	"strings"
	"testing"

	"verif/harness/props/c20/oracle"
)

// fuzzCoordinator: `go test -fuzz` prints its progress lines on os.Stderr of
// the coordinating process (the workers carry -test.fuzzworker).
func fuzzCoordinator() bool {
	fuzz, worker := false, false
	for _, a := range os.Args[1:] {
		if strings.HasPrefix(a, "-test.fuzz=") {
			fuzz = true
		}
		if strings.HasPrefix(a, "-test.fuzzworker") {
			worker = true
		}
	}
	return fuzz && !worker
}

func TestMain(m *testing.M) {
	// deprecation warnings for `?` and backticks go to os.Stderr
	if !fuzzCoordinator() {
		if f, err := os.OpenFile(os.DevNull, os.O_WRONLY, 0); err == nil {
			os.Stderr = f
		}
	}
	os.Exit(m.Run())
}

func FuzzParseBlock(f *testing.F) {
	f.Fuzz(func(t *testing.T, s string) {
		if msg := oracle.FuzzOne(s, 0, oracle.ParserTargets); msg != "" {
			t.Fatalf("C20 violated: %s", msg)
		}
	})
}

func FuzzHighlighter(f *testing.F) {
	f.Fuzz(func(t *testing.T, s string, pos int) {
		if msg := oracle.FuzzOne(s, pos, oracle.TokenizerTargets); msg != "" {
			t.Fatalf("C20 violated: %s", msg)
		}
	})
}
