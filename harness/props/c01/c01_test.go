// C01 — Pipes deliver every byte exactly once, in order.
//
// A rapid-generated scenario: 1–4 writers, each with a list of chunks of
// recorded pseudo-random bytes (empty, NUL, invalid UTF-8, sizes up to several
// MiB so single writes and totals cross the 1 MiB back-pressure limit), writers
// opening up-front or "late" (opened by the previous writer just before that
// one closes), one reader using Read with generated buffer sizes, ReadAll,
// WriteTo or ReadLine, optionally through a Tee. Scheduling is perturbed by
// the verifhook yield points and GOMAXPROCS.
//
// Oracle (tagged stream model): with one writer the bytes read equal the bytes
// written; with several, every Write is one frame [writer][len][payload], the
// stream read parses as whole frames and its projection on each writer equals
// that writer's sequence. EOF only after every writer issued Close. Stats()
// equals the bytes moved. Everything finishes.
package c01

import (
	"bytes"
	"encoding/binary"
	"fmt"
	"io"
	"runtime"
	"sync"
	"sync/atomic"
	"testing"
	"time"

	"github.com/lmorg/murex/builtins/pipes/streams"
	"github.com/lmorg/murex/lang/stdio"
	"github.com/lmorg/murex/utils/verifhook"
	"pgregory.net/rapid"
	"verif/harness/core"
)

func TestMain(m *testing.M) { core.Main(m, "C01") }

type Chunk struct {
	Size int    `json:"size"`
	Kind string `json:"kind"` // rand nul badutf8 lines
	Seed uint32 `json:"seed"`
}

type Writer struct {
	Late   bool    `json:"late"` // opened by the previous writer just before it closes
	Chunks []Chunk `json:"chunks"`
	// EmptyWrites: also issue Write(nil)/Write([]byte{}) between chunks
	EmptyWrites bool `json:"empty_writes"`
}

type Case struct {
	Writers  []Writer `json:"writers"`
	Mode     string   `json:"mode"` // read readall writeto readline
	BufSizes []int    `json:"buf_sizes"`
	Tee      bool     `json:"tee"`
	Procs    int      `json:"gomaxprocs"`
	Perturb  uint64   `json:"perturb"`
	// ReaderLate: the reader starts this many milliseconds after the writers,
	// so that with more than 1 MiB pending the writers are already parked on
	// the full pipe when it arrives
	ReaderLate int `json:"reader_late_ms,omitempty"`
}

func payload(c Chunk) []byte {
	b := make([]byte, c.Size)
	x := uint64(c.Seed)*0x9e3779b97f4a7c15 + 1
	next := func() uint64 {
		x ^= x << 13
		x ^= x >> 7
		x ^= x << 17
		return x
	}
	switch c.Kind {
	case "nul":
		for i := range b {
			if next()%3 == 0 {
				b[i] = byte(next())
			}
		}
	case "badutf8":
		pat := []byte{0xff, 0xc3, 0x28, 0xe2, 0x82, 0xf0, 0x9f, 0x00, 0x80, 0xed, 0xa0, 0x80}
		for i := range b {
			b[i] = pat[next()%uint64(len(pat))]
		}
	case "lines":
		// newline-terminated lines shorter than bufio.Scanner's token limit
		col := 0
		for i := range b {
			if col > 200 && next()%64 == 0 || col > 50000 {
				b[i] = '\n'
				col = 0
			} else {
				b[i] = byte('a' + next()%26)
				col++
			}
		}
		if len(b) > 0 {
			b[len(b)-1] = '\n'
		}
	default:
		for i := 0; i+8 <= len(b); i += 8 {
			binary.LittleEndian.PutUint64(b[i:], next())
		}
		for i := len(b) &^ 7; i < len(b); i++ {
			b[i] = byte(next())
		}
	}
	return b
}

func genSize(t *rapid.T) int {
	switch rapid.IntRange(0, 11).Draw(t, "sizeclass") {
	case 0:
		return 0
	case 1:
		return 1
	case 2, 3, 4:
		return rapid.IntRange(2, 300).Draw(t, "size")
	case 5, 6:
		return rapid.IntRange(300, 70_000).Draw(t, "size")
	case 7, 8:
		return rapid.IntRange(70_000, 600_000).Draw(t, "size")
	case 9:
		return rapid.SampledFrom([]int{1<<20 - 1, 1 << 20, 1<<20 + 1, 10 * 1024, 10*1024 + 1}).Draw(t, "size")
	default:
		return rapid.IntRange(600_000, 3<<20).Draw(t, "size")
	}
}

func gen(t *rapid.T) Case {
	var c Case
	c.Mode = rapid.SampledFrom([]string{"read", "read", "read", "readall", "writeto", "readline"}).Draw(t, "mode")
	nw := rapid.SampledFrom([]int{1, 1, 2, 2, 3, 4}).Draw(t, "writers")
	if c.Mode == "readline" {
		nw = 1 // lines from several writers could interleave mid-line: not a pipe question
	}
	total := 0
	for w := 0; w < nw; w++ {
		wr := Writer{Late: w > 0 && rapid.Bool().Draw(t, "late"), EmptyWrites: rapid.Bool().Draw(t, "emptywrites")}
		nc := rapid.IntRange(0, 6).Draw(t, "chunks")
		for i := 0; i < nc; i++ {
			ch := Chunk{Size: genSize(t), Seed: rapid.Uint32().Draw(t, "seed")}
			if total+ch.Size > 8<<20 {
				ch.Size = rapid.IntRange(0, 100).Draw(t, "size")
			}
			total += ch.Size
			if c.Mode == "readline" {
				ch.Kind = "lines"
			} else {
				ch.Kind = rapid.SampledFrom([]string{"rand", "rand", "nul", "badutf8", "lines"}).Draw(t, "kind")
			}
			wr.Chunks = append(wr.Chunks, ch)
		}
		c.Writers = append(c.Writers, wr)
	}
	// reader buffer sizes, cycled; keep the number of Read calls bounded
	nb := rapid.IntRange(1, 4).Draw(t, "nbuf")
	min := 1
	if total > 5_000 {
		min = total / 5_000
	}
	for i := 0; i < nb; i++ {
		hi := 64 * 1024
		if min > hi {
			hi = min * 2
		}
		var b int
		if rapid.IntRange(0, 3).Draw(t, "smallbuf") == 0 {
			b = min
		} else {
			b = rapid.IntRange(min, hi).Draw(t, "buf")
		}
		c.BufSizes = append(c.BufSizes, b)
	}
	c.Tee = rapid.IntRange(0, 4).Draw(t, "tee") == 0
	c.Procs = rapid.SampledFrom([]int{1, 2, 4, 16}).Draw(t, "gomaxprocs")
	c.Perturb = rapid.Uint64Range(1, 1<<62).Draw(t, "perturb")
	c.ReaderLate = rapid.SampledFrom([]int{0, 0, 0, 5, 30}).Draw(t, "readerlate")
	return c
}

func frame(w int, p []byte) []byte {
	b := make([]byte, 5+len(p))
	b[0] = byte(w)
	binary.BigEndian.PutUint32(b[1:], uint32(len(p)))
	copy(b[5:], p)
	return b
}

func check(c Case) *core.Violation {
	old := runtime.GOMAXPROCS(c.Procs)
	defer runtime.GOMAXPROCS(old)
	verifhook.SetSeed(c.Perturb)
	defer verifhook.SetSeed(0)

	done := make(chan *core.Violation, 1)
	go func() { done <- scenario(c) }()
	select {
	case v := <-done:
		return v
	case <-time.After(core.HangBudget):
		buf := make([]byte, 1<<18)
		n := runtime.Stack(buf, true)
		return core.Violf("hang", "scenario did not finish within %s (writer blocked on a full pipe or reader never saw EOF)\n%s", core.HangBudget, buf[:n])
	}
}

func scenario(c Case) *core.Violation {
	pipe := streams.NewStdin()
	var wio stdio.Io = pipe
	var secondary *streams.Stdin
	if c.Tee {
		var tee *streams.Tee
		tee, secondary = streams.NewTee(pipe)
		wio = tee
	}
	multi := len(c.Writers) > 1

	// expected per-writer sequences and the writes each writer issues
	writes := make([][][]byte, len(c.Writers))
	var totalWritten uint64
	for w, wr := range c.Writers {
		for _, ch := range wr.Chunks {
			p := payload(ch)
			if multi {
				p = frame(w, p)
			}
			writes[w] = append(writes[w], p)
			totalWritten += uint64(len(p))
		}
	}

	var closesIssued int32
	var wg sync.WaitGroup
	var werr atomic.Value

	// writer w runs its writes, then opens+starts any directly following
	// late writer before closing itself.
	var start func(w int)
	start = func(w int) {
		wg.Add(1)
		go func() {
			defer wg.Done()
			var scratch []byte
			for _, p := range writes[w] {
				if c.Writers[w].EmptyWrites {
					if n, err := wio.Write(nil); n != 0 || err != nil {
						werr.Store(fmt.Sprintf("Write(nil) = %d, %v", n, err))
					}
				}
				// write from a scratch buffer and scribble over it as soon
				// as Write returns, as any io.Copy-style producer reusing its
				// buffer does: a pipe must not retain the caller's slice
				if cap(scratch) < len(p) {
					scratch = make([]byte, len(p))
				}
				buf := scratch[:len(p)]
				copy(buf, p)
				n, err := wio.Write(buf)
				for i := range buf {
					buf[i] ^= 0xff
				}
				if len(p) > 0 && (n != len(p) || err != nil) {
					werr.Store(fmt.Sprintf("Write of %d bytes returned %d, %v", len(p), n, err))
				}
				if len(p) == 0 && (n != 0 || err != nil) {
					werr.Store(fmt.Sprintf("Write of 0 bytes returned %d, %v", n, err))
				}
			}
			if w+1 < len(c.Writers) && c.Writers[w+1].Late {
				wio.Open()
				start(w + 1)
			}
			atomic.AddInt32(&closesIssued, 1)
			wio.Close()
		}()
	}
	// open every non-late writer before anything runs (a writer must be open
	// before the reader could observe "no writers")
	for w := range c.Writers {
		if !c.Writers[w].Late {
			wio.Open()
		}
	}
	for w := range c.Writers {
		if !c.Writers[w].Late {
			start(w)
		}
	}

	// reader
	var got []byte
	var eofEarly string
	eofCheck := func() {
		if n := atomic.LoadInt32(&closesIssued); int(n) != len(c.Writers) {
			eofEarly = fmt.Sprintf("reader saw end-of-stream while only %d of %d writers had closed", n, len(c.Writers))
		}
	}
	var rerr error
	if c.ReaderLate > 0 {
		time.Sleep(time.Duration(c.ReaderLate) * time.Millisecond)
	}
	switch c.Mode {
	case "read":
		i := 0
		for {
			buf := make([]byte, c.BufSizes[i%len(c.BufSizes)])
			i++
			n, err := wio.Read(buf)
			got = append(got, buf[:n]...)
			if err == io.EOF {
				eofCheck()
				break
			}
			if err != nil {
				rerr = err
				break
			}
		}
	case "readall":
		b, err := wio.ReadAll()
		eofCheck()
		got, rerr = append([]byte{}, b...), err
	case "writeto":
		var bb bytes.Buffer
		n, err := wio.WriteTo(&bb)
		eofCheck()
		got, rerr = bb.Bytes(), err
		if err == nil && n != int64(bb.Len()) {
			return core.Violf("writeto-count", "WriteTo returned %d but wrote %d bytes", n, bb.Len())
		}
	case "readline":
		rerr = wio.ReadLine(func(b []byte) { got = append(got, b...) })
		eofCheck()
	}
	wg.Wait()
	if s, _ := werr.Load().(string); s != "" {
		return core.Violf("write-result", "%s", s)
	}
	if rerr != nil {
		return core.Violf("read-error", "reader returned error %v", rerr)
	}
	if eofEarly != "" {
		return core.Violf("early-eof", "%s (read %d of %d bytes)", eofEarly, len(got), totalWritten)
	}

	if v := compare(c, writes, got, multi, "primary"); v != nil {
		return v
	}
	if c.Tee {
		sb, err := secondary.ReadAll()
		if err != nil {
			return core.Violf("tee-error", "secondary ReadAll: %v", err)
		}
		if v := compare(c, writes, sb, multi, "tee-secondary"); v != nil {
			return v
		}
	}
	bw, br := wio.Stats()
	if bw != totalWritten || br != uint64(len(got)) {
		return core.Violf("stats", "Stats() = (written %d, read %d); bytes actually written %d, read %d (mode %s)", bw, br, totalWritten, len(got), c.Mode)
	}
	return nil
}

func compare(c Case, writes [][][]byte, got []byte, multi bool, what string) *core.Violation {
	if !multi {
		var want []byte
		for _, p := range writes[0] {
			want = append(want, p...)
		}
		if !bytes.Equal(got, want) {
			return core.Violf("bytes-differ", "%s: read %d bytes, written %d; first difference at offset %d", what, len(got), len(want), firstDiff(got, want))
		}
		return nil
	}
	next := make([]int, len(writes))
	off := 0
	for off < len(got) {
		if len(got)-off < 5 {
			return core.Violf("torn-frame", "%s: %d trailing bytes do not form a frame header at offset %d", what, len(got)-off, off)
		}
		w := int(got[off])
		n := int(binary.BigEndian.Uint32(got[off+1:]))
		if w >= len(writes) || next[w] >= len(writes[w]) {
			return core.Violf("bad-frame", "%s: frame at offset %d names writer %d (frame #%d of that writer): not something that was written (torn, duplicated or reordered write)", what, off, w, next[w])
		}
		want := writes[w][next[w]]
		if off+5+n > len(got) || !bytes.Equal(got[off:off+5+n], want) {
			return core.Violf("frame-differs", "%s: writer %d frame #%d at offset %d differs from what was written (len %d vs %d)", what, w, next[w], off, 5+n, len(want))
		}
		next[w]++
		off += 5 + n
	}
	for w := range writes {
		if next[w] != len(writes[w]) {
			return core.Violf("lost-frames", "%s: writer %d: %d of %d writes arrived", what, w, next[w], len(writes[w]))
		}
	}
	return nil
}

func firstDiff(a, b []byte) int {
	n := len(a)
	if len(b) < n {
		n = len(b)
	}
	for i := 0; i < n; i++ {
		if a[i] != b[i] {
			return i
		}
	}
	return n
}

func classify(c Case) core.Class {
	total, maxChunk, chunks := 0, 0, 0
	special := false
	late := false
	for _, w := range c.Writers {
		late = late || w.Late
		for _, ch := range w.Chunks {
			total += ch.Size
			chunks++
			if ch.Size > maxChunk {
				maxChunk = ch.Size
			}
			if ch.Size == 0 || ch.Kind == "nul" || ch.Kind == "badutf8" {
				special = true
			}
		}
	}
	cl := core.Class{}
	switch {
	case total > 1<<20 && len(c.Writers) > 1:
		cl.Label = "multi-writer,>1MiB(back-pressure)"
	case total > 1<<20:
		cl.Label = "single-writer,>1MiB(back-pressure)"
	case len(c.Writers) > 1 && late:
		cl.Label = "multi-writer,late-open"
	case len(c.Writers) > 1:
		cl.Label = "multi-writer"
	case special:
		cl.Label = "single-writer,empty/NUL/invalid-utf8"
	default:
		cl.Label = "single-writer,small"
	}
	cl.NonTrivial = chunks > 0 && (len(c.Writers) > 1 || total > 1<<20 || special)
	if c.Tee {
		cl.Label += ",tee"
	}
	cl.Label = c.Mode + ":" + cl.Label
	return cl
}

var spec = core.Spec[Case]{ID: "C01", Gen: gen, Check: check, Classify: classify, Journal: true}

func TestProp(t *testing.T)   { core.RunProp(t, spec) }
func TestReplay(t *testing.T) { core.Replay(t, spec) }
