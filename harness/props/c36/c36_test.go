// C36 — %[ ] and %{ } literals build the same value as JSON.
//
// Domain: random JSON documents with an array or object at the top (nesting
// ≤ 5, empty containers, every JSON number spelling incl. exponents and −0,
// booleans, null incl. null object values, strings/keys without backslash, `$`,
// `~`, parentheses and control characters but otherwise hostile: quotes of the
// other kind, `#`, `..`, `%[`, braces, brackets, colons, commas, pipes …),
// printed compactly or pretty-printed with random spaces/tabs between tokens,
// prefixed with `%`.
//
// Oracle (differential): encoding/json applied to the same text. The Go value
// of expressions.ExecuteExpr("%…"), and the stdout of the literal run as a
// statement (parsed with encoding/json), must equal it — numbers as float64
// bits, object key sets equal.
package c36

import (
	"encoding/json"
	"fmt"
	"math"
	"sort"
	"strconv"
	"strings"
	"testing"

	"github.com/lmorg/murex/lang"
	"github.com/lmorg/murex/lang/expressions"
	"pgregory.net/rapid"
	"verif/harness/core"
)

func TestMain(m *testing.M) {
	core.InitMurex()
	// c36args prints the arguments it was given as a JSON array of strings
	lang.DefineFunction("c36args", func(p *lang.Process) error {
		b, err := json.Marshal(p.Parameters.StringArray())
		if err != nil {
			return err
		}
		p.Stdout.SetDataType("json")
		_, err = p.Stdout.Write(b)
		return err
	}, "json")
	core.Main(m, "C36")
}

// Node is a JSON value together with the way it is written.
type Node struct {
	K    string   `json:"k"`              // obj arr str num true false null
	S    string   `json:"s,omitempty"`    // str: contents; num: the number as written
	Keys []string `json:"keys,omitempty"` // obj: keys, parallel to Kids
	Kids []*Node  `json:"kids,omitempty"`
	// layout of a container
	NL  bool   `json:"nl,omitempty"`  // line break after the opening bracket, after every comma and before the closing bracket
	Ind string `json:"ind,omitempty"` // indent unit when NL
	SC  string `json:"sc,omitempty"`  // blanks before a colon
	SA  string `json:"sa,omitempty"`  // blanks after a colon
	SB  string `json:"sb,omitempty"`  // blanks before a comma
	SD  string `json:"sd,omitempty"`  // blanks after a comma (when !NL)
	Pad string `json:"pad,omitempty"` // blanks inside the brackets (when !NL)
}

type Case struct {
	Mode string `json:"mode"` // api | stmt | arg
	EOL  string `json:"eol"`  // "\n" or "\r\n"
	Doc  *Node  `json:"doc"`
}

// ---------------------------------------------------------------------------
// generator

var fixedNums = []string{"0", "-0", "-0.0", "0.0", "1", "-1", "7", "10", "42", "100", "-273", "65535", "2147483648", "9007199254740993",
	"123456789012345678901234567890", "0.5", "1.0", "3.14", "-2.25", "0.000001", "1.10", "100.001", "0.1", "0.30000000000000004",
	"1e3", "1E3", "1e+3", "1E-3", "1.5e-7", "-1e+0", "0e0", "0E-5", "-0e0", "2.5E+10", "1e21", "1e-7", "1e308", "-1.7976931348623157e308", "1.7976931348623157E+308",
	"5e-324", "2.2250738585072014e-308", "1e-400", "0.1e1", "12e0", "1e00", "1e-00", "1E+02", "4.9e-324", "0.00000000000000000000000000001"}

func digits(t *rapid.T, n int, label string) string {
	var b strings.Builder
	for i := 0; i < n; i++ {
		b.WriteByte(byte('0' + rapid.IntRange(0, 9).Draw(t, label)))
	}
	return b.String()
}

func genNum(t *rapid.T) string {
	if rapid.IntRange(0, 2).Draw(t, "fixednum") == 0 {
		return rapid.SampledFrom(fixedNums).Draw(t, "num")
	}
	var b strings.Builder
	if rapid.IntRange(0, 3).Draw(t, "neg") == 0 {
		b.WriteByte('-')
	}
	// int part: 0 | [1-9][0-9]*
	if n := rapid.IntRange(0, 12).Draw(t, "intdigits"); n == 0 {
		b.WriteByte('0')
	} else {
		b.WriteByte(byte('1' + rapid.IntRange(0, 8).Draw(t, "lead")))
		b.WriteString(digits(t, n-1, "d"))
	}
	if rapid.IntRange(0, 2).Draw(t, "frac") == 0 {
		b.WriteByte('.')
		b.WriteString(digits(t, rapid.IntRange(1, 8).Draw(t, "fracdigits"), "f"))
	}
	if rapid.IntRange(0, 2).Draw(t, "exp") == 0 {
		b.WriteString(rapid.SampledFrom([]string{"e", "E"}).Draw(t, "e"))
		b.WriteString(rapid.SampledFrom([]string{"", "+", "-"}).Draw(t, "esign"))
		b.WriteString(strconv.Itoa(rapid.IntRange(0, 40).Draw(t, "exponent")))
	}
	return b.String()
}

// strPieces never contain a backslash, `$`, `~`, parentheses, a double quote
// or a control character (all of those need / are murex or JSON escapes).
var strPieces = []string{"a", "b", "key", "x1", "foo", "Bar", "0", "1", "-1", "1.5", "1e3", "true", "false", "null", " ", "  ",
	"'", "''", "#", "/#", "#/", "..", "...", "1..3", "a..z", "%[", "%{", "%", "{", "}", "[", "]", "{}", "[]", ":", ",", ", ", ": ",
	"@", "@x", "*", "?", "|", ";", "&", "&&", "||", "<", ">", "->", "=>", ">>", "|>", "-", "--", "=", "==", "!", "^", "+", "/", ".",
	"{RED}", "{BLUE}", "{ESC}", "{F1}", "{RESET}", "{TAB}", "é", "日本", "🙂", " ", " ", "\u007f", "`", "out x", "; out INJECTED", "| out INJECTED", "<err>", "<!out>", "_"}

func genStr(t *rapid.T, max int) string {
	n := rapid.IntRange(0, max).Draw(t, "strparts")
	var b strings.Builder
	for i := 0; i < n; i++ {
		if rapid.IntRange(0, 9).Draw(t, "rune") == 0 {
			r := rapid.Rune().Draw(t, "r")
			if r < 0x20 || r == '\\' || r == '$' || r == '~' || r == '(' || r == ')' || r == '"' || r == 0xFFFD {
				r = '_'
			}
			b.WriteRune(r)
			continue
		}
		b.WriteString(rapid.SampledFrom(strPieces).Draw(t, "piece"))
	}
	return strings.ToValidUTF8(b.String(), "_")
}

var blanks = []string{"", "", "", " ", "  ", "\t"}

func layout(t *rapid.T, n *Node) {
	n.NL = rapid.IntRange(0, 2).Draw(t, "pretty") == 2
	if n.NL {
		n.Ind = rapid.SampledFrom([]string{"  ", "\t", "    ", " ", ""}).Draw(t, "indent")
	} else {
		n.SD = rapid.SampledFrom(blanks).Draw(t, "sd")
		n.Pad = rapid.SampledFrom(blanks).Draw(t, "pad")
	}
	n.SB = rapid.SampledFrom(blanks).Draw(t, "sb")
	if n.K == "obj" {
		n.SC = rapid.SampledFrom(blanks).Draw(t, "sc")
		n.SA = rapid.SampledFrom(blanks).Draw(t, "sa")
	}
}

func genValue(t *rapid.T, depth int, top bool) *Node {
	k := rapid.IntRange(0, 11).Draw(t, "valuekind")
	if top {
		k = rapid.SampledFrom([]int{8, 10}).Draw(t, "topkind")
	}
	if depth <= 0 && k >= 8 {
		// containers at the depth limit are empty
		n := &Node{K: "arr"}
		if k >= 10 {
			n.K = "obj"
		}
		layout(t, n)
		return n
	}
	switch k {
	case 0, 1:
		return &Node{K: "str", S: genStr(t, 4)}
	case 2, 3:
		return &Node{K: "num", S: genNum(t)}
	case 4:
		return &Node{K: "true"}
	case 5:
		return &Node{K: "false"}
	case 6, 7:
		return &Node{K: "null"}
	case 8, 9:
		n := &Node{K: "arr"}
		w := rapid.SampledFrom([]int{1, 2, 0, 3, 4, 5}).Draw(t, "width")
		for i := 0; i < w; i++ {
			n.Kids = append(n.Kids, genValue(t, depth-1, false))
		}
		layout(t, n)
		return n
	default:
		n := &Node{K: "obj"}
		w := rapid.SampledFrom([]int{1, 2, 0, 3, 4, 5}).Draw(t, "width")
		for i := 0; i < w; i++ {
			n.Keys = append(n.Keys, genStr(t, 2))
			n.Kids = append(n.Kids, genValue(t, depth-1, false))
		}
		layout(t, n)
		return n
	}
}

func gen(t *rapid.T) Case {
	c := Case{Doc: genValue(t, rapid.IntRange(1, 5).Draw(t, "depth"), true)}
	c.Mode = rapid.SampledFrom([]string{"api", "stmt", "arg"}).Draw(t, "mode")
	c.EOL = rapid.SampledFrom([]string{"\n", "\n", "\n", "\r\n"}).Draw(t, "eol")
	return c
}

// ---------------------------------------------------------------------------
// printer

func (n *Node) print(b *strings.Builder, eol, indent string) {
	switch n.K {
	case "str":
		b.WriteString(`"` + n.S + `"`)
		return
	case "num":
		b.WriteString(n.S)
		return
	case "true", "false", "null":
		b.WriteString(n.K)
		return
	}
	open, close := "[", "]"
	if n.K == "obj" {
		open, close = "{", "}"
	}
	b.WriteString(open)
	inner := indent + n.Ind
	if len(n.Kids) == 0 {
		if !n.NL {
			b.WriteString(n.Pad)
		}
		b.WriteString(close)
		return
	}
	if n.NL {
		b.WriteString(eol + inner)
	} else {
		b.WriteString(n.Pad)
	}
	for i, kid := range n.Kids {
		if i > 0 {
			b.WriteString(n.SB + ",")
			if n.NL {
				b.WriteString(eol + inner)
			} else {
				b.WriteString(n.SD)
			}
		}
		if n.K == "obj" {
			b.WriteString(`"` + n.Keys[i] + `"` + n.SC + ":" + n.SA)
		}
		kid.print(b, eol, inner)
	}
	if n.NL {
		b.WriteString(eol + indent)
	} else {
		b.WriteString(n.Pad)
	}
	b.WriteString(close)
}

// Text is the JSON document as written (without the leading %).
func (c Case) Text() string {
	var b strings.Builder
	eol := c.EOL
	if eol == "" {
		eol = "\n"
	}
	c.Doc.print(&b, eol, "")
	return b.String()
}

func canonical(n *Node, b *strings.Builder) {
	switch n.K {
	case "str":
		b.WriteString(strconv.Quote(n.S))
	case "num":
		b.WriteString(n.S)
	case "true", "false", "null":
		b.WriteString(n.K)
	default:
		open, close := "[", "]"
		if n.K == "obj" {
			open, close = "{", "}"
		}
		b.WriteString(open)
		for i, kid := range n.Kids {
			if i > 0 {
				b.WriteByte(',')
			}
			if n.K == "obj" {
				b.WriteString(strconv.Quote(n.Keys[i]) + ":")
			}
			canonical(kid, b)
		}
		b.WriteString(close)
	}
}

// ---------------------------------------------------------------------------
// comparison

func show(v any) string {
	switch t := v.(type) {
	case float64:
		return fmt.Sprintf("number %s (bits %016x)", strconv.FormatFloat(t, 'g', -1, 64), math.Float64bits(t))
	case string:
		return fmt.Sprintf("string %q", t)
	case nil:
		return "null"
	case bool:
		return fmt.Sprintf("boolean %v", t)
	case []any:
		return fmt.Sprintf("array of %d", len(t))
	case map[string]any:
		return fmt.Sprintf("object of %d", len(t))
	}
	return fmt.Sprintf("%#v (%T)", v, v)
}

// diff returns "" when got equals want, otherwise the first difference.
func diff(path string, got, want any) string {
	// integers are the same value as the equal float
	if i, ok := got.(int); ok {
		got = float64(i)
	}
	switch w := want.(type) {
	case nil:
		if got != nil {
			return fmt.Sprintf("%s: want null, got %s", path, show(got))
		}
	case bool:
		if g, ok := got.(bool); !ok || g != w {
			return fmt.Sprintf("%s: want %s, got %s", path, show(want), show(got))
		}
	case string:
		if g, ok := got.(string); !ok || g != w {
			return fmt.Sprintf("%s: want %s, got %s", path, show(want), show(got))
		}
	case float64:
		if g, ok := got.(float64); !ok || math.Float64bits(g) != math.Float64bits(w) {
			return fmt.Sprintf("%s: want %s, got %s", path, show(want), show(got))
		}
	case []any:
		g, ok := got.([]any)
		if !ok {
			return fmt.Sprintf("%s: want %s, got %s", path, show(want), show(got))
		}
		if len(g) != len(w) {
			return fmt.Sprintf("%s: want %s, got %s", path, show(want), show(got))
		}
		for i := range w {
			if d := diff(fmt.Sprintf("%s[%d]", path, i), g[i], w[i]); d != "" {
				return d
			}
		}
	case map[string]any:
		g, ok := got.(map[string]any)
		if !ok {
			return fmt.Sprintf("%s: want %s, got %s", path, show(want), show(got))
		}
		keys := make([]string, 0, len(w))
		for k := range w {
			keys = append(keys, k)
		}
		sort.Strings(keys)
		for _, k := range keys {
			gv, ok := g[k]
			if !ok {
				return fmt.Sprintf("%s: key %q is missing", path, k)
			}
			if d := diff(fmt.Sprintf("%s.%q", path, k), gv, w[k]); d != "" {
				return d
			}
		}
		if len(g) != len(w) {
			extra := make([]string, 0)
			for k := range g {
				if _, ok := w[k]; !ok {
					extra = append(extra, k)
				}
			}
			sort.Strings(extra)
			return fmt.Sprintf("%s: unexpected keys %q", path, extra)
		}
	default:
		return fmt.Sprintf("%s: unexpected reference value %#v", path, want)
	}
	return ""
}

// ---------------------------------------------------------------------------
// check

var (
	apiProc  *lang.Process
	apiCalls int
)

func testProcess() *lang.Process {
	if apiProc == nil || apiCalls >= 2000 {
		apiProc = lang.NewTestProcess()
		apiCalls = 0
	}
	apiCalls++
	return apiProc
}

func check(c Case) *core.Violation {
	text := c.Text()
	var want any
	if err := json.Unmarshal([]byte(text), &want); err != nil {
		// cannot happen by construction; counted, never asserted
		core.Count("filtered-not-json", 1)
		return nil
	}
	src := "%" + text
	switch c.Mode {
	case "api":
		dt, err := expressions.ExecuteExpr(testProcess(), []rune(src))
		if err != nil {
			return core.Violf("error", "ExecuteExpr failed on a JSON document: %v\n%s", err, src)
		}
		v, err := dt.GetValue()
		if err != nil {
			return core.Violf("error", "GetValue failed: %v\n%s", err, src)
		}
		if d := diff("$", v.Value, want); d != "" {
			return core.Violf("value", "ExecuteExpr value differs from encoding/json at %s\n%s", d, src)
		}
		return nil
	case "stmt":
		r := core.Run(src + "\n")
		if r.Hung {
			return core.Violf("hang", "statement did not finish\n%s", src)
		}
		if r.Err != nil || len(r.Stderr) != 0 || r.Exit != 0 {
			return core.Violf("error", "statement failed: err=%v exit=%d stderr=%q stdout=%q\n%s", r.Err, r.Exit, r.Stderr, r.Stdout, src)
		}
		var got any
		if err := json.Unmarshal(r.Stdout, &got); err != nil {
			return core.Violf("output", "stdout of the literal is not JSON (%v): %q\n%s", err, r.Stdout, src)
		}
		if d := diff("$", got, want); d != "" {
			return core.Violf("value", "stdout of the literal differs from encoding/json at %s\nstdout: %s\n%s", d, r.Stdout, src)
		}
		return nil
	case "arg":
		// the literal as one argument among others: the command gets exactly
		// that argument, and its text is the JSON value
		r := core.Run("c36args HEAD " + src + " TAIL\n")
		if r.Hung {
			return core.Violf("hang", "statement did not finish\nc36args HEAD %s TAIL", src)
		}
		if r.Err != nil || len(r.Stderr) != 0 || r.Exit != 0 {
			return core.Violf("error", "statement failed: err=%v exit=%d stderr=%q stdout=%q\nc36args HEAD %s TAIL", r.Err, r.Exit, r.Stderr, r.Stdout, src)
		}
		var args []string
		if err := json.Unmarshal(r.Stdout, &args); err != nil {
			return core.Violf("output", "c36args did not print its arguments (%v): %q", err, r.Stdout)
		}
		if len(args) != 3 || args[0] != "HEAD" || args[2] != "TAIL" {
			return core.Violf("arguments", "`c36args HEAD %s TAIL` received the arguments %q: the literal must be exactly the second of three", src, args)
		}
		var got any
		if err := json.Unmarshal([]byte(args[1]), &got); err != nil {
			return core.Violf("output", "the literal's argument is not JSON (%v): %q\n%s", err, args[1], src)
		}
		if d := diff("$", got, want); d != "" {
			return core.Violf("value", "the literal's argument differs from encoding/json at %s\nargument: %s\n%s", d, args[1], src)
		}
		return nil
	}
	panic("bad mode " + c.Mode)
}

// ---------------------------------------------------------------------------
// classification

type shape struct {
	depth, nulls, bools, exps, empties, strs, nums, negZero, pretty, dupKeys int
}

func walk(n *Node, d int, sh *shape) {
	switch n.K {
	case "str":
		sh.strs++
	case "num":
		sh.nums++
		if strings.ContainsAny(n.S, "eE") {
			sh.exps++
		}
		if f, err := strconv.ParseFloat(n.S, 64); err == nil && f == 0 && math.Signbit(f) {
			sh.negZero++
		}
	case "true", "false":
		sh.bools++
	case "null":
		sh.nulls++
	default:
		if d+1 > sh.depth {
			sh.depth = d + 1
		}
		if len(n.Kids) == 0 {
			sh.empties++
		}
		if n.NL {
			sh.pretty++
		}
		if n.K == "obj" {
			seen := map[string]bool{}
			for _, k := range n.Keys {
				if seen[k] {
					sh.dupKeys++
				}
				seen[k] = true
			}
		}
		for _, kid := range n.Kids {
			walk(kid, d+1, sh)
		}
	}
}

func classify(c Case) core.Class {
	var sh shape
	walk(c.Doc, 0, &sh)
	var b strings.Builder
	canonical(c.Doc, &b)
	cl := core.Class{Key: b.String()}
	cl.NonTrivial = sh.depth >= 2 || sh.nulls > 0 || sh.bools > 0 || sh.exps > 0 || sh.empties > 0
	top := "array"
	if c.Doc.K == "obj" {
		top = "object"
	}
	switch {
	case sh.depth >= 2:
		cl.Label = fmt.Sprintf("%s/nesting>=2", top)
	case cl.NonTrivial:
		cl.Label = fmt.Sprintf("%s/flat-with-null|bool|exp|empty", top)
	default:
		cl.Label = fmt.Sprintf("%s/flat-plain", top)
	}
	core.Count("mode-"+c.Mode, 1)
	core.Count(fmt.Sprintf("depth-%d", sh.depth), 1)
	if sh.nulls > 0 {
		core.Count("has-null", 1)
	}
	if sh.bools > 0 {
		core.Count("has-boolean", 1)
	}
	if sh.exps > 0 {
		core.Count("has-exponent-number", 1)
	}
	if sh.negZero > 0 {
		core.Count("has-negative-zero", 1)
	}
	if sh.empties > 0 {
		core.Count("has-empty-container", 1)
	}
	if sh.pretty > 0 {
		core.Count("has-pretty-printed-container", 1)
	}
	if sh.dupKeys > 0 {
		core.Count("has-duplicate-key", 1)
	}
	if c.EOL == "\r\n" && sh.pretty > 0 {
		core.Count("crlf-line-ends", 1)
	}
	return cl
}

func known(c Case, v *core.Violation) string { return "" }

var spec = core.Spec[Case]{
	ID: "C36", Gen: gen, Check: check, Classify: classify, Known: known,
	Sample: func(c Case) any { return c.Mode + ": %" + c.Text() },
}

func TestProp(t *testing.T)   { core.RunProp(t, spec) }
func TestReplay(t *testing.T) { core.Replay(t, spec) }

// FuzzLiteral drives the same generator and oracle from go's coverage-guided
// fuzzer (thorough tier).
func FuzzLiteral(f *testing.F) {
	f.Fuzz(rapid.MakeFuzz(func(t *rapid.T) {
		c := gen(t)
		if v := core.Eval(spec, c, false); v != nil {
			t.Fatalf("C36 violated: %s", v.Error())
		}
	}))
}
