// C23 — Function parameters are bound and typed as declared.
//
// Two sub-checks share one Case type (Mode):
//
//	parse / parse-neg   lang.ParseMxFunctionParameters on a signature rendered
//	                    from generated fields (1-5 parameters, names, types or
//	                    none, `!` optional marker, default `[..]` and description
//	                    `".."` in either order with grammar punctuation inside,
//	                    arbitrary blanks, line breaks between parameters) must
//	                    return exactly those fields; a signature broken in one
//	                    documented way must be rejected.
//	bind-api / bind-src the function is defined (through lang.MxFunctions.Define,
//	                    or through `function name (sig) {..}` for an alphabet that
//	                    is safe inside parentheses) and called with a generated
//	                    argument list; its body prints every variable's value and
//	                    type; compared with a model of the stated rule.
package c23

import (
	"fmt"
	"reflect"
	"strconv"
	"strings"
	"sync/atomic"
	"testing"

	"github.com/lmorg/murex/lang"
	"github.com/lmorg/murex/lang/ref"
	"pgregory.net/rapid"
	"verif/harness/core"
)

func TestMain(m *testing.M) {
	core.InitMurex()
	core.Main(m, "C23")
}

// Param is one declared parameter.
type Param struct {
	Name       string `json:"name"`
	Type       string `json:"type"` // "" = omitted (defaults to str)
	Optional   bool   `json:"optional"`
	HasDefault bool   `json:"has_default"`
	Default    string `json:"default"`
	HasDesc    bool   `json:"has_desc"`
	Desc       string `json:"desc"`
	DescFirst  bool   `json:"desc_first"`  // description written before the default
	PreName    string `json:"pre_name"`    // blanks / line breaks before the name
	PostColon  string `json:"post_colon"`  // blanks after the colon
	PreField1  string `json:"pre_field1"`  // blanks (>= 1) between type and first field
	PreField2  string `json:"pre_field2"`  // blanks (>= 0) between the two fields
	PostFields string `json:"post_fields"` // blanks / line breaks after the last field (only where a field ends the parameter)
	PostType   string `json:"post_type"`   // blanks / line breaks after a type that no field follows
}

// Arg is one call argument.
type Arg struct {
	Val string `json:"val"`
}

type Case struct {
	Mode   string  `json:"mode"` // parse, parse-neg, bind-api, bind-src
	Params []Param `json:"params"`
	Tail   string  `json:"tail"` // blanks / line breaks after the last parameter
	Neg    string  `json:"neg"`  // parse-neg: which rule is broken
	NegAt  int     `json:"neg_at"`
	Args   []Arg   `json:"args"`
}

// ---------------------------------------------------------------------------
// rendering

func (p Param) render() string {
	var b strings.Builder
	b.WriteString(p.PreName)
	if p.Optional {
		b.WriteString("!")
	}
	b.WriteString(p.Name)
	if p.Type == "" {
		return b.String()
	}
	b.WriteString(":")
	b.WriteString(p.PostColon)
	b.WriteString(p.Type)
	def := "[" + p.Default + "]"
	desc := "\"" + p.Desc + "\""
	var fields []string
	switch {
	case p.HasDefault && p.HasDesc && p.DescFirst:
		fields = []string{desc, def}
	case p.HasDefault && p.HasDesc:
		fields = []string{def, desc}
	case p.HasDefault:
		fields = []string{def}
	case p.HasDesc:
		fields = []string{desc}
	}
	for i, f := range fields {
		if i == 0 {
			b.WriteString(p.PreField1)
		} else {
			b.WriteString(p.PreField2)
		}
		b.WriteString(f)
	}
	if len(fields) > 0 {
		b.WriteString(p.PostFields)
	} else {
		b.WriteString(p.PostType)
	}
	return b.String()
}

func (c Case) signature() string {
	var parts []string
	for _, p := range c.Params {
		parts = append(parts, p.render())
	}
	return strings.Join(parts, ",") + c.Tail
}

// broken renders the signature with one documented rule violated.
func (c Case) broken() string {
	at := 0
	if len(c.Params) > 0 {
		at = c.NegAt % len(c.Params)
	}
	ps := append([]Param{}, c.Params...)
	join := func() string {
		var parts []string
		for _, p := range ps {
			parts = append(parts, p.render())
		}
		return strings.Join(parts, ",")
	}
	switch c.Neg {
	case "trailing-comma":
		return join() + "," + c.Tail
	case "leading-comma":
		return "," + join()
	case "double-comma":
		return join() + ",," + ps[0].render()
	case "missing-name":
		ps[at].Name = ""
		ps[at].Optional = false
		if ps[at].Type == "" {
			ps[at].Type = "str"
		}
		return join()
	case "newline-in-default":
		ps[at] = withType(ps[at])
		ps[at].HasDefault = true
		ps[at].Default = "a\nb"
		return join()
	case "newline-in-description":
		ps[at] = withType(ps[at])
		ps[at].HasDesc = true
		ps[at].Desc = "a\nb"
		return join()
	case "mandatory-after-optional":
		// first parameter optional, a later one mandatory
		ps[0].Optional = true
		last := ps[len(ps)-1]
		last.Name = last.Name + "z"
		last.Optional = false
		ps = append(ps, last)
		return join()
	case "unterminated-default":
		ps = ps[:at+1]
		ps[at] = withType(ps[at])
		ps[at].HasDefault, ps[at].HasDesc = false, false
		return join() + " [abc"
	case "unterminated-description":
		ps = ps[:at+1]
		ps[at] = withType(ps[at])
		ps[at].HasDefault, ps[at].HasDesc = false, false
		return join() + " \"abc"
	case "blank-in-name":
		ps[at].Name = ps[at].Name + " x"
		return join()
	case "bang-in-type":
		ps[at] = withType(ps[at])
		ps[at].Type = "s!tr"
		return join()
	case "stray-bracket-in-name":
		ps[at].Name = ps[at].Name + "["
		return join()
	case "empty":
		return strings.Repeat(" ", at)
	}
	panic("unknown neg " + c.Neg)
}

func withType(p Param) Param {
	if p.Type == "" {
		p.Type = "str"
		p.PostColon = " "
		p.PreField1 = " "
	}
	return p
}

// ---------------------------------------------------------------------------
// generator

var negKinds = []string{"trailing-comma", "leading-comma", "double-comma", "missing-name", "newline-in-default", "newline-in-description", "mandatory-after-optional", "unterminated-default", "unterminated-description", "blank-in-name", "bang-in-type", "stray-bracket-in-name", "empty"}

var blanks = []string{"", " ", "  ", "\t", " \t "}
var blanks1 = []string{" ", " ", "  ", "\t", " \t "}
var breaks = []string{"", "", " ", "\n", "\n    ", "\r\n\t", " \n ", "\n\n"}

// field text: anything but the terminator, CR and LF. Grammar punctuation is
// frequent on purpose.
func genField(t *rapid.T, terminator rune, safe bool) string {
	toks := []string{":", ",", "[", "\"", "!", " ", " ", "a", "Bob", "100", "x y", "?", "-", "_", ".", "=", "/", "é", "日本", "🙂", "]", ", b: int", ": str", "!c", "[d]", "\"e\""}
	if !safe {
		toks = append(toks, "\t", "(", ")", "{", "}", "'", "$", "@", "\\", "#", "|", ";", "&", "`", "%", "~", "*", "<", ">")
	}
	n := rapid.IntRange(0, 5).Draw(t, "fieldparts")
	var b strings.Builder
	for i := 0; i < n; i++ {
		b.WriteString(rapid.SampledFrom(toks).Draw(t, "fieldtok"))
	}
	s := strings.ReplaceAll(b.String(), string(terminator), "")
	return s
}

func genName(t *rapid.T, used map[string]bool, bind bool, i int) string {
	for {
		var n string
		if bind {
			n = "p" + rapid.StringMatching(`[a-z0-9_]{0,5}`).Draw(t, "name")
		} else {
			n = rapid.StringMatching(`[A-Za-z0-9_-]{1,8}`).Draw(t, "name")
		}
		if !used[n] {
			used[n] = true
			return n
		}
		n = fmt.Sprintf("%s%d", n, i)
		if !used[n] {
			used[n] = true
			return n
		}
	}
}

var (
	intVals  = []string{"0", "42", "-5", "7", "1000000"}
	numVals  = []string{"0", "1.5", "-2", "1000", "0.25", "-0.5"}
	boolVals = []string{"true", "false"}
)

func genParams(t *rapid.T, bind, safe bool) []Param {
	n := rapid.IntRange(1, 5).Draw(t, "nparams")
	firstOptional := rapid.IntRange(0, n).Draw(t, "first_optional") // parameters from this index on are optional
	used := map[string]bool{}
	var ps []Param
	for i := 0; i < n; i++ {
		p := Param{Name: genName(t, used, bind, i), Optional: i >= firstOptional}
		p.PreName = rapid.SampledFrom(breaks).Draw(t, "pre_name")
		if bind {
			p.Type = rapid.SampledFrom([]string{"str", "str", "int", "num", "bool", ""}).Draw(t, "type")
		} else {
			p.Type = rapid.SampledFrom([]string{"str", "int", "num", "bool", "", "json", "data-type", "X9", "a_b"}).Draw(t, "type")
		}
		if p.Type != "" {
			p.PostColon = rapid.SampledFrom(blanks).Draw(t, "post_colon")
			p.HasDefault = rapid.Bool().Draw(t, "has_default")
			p.HasDesc = rapid.Bool().Draw(t, "has_desc")
			p.DescFirst = rapid.Bool().Draw(t, "desc_first")
			p.PreField1 = rapid.SampledFrom(blanks1).Draw(t, "pre_field1")
			p.PreField2 = rapid.SampledFrom(blanks).Draw(t, "pre_field2")
			if p.HasDefault {
				switch {
				case bind && p.Type == "int":
					p.Default = rapid.SampledFrom(append([]string{"ten"}, intVals...)).Draw(t, "default")
				case bind && p.Type == "num":
					p.Default = rapid.SampledFrom(append([]string{"two"}, numVals...)).Draw(t, "default")
				case bind && p.Type == "bool":
					p.Default = rapid.SampledFrom(boolVals).Draw(t, "default")
				default:
					p.Default = genField(t, ']', safe)
				}
			}
			if p.HasDesc {
				p.Desc = genField(t, '"', safe)
			}
			if p.HasDefault || p.HasDesc {
				p.PostFields = rapid.SampledFrom(breaks).Draw(t, "post_fields")
			} else {
				// mostly nothing: anything else is rejected on the unchanged
				// tree (known finding) and would hide the rest of the case
				if rapid.IntRange(0, 9).Draw(t, "post_type_any") == 9 {
					p.PostType = rapid.SampledFrom(breaks).Draw(t, "post_type")
				}
			}
		}
		ps = append(ps, p)
	}
	return ps
}

func gen(t *rapid.T) Case {
	var c Case
	switch k := rapid.IntRange(0, 9).Draw(t, "mode"); {
	case k <= 4:
		c.Mode = "parse"
	case k <= 6:
		c.Mode = "parse-neg"
	case k <= 8:
		c.Mode = "bind-api"
	default:
		c.Mode = "bind-src"
	}
	bind := strings.HasPrefix(c.Mode, "bind")
	c.Params = genParams(t, bind, c.Mode == "bind-src")
	last := c.Params[len(c.Params)-1]
	if last.Type == "" {
		// after a bare name the grammar wants a comma or the end: no blanks
		c.Tail = ""
	} else if last.HasDefault || last.HasDesc || rapid.IntRange(0, 9).Draw(t, "tail_break_after_type") == 9 {
		c.Tail = rapid.SampledFrom(breaks).Draw(t, "tail")
	} else {
		c.Tail = rapid.SampledFrom(blanks).Draw(t, "tail")
	}
	if c.Mode == "parse-neg" {
		c.Neg = rapid.SampledFrom(negKinds).Draw(t, "neg")
		c.NegAt = rapid.IntRange(0, 4).Draw(t, "neg_at")
	}
	if bind {
		// mandatory parameters are always supplied (a missing one prompts on
		// the terminal); 0..n+1 further arguments
		mand := 0
		for _, p := range c.Params {
			if !p.Optional {
				mand++
			}
		}
		n := rapid.IntRange(mand, len(c.Params)+1).Draw(t, "nargs")
		for i := 0; i < n; i++ {
			typ := "str"
			if i < len(c.Params) && c.Params[i].Type != "" {
				typ = c.Params[i].Type
			}
			var v string
			bad := rapid.IntRange(0, 7).Draw(t, "bad") == 0
			switch typ {
			case "int":
				v = rapid.SampledFrom(intVals).Draw(t, "arg")
				if bad {
					v = rapid.SampledFrom([]string{"ten", "0x10", "1e", "--1", "4 2"}).Draw(t, "badarg")
				}
			case "num":
				v = rapid.SampledFrom(numVals).Draw(t, "arg")
				if bad {
					v = rapid.SampledFrom([]string{"two", "1.2.3", "1,5", "abc"}).Draw(t, "badarg")
				}
			case "bool":
				v = rapid.SampledFrom(boolVals).Draw(t, "arg")
			default:
				v = genField(t, '\'', true)
			}
			c.Args = append(c.Args, Arg{Val: v})
		}
	}
	return c
}

// ---------------------------------------------------------------------------
// model

func (c Case) expectedParams() []lang.MurexFuncParam {
	var out []lang.MurexFuncParam
	for _, p := range c.Params {
		e := lang.MurexFuncParam{Name: p.Name, DataType: p.Type, Optional: p.Optional}
		if p.Type == "" {
			e.DataType = "str"
		} else {
			if p.HasDefault {
				e.HasDefault, e.Default = true, p.Default
			}
			if p.HasDesc {
				e.Description = p.Desc
			}
		}
		out = append(out, e)
	}
	return out
}

func canonical(list []string, v string) bool {
	for _, s := range list {
		if s == v {
			return true
		}
	}
	return false
}

// convertible: only the canonical spellings are claimed to convert (and to
// print unchanged); the known-bad tokens are claimed not to convert; nothing
// else is generated for typed parameters.
func convertible(typ, v string) bool {
	switch typ {
	case "int":
		return canonical(intVals, v)
	case "num":
		return canonical(numVals, v)
	case "bool":
		return canonical(boolVals, v)
	}
	return true
}

// bindModel returns the expected stdout of the reporting body, or fails=true
// when the call must fail before the body runs.
func (c Case) bindModel() (stdout string, fails bool) {
	var b strings.Builder
	b.WriteString("S\n")
	for i, p := range c.Params {
		typ := p.Type
		if typ == "" {
			typ = "str"
		}
		var v string
		switch {
		case i < len(c.Args):
			v = c.Args[i].Val
		case p.Optional && p.HasDefault && p.Type != "":
			v = p.Default
		case p.Optional:
			continue // stays unset
		default:
			panic("generator supplied too few mandatory arguments")
		}
		if !convertible(typ, v) {
			return "", true
		}
		fmt.Fprintf(&b, "%s=%s|%s\n", p.Name, v, typ)
	}
	b.WriteString("E\n")
	return b.String(), false
}

// ---------------------------------------------------------------------------
// oracle

func parse(sig string) (ps []lang.MurexFuncParam, err error, panicked any) {
	defer func() {
		if r := recover(); r != nil {
			panicked = r
		}
	}()
	ps, err = lang.ParseMxFunctionParameters(sig)
	return
}

var fnCounter int64

func (c Case) body() string {
	var b strings.Builder
	b.WriteString("out S\n")
	for _, p := range c.Params {
		// one statement per variable: an unset variable makes only its own
		// statement fail
		fmt.Fprintf(&b, "out \"%s=$(%s)|${get-type \\$%s}\"\n", p.Name, p.Name, p.Name)
	}
	b.WriteString("out E\n")
	return b.String()
}

func (c Case) callSource(name string) string {
	var b strings.Builder
	b.WriteString(name)
	for _, a := range c.Args {
		b.WriteString(" '" + a.Val + "'")
	}
	b.WriteString("\n")
	return b.String()
}

func check(c Case) *core.Violation {
	switch c.Mode {
	case "parse":
		sig := c.signature()
		got, err, p := parse(sig)
		if p != nil {
			return core.Violf("parse-panic", "ParseMxFunctionParameters(%q) panicked: %v", sig, p)
		}
		if err != nil {
			return core.Violf("parse-rejected", "a signature of the documented grammar was rejected\nsignature: %q\nerror: %v", sig, err)
		}
		want := c.expectedParams()
		if !reflect.DeepEqual(got, want) {
			return core.Violf("parse-mismatch", "signature: %q\nwant %+v\ngot  %+v", sig, want, got)
		}
		return nil

	case "parse-neg":
		sig := c.broken()
		got, err, p := parse(sig)
		if p != nil {
			return core.Violf("parse-panic", "ParseMxFunctionParameters(%q) panicked: %v", sig, p)
		}
		if err == nil {
			return core.Violf("parse-accepted", "a signature that breaks the documented grammar (%s) was accepted\nsignature: %q\nresult: %+v", c.Neg, sig, got)
		}
		return nil

	case "bind-api", "bind-src":
		name := fmt.Sprintf("c23fn%d", atomic.AddInt64(&fnCounter, 1))
		sig := c.signature()
		var prelude string
		if c.Mode == "bind-api" {
			ps, err, p := parse(sig)
			if p != nil || err != nil {
				return core.Violf("parse-rejected", "signature: %q\nerror: %v panic: %v", sig, err, p)
			}
			lang.MxFunctions.Define(name, ps, []rune(c.body()), &ref.File{Source: &ref.Source{Module: "verif/c23"}})
		} else {
			prelude = "function " + name + " (" + sig + ") {\n" + c.body() + "}\n"
		}
		defer lang.MxFunctions.Undefine(name)
		src := prelude + c.callSource(name)
		r := core.Run(src)
		if r.Hung {
			return core.Violf("hang", "call did not finish (a prompt?)\n%s", src)
		}
		want, fails := c.bindModel()
		if fails {
			if strings.Contains(string(r.Stdout), "S\n") || r.Exit == 0 {
				return core.Violf("body-ran-despite-bad-argument", "signature: %q\ncall: %s\nan argument (or default) cannot be converted to its declared type, the call must fail before the body runs\ngot stdout=%q stderr=%q exit=%d", sig, c.callSource(name), r.Stdout, r.Stderr, r.Exit)
			}
			return nil
		}
		if string(r.Stdout) != want {
			return core.Violf("bind-mismatch", "signature: %q\ncall: %swant stdout=%q\ngot  stdout=%q\nstderr=%q exit=%d err=%v", sig, c.callSource(name), want, r.Stdout, r.Stderr, r.Exit, r.Err)
		}
		return nil
	}
	panic("unknown mode " + c.Mode)
}

// ---------------------------------------------------------------------------
// classification

func classify(c Case) core.Class {
	punct := false
	for _, p := range c.Params {
		if p.Type == "" {
			continue
		}
		if p.HasDefault && strings.ContainsAny(p.Default, ":,[\"!") || p.HasDesc && strings.ContainsAny(p.Desc, ":,[]!") {
			punct = true
		}
	}
	cl := core.Class{}
	switch c.Mode {
	case "parse":
		cl.NonTrivial = punct
		cl.Label = "parse,plain"
		if punct {
			cl.Label = "parse,grammar-punctuation-in-field"
		}
		cl.Key = "p:" + c.signature()
	case "parse-neg":
		cl.NonTrivial = true
		cl.Label = "parse-neg," + c.Neg
		cl.Key = "n:" + c.broken()
	default:
		_, fails := c.bindModel()
		missing := false
		for i, p := range c.Params {
			if i >= len(c.Args) && p.Optional {
				missing = true
			}
		}
		cl.NonTrivial = punct || fails || missing
		switch {
		case fails:
			cl.Label = c.Mode + ",unconvertible"
		case missing:
			cl.Label = c.Mode + ",missing-optional"
		case punct:
			cl.Label = c.Mode + ",grammar-punctuation-in-field"
		default:
			cl.Label = c.Mode + ",all-supplied"
		}
		cl.Key = c.Mode + ":" + c.signature() + "\x00" + c.callSource("f")
	}
	return cl
}

// ---------------------------------------------------------------------------
// known findings

const (
	// After a type that no default/description follows, only an immediate
	// comma or the end of the text is accepted: a line break (`a: int\n`, the
	// natural way to end a multi-line signature) or a blank before the comma
	// (`a: int , b`) is rejected.
	knownBareType = "C23-line-break-or-blank-after-bare-type-rejected"
	// A tab inside a default or description is replaced by a blank.
	knownTabInField = "C23-tab-in-default-or-description-becomes-blank"
	// A `[` where no default can start (inside a name, before the type) is
	// skipped instead of being rejected.
	knownStrayBracket = "C23-stray-open-bracket-ignored"
)

// bareTypeShape: some parameter ends with its type and is followed by a line
// break, or by blanks and a comma.
func (c Case) bareTypeShape() bool {
	for i, p := range c.Params {
		if p.Type == "" || p.HasDefault || p.HasDesc {
			continue
		}
		after := p.PostType
		if i == len(c.Params)-1 {
			after += c.Tail
			if strings.Contains(after, "\n") {
				return true
			}
		} else if after != "" {
			return true
		}
	}
	return false
}

func (c Case) tabInField() bool {
	for _, p := range c.Params {
		if p.Type != "" && (p.HasDefault && strings.Contains(p.Default, "\t") || p.HasDesc && strings.Contains(p.Desc, "\t")) {
			return true
		}
	}
	return false
}

// tabsAsBlanks is the case with every tab in a default or description
// replaced by a blank (what the parser makes of it on the unchanged tree).
func (c Case) tabsAsBlanks() Case {
	d := c
	d.Params = append([]Param{}, c.Params...)
	for i := range d.Params {
		d.Params[i].Default = strings.ReplaceAll(d.Params[i].Default, "\t", " ")
		d.Params[i].Desc = strings.ReplaceAll(d.Params[i].Desc, "\t", " ")
	}
	return d
}

func known(c Case, v *core.Violation) string {
	switch {
	case v.Kind == "parse-rejected" && c.bareTypeShape() &&
		(strings.Contains(v.Msg, "unexpected new line") || strings.Contains(v.Msg, "unexpected comma")):
		return knownBareType
	case v.Kind == "bind-mismatch" && c.Mode == "bind-src" && c.bareTypeShape() &&
		(strings.Contains(v.Msg, "cannot parse function parameter block: unexpected new line") ||
			strings.Contains(v.Msg, "cannot parse function parameter block: unexpected comma")):
		// the same rejection, seen through `function name (sig) {..}`
		return knownBareType
	case v.Kind == "parse-mismatch" && c.tabInField():
		// explained completely by tab -> blank in defaults / descriptions?
		got, err, p := parse(c.signature())
		if err == nil && p == nil && reflect.DeepEqual(got, c.tabsAsBlanks().expectedParams()) {
			return knownTabInField
		}
	case v.Kind == "bind-mismatch" && c.tabInField():
		if want, fails := c.tabsAsBlanks().bindModel(); !fails && strings.Contains(v.Msg, "got  stdout="+strconv.Quote(want)+"\n") {
			return knownTabInField
		}
	case v.Kind == "parse-accepted" && c.Neg == "stray-bracket-in-name":
		return knownStrayBracket
	}
	return ""
}

var spec = core.Spec[Case]{
	ID: "C23", Gen: gen, Check: check, Classify: classify, Known: known,
	Sample: func(c Case) any {
		switch c.Mode {
		case "parse":
			return "parse: " + c.signature()
		case "parse-neg":
			return "parse-neg(" + c.Neg + "): " + c.broken()
		}
		return c.Mode + ": (" + c.signature() + ") <- " + strings.TrimSpace(c.callSource("f"))
	},
}

func TestProp(t *testing.T)   { core.RunProp(t, spec) }
func TestReplay(t *testing.T) { core.Replay(t, spec) }
