package c02

// Hammer mode: the first-wins rule under real contention. In every round K
// writers (K >= 2) declare K different valid types on a fresh, opened pipe at
// the same moment while a reader keeps asking for the type; whatever wins, the
// reader must never see the type change and the final type must be the one it
// saw first. This targets check-then-act windows inside SetDataType that the
// phase histories of TestProp (which have no yield point inside SetDataType)
// hit too rarely.

import (
	"fmt"
	"runtime"
	"sync"
	"sync/atomic"
	"testing"

	"github.com/lmorg/murex/builtins/pipes/streams"
	"pgregory.net/rapid"
	"verif/harness/core"
)

type HammerCase struct {
	Types  []string `json:"types"`
	Rounds int      `json:"rounds"`
	Procs  int      `json:"gomaxprocs"`
}

func genHammer(t *rapid.T) HammerCase {
	pool := []string{"str", "json", "yaml", "int", "*", "csv", "généric", "x y"}
	k := rapid.IntRange(2, 4).Draw(t, "setters")
	perm := rapid.Permutation(pool).Draw(t, "types")
	return HammerCase{
		Types:  perm[:k],
		Rounds: rapid.SampledFrom([]int{500, 2000, 4000}).Draw(t, "rounds"),
		Procs:  rapid.SampledFrom([]int{2, 4, 16}).Draw(t, "procs"),
	}
}

func checkHammer(c HammerCase) *core.Violation {
	old := runtime.GOMAXPROCS(c.Procs)
	defer runtime.GOMAXPROCS(old)
	for r := 0; r < c.Rounds; r++ {
		pipe := streams.NewStdin()
		pipe.Open()
		start := make(chan struct{})
		var wg sync.WaitGroup
		var done int32
		for _, dt := range c.Types {
			wg.Add(1)
			go func(dt string) {
				defer wg.Done()
				<-start
				pipe.SetDataType(dt)
			}(dt)
		}
		var seen []string
		var rwg sync.WaitGroup
		rwg.Add(1)
		go func() {
			defer rwg.Done()
			<-start
			for {
				finished := atomic.LoadInt32(&done) == 1
				v := pipe.GetDataType() // blocks until some writer has declared
				if len(seen) == 0 || seen[len(seen)-1] != v {
					seen = append(seen, v)
				}
				if finished {
					return
				}
			}
		}()
		close(start)
		wg.Wait()
		atomic.StoreInt32(&done, 1)
		rwg.Wait()
		final := pipe.GetDataType()
		pipe.Close()
		if len(seen) > 1 || (len(seen) == 1 && seen[0] != final) {
			return core.Violf("type-changed", "round %d: %d writers declared %q at the same moment; a reader saw the pipe's type as %q, the final type is %q", r, len(c.Types), c.Types, seen, final)
		}
		ok := false
		for _, dt := range c.Types {
			ok = ok || dt == final
		}
		if !ok {
			return core.Violf("not-first-type", "round %d: final type %q is none of the declared %q", r, final, c.Types)
		}
	}
	core.Count("hammer_rounds", c.Rounds)
	return nil
}

var hammerSpec = core.Spec[HammerCase]{
	ID: "C02", Gen: genHammer, Check: checkHammer,
	Classify: func(c HammerCase) core.Class {
		return core.Class{NonTrivial: true, Label: fmt.Sprintf("hammer:%d-setters", len(c.Types)),
			Key: fmt.Sprintf("hammer %v %d %d", c.Types, c.Rounds, c.Procs)}
	},
}

func TestPropHammer(t *testing.T) { core.RunProp(t, hammerSpec) }
