// C02 — A pipe's data type is set once and never changes.
//
// Case = a list of phases; the ops of one phase are issued concurrently from
// separate goroutines, phases are separated by a barrier (so the harness knows
// the happens-before order without sleeps). GetDataType calls run in their own
// goroutines and may stay blocked across phases.
package c02

import (
	"fmt"
	"os"
	"strings"
	"runtime"
	"sync"
	"sync/atomic"
	"testing"
	"time"

	"github.com/lmorg/murex/builtins/pipes/streams"
	"github.com/lmorg/murex/lang/stdio"
	"github.com/lmorg/murex/utils/verifhook"
	"pgregory.net/rapid"
	"verif/harness/core"
)

func TestMain(m *testing.M) { core.Main(m, "C02") }

type Op struct {
	Kind string `json:"kind"` // set get open close forceclose write
	Type string `json:"type,omitempty"`
}

type Case struct {
	Phases  [][]Op `json:"phases"`
	Tee     bool   `json:"tee"`
	Procs   int    `json:"gomaxprocs"`
	Perturb uint64 `json:"perturb"`
}

func valid(dt string) bool { return dt != "" && dt != "null" }

var typeNames = []string{"", "null", "str", "json", "*", "yaml", "int", "généric", "x y", "NULL", "Null", " "}

// gen builds only histories a real caller could produce: SetDataType, Write
// and Close are issued by writers, i.e. while the pipe has an open dependant;
// nothing declares a type after the last writer closed or after ForceClose.
func gen(t *rapid.T) Case {
	var c Case
	// The pipe is opened by its first writer before anyone reads it (murex
	// opens a process's stdout when the block is compiled, before any stage
	// runs); what a Get on a never-opened pipe does is not part of the
	// statement.
	c.Phases = append(c.Phases, []Op{{Kind: "open"}})
	open := 1
	np := rapid.IntRange(1, 8).Draw(t, "phases")
	ended := false
	everOpened := true
	for p := 0; p < np && !ended; p++ {
		n := rapid.IntRange(1, 5).Draw(t, "ops")
		var ph []Op
		closes, sets := 0, 0
		opensInPhase := 0
		for i := 0; i < n; i++ {
			kinds := []string{"get", "get", "get", "open", "open"}
			if open >= 1 {
				kinds = append(kinds, "set", "set", "set", "set", "write")
				if closes < open && (p > 1 || open > 1) {
					kinds = append(kinds, "close")
				}
			}
			if everOpened && p > 0 && rapid.IntRange(0, 40).Draw(t, "fc") == 0 {
				kinds = []string{"forceclose"}
			}
			k := rapid.SampledFrom(kinds).Draw(t, "kind")
			op := Op{Kind: k}
			switch k {
			case "set":
				op.Type = rapid.SampledFrom(typeNames).Draw(t, "type")
				sets++
			case "close":
				closes++
			case "open":
				opensInPhase++
			}
			ph = append(ph, op)
		}
		// repair: if this phase closes the last writer, it must not set or write
		if closes >= open && closes > 0 {
			var fixed []Op
			for _, op := range ph {
				if op.Kind == "set" || op.Kind == "write" || op.Kind == "open" {
					continue
				}
				fixed = append(fixed, op)
			}
			ph = fixed
			opensInPhase = 0
			ended = true // all writers gone: history ends (only gets may follow)
		}
		hasFC := false
		for _, op := range ph {
			if op.Kind == "forceclose" {
				hasFC = true
			}
		}
		if hasFC {
			// ForceClose is the reader giving up: keep only gets beside it
			var fixed []Op
			for _, op := range ph {
				if op.Kind == "forceclose" || op.Kind == "get" {
					fixed = append(fixed, op)
				}
			}
			ph = fixed
			ended = true
			closes, opensInPhase = 0, 0
		}
		open += opensInPhase - closes
		if opensInPhase > 0 {
			everOpened = true
		}
		c.Phases = append(c.Phases, ph)
	}
	if rapid.Bool().Draw(t, "trailing-gets") {
		c.Phases = append(c.Phases, []Op{{Kind: "get"}, {Kind: "get"}})
	}
	c.Tee = rapid.IntRange(0, 4).Draw(t, "tee") == 0
	c.Procs = rapid.SampledFrom([]int{1, 2, 4, 16}).Draw(t, "gomaxprocs")
	c.Perturb = rapid.Uint64Range(1, 1<<62).Draw(t, "perturb")
	return c
}

// analyse computes the model facts of a history.
type facts struct {
	firstSetPhase int      // phase of the first valid declaration, -1 if none
	candidates    []string // valid types declared in that phase
	endPhase      int      // phase in which the writer count reaches zero (after having been >0) or ForceClose is issued, -1 if never
	decidePhase   int      // min of the two (>=0), or -1: a Get can never return
	ignoredFirst  bool     // an ignored value ("" / null) was declared before the first valid one
}

func analyse(c Case) facts {
	f := facts{firstSetPhase: -1, endPhase: -1, decidePhase: -1}
	open := 0
	for p, ph := range c.Phases {
		for _, op := range ph {
			switch op.Kind {
			case "set":
				if valid(op.Type) {
					if f.firstSetPhase == -1 || f.firstSetPhase == p {
						f.firstSetPhase = p
						f.candidates = append(f.candidates, op.Type)
					}
				} else if f.firstSetPhase == -1 {
					f.ignoredFirst = true
				}
			case "open":
				open++
			case "close":
				open--
			case "forceclose":
				if f.endPhase == -1 {
					f.endPhase = p
				}
			}
		}
		if open < 1 && f.endPhase == -1 {
			// no writer (never opened, or all closed): a Get returns `*` at once
			f.endPhase = p
		}
	}
	switch {
	case f.firstSetPhase >= 0 && f.endPhase >= 0:
		f.decidePhase = min(f.firstSetPhase, f.endPhase)
	case f.firstSetPhase >= 0:
		f.decidePhase = f.firstSetPhase
	default:
		f.decidePhase = f.endPhase
	}
	return f
}

type getResult struct {
	phase    int
	value    string
	early    bool // returned while no deciding event had been issued
	returned bool
}

func check(c Case) *core.Violation {
	old := runtime.GOMAXPROCS(c.Procs)
	defer runtime.GOMAXPROCS(old)
	verifhook.SetSeed(c.Perturb)
	defer verifhook.SetSeed(0)

	f := analyse(c)
	pipe := streams.NewStdin()
	var io_ stdio.Io = pipe
	var secondary *streams.Stdin
	if c.Tee {
		var tee *streams.Tee
		tee, secondary = streams.NewTee(pipe)
		io_ = tee
	}

	// "no writer open at the very start": GetDataType on a pipe nobody opened
	// returns `*` immediately, which analyse models as endPhase = first phase
	// whose end leaves open < 1. A Get issued in a phase where the count is
	// still zero at that moment may therefore return at once: decided is
	// raised before such a phase.
	var decided int32
	var results []*getResult
	var mu sync.Mutex
	var getsWG sync.WaitGroup
	pendingAtDecision := 0

	open := 0
	for p, ph := range c.Phases {
		// will this phase issue (or already satisfy) a deciding event?
		deciding := p >= f.decidePhase && f.decidePhase >= 0
		if open < 1 {
			deciding = true // no writers right now: Get may legitimately return `*`
		}
		if deciding && atomic.LoadInt32(&decided) == 0 {
			mu.Lock()
			for _, r := range results {
				if !r.returned {
					pendingAtDecision++
				}
			}
			mu.Unlock()
			atomic.StoreInt32(&decided, 1)
		}
		start := make(chan struct{})
		var wg sync.WaitGroup
		for _, op := range ph {
			op := op
			if op.Kind == "get" {
				r := &getResult{phase: p}
				mu.Lock()
				results = append(results, r)
				mu.Unlock()
				getsWG.Add(1)
				go func() {
					defer getsWG.Done()
					<-start
					v := io_.GetDataType()
					early := atomic.LoadInt32(&decided) == 0
					mu.Lock()
					r.value, r.early, r.returned = v, early, true
					mu.Unlock()
				}()
				continue
			}
			wg.Add(1)
			go func() {
				defer wg.Done()
				<-start
				switch op.Kind {
				case "set":
					io_.SetDataType(op.Type)
				case "open":
					io_.Open()
				case "close":
					io_.Close()
				case "forceclose":
					io_.ForceClose()
				case "write":
					io_.Write([]byte("x"))
				}
			}()
		}
		close(start)
		wg.Wait()
		for _, op := range ph {
			switch op.Kind {
			case "open":
				open++
			case "close":
				open--
			}
		}
	}

	// all Gets must return once a deciding event happened
	if f.decidePhase >= 0 {
		ch := make(chan struct{})
		go func() { getsWG.Wait(); close(ch) }()
		select {
		case <-ch:
		case <-time.After(core.HangBudget):
			return core.Violf("get-never-returns", "a GetDataType call is still blocked %s after the type was declared / all writers closed\nhistory: %s", core.HangBudget, describe(c))
		}
	} else {
		// writers still open and nothing declared: pending Gets must still be
		// blocked; release them so goroutines do not leak into the next case.
		mu.Lock()
		for _, r := range results {
			if r.returned {
				mu.Unlock()
				return core.Violf("get-returned-early", "GetDataType returned %q although no type was declared and a writer is still open\nhistory: %s", r.value, describe(c))
			}
		}
		mu.Unlock()
		pipe.ForceClose()
		getsWG.Wait()
		core.Count("histories_without_decision", 1)
		return nil
	}

	final := io_.GetDataType()
	mu.Lock()
	defer mu.Unlock()
	inCand := func(v string) bool {
		for _, x := range f.candidates {
			if x == v {
				return true
			}
		}
		return false
	}
	winner := ""
	for _, r := range append(results, &getResult{phase: len(c.Phases), value: final, returned: true}) {
		if r.early {
			return core.Violf("get-returned-early", "GetDataType (issued in phase %d) returned %q before any type was declared and while a writer was open\nhistory: %s", r.phase, r.value, describe(c))
		}
		if r.value == "" {
			return core.Violf("empty-type", "GetDataType returned the empty string\nhistory: %s", describe(c))
		}
		if f.firstSetPhase >= 0 && (f.endPhase < 0 || f.firstSetPhase <= f.endPhase) {
			// a type was declared while writers were open: that is the pipe's type for everyone
			if !inCand(r.value) {
				return core.Violf("not-first-type", "GetDataType (phase %d) returned %q; the first declared non-empty non-null type(s): %q\nhistory: %s", r.phase, r.value, f.candidates, describe(c))
			}
			if winner == "" {
				winner = r.value
			} else if r.value != winner {
				return core.Violf("type-changed", "GetDataType returned %q and later %q\nhistory: %s", winner, r.value, describe(c))
			}
		} else {
			if r.value != "*" {
				return core.Violf("not-generic", "no type was declared before the writers closed, yet GetDataType (phase %d) returned %q instead of `*`\nhistory: %s", r.phase, r.value, describe(c))
			}
		}
	}
	if c.Tee && f.firstSetPhase >= 0 {
		if v := secondary.GetDataType(); !inCand(v) {
			return core.Violf("tee-secondary", "tee secondary reports type %q; first declared: %q\nhistory: %s", v, f.candidates, describe(c))
		}
	}
	if pendingAtDecision > 0 {
		core.Count("gets_pending_at_decision", pendingAtDecision)
	}
	return nil
}

func describe(c Case) string {
	s := ""
	for p, ph := range c.Phases {
		s += fmt.Sprintf("\n  phase %d:", p)
		for _, op := range ph {
			if op.Kind == "set" {
				s += fmt.Sprintf(" set(%q)", op.Type)
			} else {
				s += " " + op.Kind
			}
		}
	}
	return s
}

func classify(c Case) core.Class {
	f := analyse(c)
	distinct := map[string]bool{}
	for _, x := range f.candidates {
		distinct[x] = true
	}
	// a Get issued strictly before the deciding phase while a writer is open
	pending := false
	open := 0
	for p, ph := range c.Phases {
		for _, op := range ph {
			if op.Kind == "get" && open >= 1 && (f.decidePhase < 0 || p < f.decidePhase) {
				pending = true
			}
		}
		for _, op := range ph {
			switch op.Kind {
			case "open":
				open++
			case "close":
				open--
			}
		}
	}
	cl := core.Class{}
	switch {
	case pending && len(distinct) >= 2:
		cl.Label = "blocked-get+concurrent-candidates"
	case pending:
		cl.Label = "blocked-get"
	case len(distinct) >= 2:
		cl.Label = "concurrent-candidates"
	case f.ignoredFirst && f.firstSetPhase >= 0:
		cl.Label = "ignored-value-first"
	case f.firstSetPhase < 0:
		cl.Label = "no-declaration"
	default:
		cl.Label = "simple"
	}
	cl.NonTrivial = pending || len(distinct) >= 2 || (f.ignoredFirst && f.firstSetPhase >= 0)
	return cl
}

var spec = core.Spec[Case]{ID: "C02", Gen: gen, Check: check, Classify: classify}

func TestProp(t *testing.T)   { core.RunProp(t, spec) }
func TestReplay(t *testing.T) {
	// a hammer case (hammer_test.go) is recognised by its "rounds" field
	if b, err := os.ReadFile(os.Getenv("VERIF_REPLAY")); err == nil && strings.Contains(string(b), "\"rounds\"") {
		h := hammerSpec
		h.Check = func(c HammerCase) *core.Violation {
			// the window is narrow: give the replay many more rounds
			c.Rounds *= 100
			return checkHammer(c)
		}
		core.Replay(t, h)
		return
	}
	core.Replay(t, spec)
}
