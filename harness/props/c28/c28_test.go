// C28 — Function IDs are unique and released when programs finish.
//
// Case: 1–6 generated programs (deterministic vocabulary extended with early
// exits: break, continue, return, failing try/trypipe blocks, skipped &&/||
// commands) run concurrently from as many goroutines under a seeded
// scheduling perturbation.
// Oracle (invariant over the whole session of this test process):
//  (1) the FidRegistered hook never reports a FID twice;
//  (2) once every program has returned, the FID table drains: polling
//      lang.GlobalFIDs.ListAll() must reach the empty table; a table that is
//      still non-empty after the settle budget and did not change during the
//      last 5 s of it is a leak.
package c28

import (
	"fmt"
	"runtime"
	"strings"
	"sync"
	"testing"
	"time"

	"github.com/lmorg/murex/lang"
	"github.com/lmorg/murex/utils/verifhook"
	"pgregory.net/rapid"
	"verif/harness/core"
	"verif/harness/gen"
)

var (
	fidMu   sync.Mutex
	fidSeen = map[uint32]bool{}
	fidDups []uint32
	fidN    int
)

func TestMain(m *testing.M) {
	core.InitMurex()
	gen.RegisterProgBuiltins()
	verifhook.SetFidCallback(func(fid uint32) {
		fidMu.Lock()
		if fidSeen[fid] {
			fidDups = append(fidDups, fid)
		}
		fidSeen[fid] = true
		fidN++
		fidMu.Unlock()
	})
	core.Main(m, "C28")
}

type Case struct {
	Progs   []gen.Prog `json:"progs"`
	Procs   int        `json:"gomaxprocs"`
	Perturb uint64     `json:"perturb"`
}

func gen_(t *rapid.T) Case {
	n := rapid.SampledFrom([]int{1, 1, 2, 3, 4, 6}).Draw(t, "nprogs")
	var c Case
	for i := 0; i < n; i++ {
		c.Progs = append(c.Progs, gen.Program(gen.ProgOpts{EarlyExits: true}).Draw(t, "prog"))
	}
	c.Procs = rapid.SampledFrom([]int{1, 2, 4, 16}).Draw(t, "procs")
	c.Perturb = rapid.Uint64Range(0, 1<<62).Draw(t, "perturb")
	return c
}

func tableString() string {
	var b strings.Builder
	for _, p := range lang.GlobalFIDs.ListAll() {
		fmt.Fprintf(&b, "  fid %d name=%q state=%s params=%q\n", p.Id, p.Name.String(), p.State.String(), p.Parameters.StringArray())
	}
	return b.String()
}

func tableIDs() string {
	var b strings.Builder
	for _, p := range lang.GlobalFIDs.ListAll() {
		fmt.Fprintf(&b, "%d,", p.Id)
	}
	return b.String()
}

var settle = 12 * time.Second

func check(c Case) *core.Violation {
	// precondition: the session is quiet (previous cases drained)
	if v := waitEmpty("before the case started", c); v != nil {
		return v
	}
	old := runtime.GOMAXPROCS(c.Procs)
	verifhook.SetSeed(c.Perturb)
	var wg sync.WaitGroup
	hung := make([]bool, len(c.Progs))
	for i := range c.Progs {
		wg.Add(1)
		go func(i int) {
			defer wg.Done()
			r := core.Run(c.Progs[i].Src)
			hung[i] = r.Hung
		}(i)
	}
	wg.Wait()
	verifhook.SetSeed(0)
	runtime.GOMAXPROCS(old)
	for i, h := range hung {
		if h {
			return core.Violf("hang", "program %d did not finish:\n%s", i, c.Progs[i].Src)
		}
	}
	fidMu.Lock()
	dups := append([]uint32{}, fidDups...)
	fidMu.Unlock()
	if len(dups) > 0 {
		return core.Violf("duplicate-fid", "FID(s) %v were issued to more than one process in this session\nprograms:\n%s", dups, srcs(c))
	}
	return waitEmpty("after every program returned", c)
}

func srcs(c Case) string {
	var b strings.Builder
	for i, p := range c.Progs {
		fmt.Fprintf(&b, "--- program %d ---\n%s", i, p.Src)
	}
	return b.String()
}

func waitEmpty(when string, c Case) *core.Violation {
	deadline := time.Now().Add(settle)
	lastChange := time.Now()
	last := ""
	for {
		ids := tableIDs()
		if ids == "" {
			return nil
		}
		if ids != last {
			last, lastChange = ids, time.Now()
		}
		if time.Now().After(deadline) && time.Since(lastChange) > 5*time.Second {
			return core.Violf("fid-leak", "%s the FID table still holds (unchanged for %.0fs):\n%sprograms:\n%s", when, time.Since(lastChange).Seconds(), tableString(), srcs(c))
		}
		time.Sleep(200 * time.Microsecond)
	}
}

func classify(c Case) core.Class {
	early, pipes := 0, 0
	for _, p := range c.Progs {
		early += p.Feat["early-exit"] + p.Feat["try"] + p.Feat["logic"]
		pipes += p.Feat["pipeline"]
	}
	cl := core.Class{NonTrivial: early > 0}
	switch {
	case early > 0 && len(c.Progs) > 1:
		cl.Label = "concurrent,aborted/skipped-processes"
	case early > 0:
		cl.Label = "sequential,aborted/skipped-processes"
	case len(c.Progs) > 1:
		cl.Label = "concurrent,plain"
	default:
		cl.Label = "sequential,plain"
	}
	return cl
}

var spec = core.Spec[Case]{ID: "C28", Gen: gen_, Check: check, Classify: classify, Journal: true,
	Sample: func(c Case) any {
		var s []string
		for _, p := range c.Progs {
			s = append(s, p.Src)
		}
		return s
	}}

func TestProp(t *testing.T) {
	core.RunProp(t, spec)
	fidMu.Lock()
	core.Count("fids_issued", fidN)
	fidMu.Unlock()
}
func TestReplay(t *testing.T) { core.Replay(t, spec) }
