// C03 — Sequential programs give the same result under any schedule.
//
// Metamorphic: every generated deterministic program is run R times, each run
// under a different seeded scheduling perturbation (verifhook yield points)
// and GOMAXPROCS; stdout bytes, stderr bytes and exit number must be
// identical across runs, and every run must finish.
package c03

import (
	"fmt"
	"os"
	"runtime"
	"testing"

	"github.com/lmorg/murex/utils/verifhook"
	"pgregory.net/rapid"
	"verif/harness/core"
	"verif/harness/gen"
)

func TestMain(m *testing.M) {
	core.InitMurex()
	gen.RegisterProgBuiltins()
	core.Main(m, "C03")
}

type Case struct {
	Prog  gen.Prog `json:"prog"`
	Seeds []uint64 `json:"seeds"` // perturbation seed per run (0 = none)
	Procs []int    `json:"gomaxprocs"`
}

func runs() int {
	if n := core.EnvInt("VERIF_C03_RUNS", 0); n > 0 {
		return n
	}
	if core.Thorough() {
		return 24
	}
	return 8
}

func gen_(t *rapid.T) Case {
	c := Case{Prog: gen.Program(gen.ProgOpts{}).Draw(t, "prog")}
	r := runs()
	for i := 0; i < r; i++ {
		if i == 0 {
			c.Seeds = append(c.Seeds, 0)
			c.Procs = append(c.Procs, 16)
			continue
		}
		c.Seeds = append(c.Seeds, rapid.Uint64Range(1, 1<<62).Draw(t, "perturb"))
		c.Procs = append(c.Procs, rapid.SampledFrom([]int{1, 2, 4, 16}).Draw(t, "procs"))
	}
	return c
}

type outcome struct {
	stdout, stderr string
	exit           int
}

func runOnce(src string, seed uint64, procs int) (outcome, *core.Violation) {
	old := runtime.GOMAXPROCS(procs)
	verifhook.SetSeed(seed)
	r := core.Run(src)
	verifhook.SetSeed(0)
	runtime.GOMAXPROCS(old)
	if r.Hung {
		return outcome{}, core.Violf("hang", "program did not finish (perturbation seed %d, GOMAXPROCS %d):\n%s\n%s", seed, procs, src, r.Dump)
	}
	return outcome{string(r.Stdout), string(r.Stderr), r.Exit}, nil
}

func check(c Case) *core.Violation {
	var first outcome
	for i := range c.Seeds {
		o, v := runOnce(c.Prog.Src, c.Seeds[i], c.Procs[i])
		if v != nil {
			return v
		}
		if i == 0 {
			first = o
			continue
		}
		if o != first {
			return core.Violf("schedule-dependent", "program:\n%s\nrun 0 (no perturbation, GOMAXPROCS %d): stdout=%q stderr=%q exit=%d\nrun %d (seed %d, GOMAXPROCS %d): stdout=%q stderr=%q exit=%d",
				c.Prog.Src, c.Procs[0], first.stdout, first.stderr, first.exit, i, c.Seeds[i], c.Procs[i], o.stdout, o.stderr, o.exit)
		}
	}
	return nil
}

func classify(c Case) core.Class {
	f := c.Prog.Feat
	other := f["call"] + f["logic"] + f["try"] + f["redirect"]
	cl := core.Class{Key: c.Prog.Src}
	cl.NonTrivial = f["pipeline"] >= 1 && other >= 1
	switch {
	case cl.NonTrivial && f["call"] > 0 && f["try"] > 0:
		cl.Label = "pipeline+call+try"
	case cl.NonTrivial && f["call"] > 0:
		cl.Label = "pipeline+call"
	case cl.NonTrivial && f["try"] > 0:
		cl.Label = "pipeline+try"
	case cl.NonTrivial:
		cl.Label = "pipeline+logic/redirect"
	case f["pipeline"] >= 1:
		cl.Label = "pipeline-only"
	default:
		cl.Label = "no-pipeline"
	}
	return cl
}

// Replay re-runs the program under many more schedules than the original
// case had, because the Go scheduler is not owned by the harness.
func replayCheck(c Case) *core.Violation {
	if v := check(c); v != nil {
		return v
	}
	n := core.EnvInt("VERIF_C03_REPLAY_RUNS", 256)
	first, v := runOnce(c.Prog.Src, 0, 16)
	if v != nil {
		return v
	}
	for i := 1; i <= n; i++ {
		seed := uint64(i)*0x9e3779b97f4a7c15 | 1
		procs := []int{1, 2, 4, 16}[i%4]
		o, v := runOnce(c.Prog.Src, seed, procs)
		if v != nil {
			return v
		}
		if o != first {
			return core.Violf("schedule-dependent", "program:\n%s\nunperturbed: stdout=%q stderr=%q exit=%d\nseed %d GOMAXPROCS %d: stdout=%q stderr=%q exit=%d",
				c.Prog.Src, first.stdout, first.stderr, first.exit, seed, procs, o.stdout, o.stderr, o.exit)
		}
	}
	fmt.Fprintf(os.Stderr, "replay: %d perturbed runs agree\n", n)
	return nil
}

var spec = core.Spec[Case]{ID: "C03", Gen: gen_, Check: check, Classify: classify, Journal: true,
	Sample: func(c Case) any { return c.Prog.Src }}

func TestProp(t *testing.T) { core.RunProp(t, spec) }
func TestReplay(t *testing.T) {
	s := spec
	s.Check = replayCheck
	core.Replay(t, s)
}
