// C30 — The cache never returns stale or foreign values.
//
// Domain: histories of Write / Read / Trim / Clear on the public API of
// utils/cache (after SetPath(scratch file) + InitCache(), as main.go does)
// over 3 predefined namespaces and 4 keys per case, with TTLs in the past,
// around "now" and in the far future.
// Oracle: model (ns,key) -> (latest value, ttl) with a ±3 s guard band around
// the real clock (the code under test compares TTLs with sqlite's
// unixepoch(), which the harness cannot own).
package c30

import (
	"context"
	"encoding/json"
	"fmt"
	"math/big"
	"os"
	"path/filepath"
	"regexp"
	"strconv"
	"strings"
	"sync/atomic"
	"testing"
	"time"

	"github.com/lmorg/murex/utils/cache"
	"pgregory.net/rapid"
	"verif/harness/core"
)

var workDir string

func TestMain(m *testing.M) { core.Main(m, "C30") }

func scratch() func() {
	workDir = core.WorkDir("C30")
	return func() { core.CleanWorkDir("C30") }
}

var namespaces = []string{cache.HINT_SUMMARY, cache.MAN_PATHS, cache.PREVIEW_DYNAMIC}

// keyPool: what callers use as keys — command names, command lines, paths,
// base64 hashes — plus look-alike pairs (case, whitespace, quoting, numbers).
var keyPool = []string{
	"ls", "LS", "ls ", "git", "git commit", "git  commit", "/usr/bin/ls", "/usr/bin/ls/", "man:ls",
	"it's", "say \"hi\"", "a;b", "a%b", "a_b", "a\\b", "日本", "é", "é",
	"47DEQpj8HBSa+/TImW+5JCeuQeRkm5NMpJWZG3hSuFU=", "47DEQpj8HBSa+/TImW+5JCeuQeRkm5NMpJWZG3hSuFu=",
	"' OR 1=1 --", "key", "value", "ttl", "NULL", "null", "true",
	"1", "01", "1.0", "1e0", "+1", " 1", "1 ", "0x1", "7z", "2to3", "9007199254740993", "9007199254740992", "-0", "0", "1.50", "1.5",
}

// Op is one step.
//
//	write: Write(NS, Key, value of kind Val, now+TTL seconds)
//	read : Read(NS, Key)
//	trim : Trim()
//	clear: Clear()
//	wait : sleep TTL seconds (thorough tier only: expiry during a run)
type Op struct {
	Kind string `json:"kind"`
	NS   int    `json:"ns,omitempty"`
	Key  int    `json:"key,omitempty"` // index into Case.Keys
	Val  string `json:"val,omitempty"` // str | struct | list
	TTL  int    `json:"ttl,omitempty"` // seconds relative to the moment of the write
}

type Case struct {
	Keys []string `json:"keys"`
	Ops  []Op     `json:"ops"`
}

// ---------------------------------------------------------------------------
// generator

func genTTL(t *rapid.T) int {
	switch rapid.IntRange(0, 9).Draw(t, "band") {
	case 0, 1, 2: // past
		return -rapid.IntRange(4, 3600).Draw(t, "past")
	case 3: // long past
		return -rapid.IntRange(3600, 400*86400).Draw(t, "longpast")
	case 4: // near now: inside the guard band, nothing but "not foreign/stale" is asserted
		return rapid.IntRange(-2, 2).Draw(t, "near")
	case 5, 6: // future, below the 59 min threshold of the in-memory layer
		return rapid.IntRange(60, 3400).Draw(t, "soon")
	default: // far future (the in-memory layer takes part)
		return rapid.IntRange(3600, 366*86400).Draw(t, "far")
	}
}

func gen(t *rapid.T) Case {
	var c Case
	// 4 keys; half of the time they come from one neighbourhood of the pool so
	// that look-alikes meet
	start := rapid.IntRange(0, len(keyPool)-4).Draw(t, "keystart")
	near := rapid.Bool().Draw(t, "nearkeys")
	seen := map[string]bool{}
	for len(c.Keys) < 4 {
		var k string
		if near {
			k = keyPool[(start+len(seen))%len(keyPool)]
		} else {
			k = rapid.SampledFrom(keyPool).Draw(t, "key")
		}
		if seen[k] {
			if !near {
				continue
			}
		}
		seen[k] = true
		c.Keys = append(c.Keys, k)
	}
	min := rapid.IntRange(1, 20).Draw(t, "minlen")
	waits := 0
	opGen := rapid.Custom(func(t *rapid.T) Op {
		kinds := []string{"read", "read", "read", "read", "write", "write", "write", "write", "write", "trim", "clear"}
		if core.Thorough() {
			kinds = append(kinds, "wait")
		}
		k := rapid.SampledFrom(kinds).Draw(t, "op")
		op := Op{Kind: k}
		switch k {
		case "read":
			op.NS = rapid.IntRange(0, len(namespaces)-1).Draw(t, "ns")
			op.Key = rapid.IntRange(0, 3).Draw(t, "key")
		case "write":
			op.NS = rapid.IntRange(0, len(namespaces)-1).Draw(t, "ns")
			op.Key = rapid.IntRange(0, 3).Draw(t, "key")
			op.Val = rapid.SampledFrom([]string{"str", "struct", "list"}).Draw(t, "val")
			op.TTL = genTTL(t)
		case "wait":
			op.TTL = rapid.IntRange(1, 5).Draw(t, "secs")
		}
		return op
	})
	c.Ops = rapid.SliceOfN(opGen, min, 25).Draw(t, "ops")
	// at most two waits per case
	for i := range c.Ops {
		if c.Ops[i].Kind == "wait" {
			waits++
			if waits > 2 {
				c.Ops[i] = Op{Kind: "trim"}
			}
		}
	}
	return c
}

// ---------------------------------------------------------------------------
// values: every value names the (namespace, key, write number) it belongs to

type valStruct struct {
	Namespace string
	Key       string
	Seq       int
	Note      []string
}

type ident struct {
	ns, key string
	seq     int
}

func makeValue(kind string, id ident) any {
	switch kind {
	case "struct":
		return valStruct{Namespace: id.ns, Key: id.key, Seq: id.seq, Note: []string{"summary of " + id.key, ""}}
	case "list":
		return []string{id.ns, id.key, fmt.Sprint(id.seq)}
	default:
		b, _ := json.Marshal([]any{id.ns, id.key, id.seq})
		return "v:" + string(b)
	}
}

// decode recovers the identity from whatever Read produced (read into *any).
func decode(v any) (ident, bool) {
	switch x := v.(type) {
	case string:
		if !strings.HasPrefix(x, "v:") {
			return ident{}, false
		}
		var a []any
		if json.Unmarshal([]byte(x[2:]), &a) != nil || len(a) != 3 {
			return ident{}, false
		}
		ns, ok1 := a[0].(string)
		key, ok2 := a[1].(string)
		seq, ok3 := a[2].(float64)
		return ident{ns, key, int(seq)}, ok1 && ok2 && ok3
	case map[string]any:
		ns, ok1 := x["Namespace"].(string)
		key, ok2 := x["Key"].(string)
		seq, ok3 := x["Seq"].(float64)
		return ident{ns, key, int(seq)}, ok1 && ok2 && ok3
	case []any:
		if len(x) != 3 {
			return ident{}, false
		}
		ns, ok1 := x[0].(string)
		key, ok2 := x[1].(string)
		s, ok3 := x[2].(string)
		var seq int
		_, err := fmt.Sscan(s, &seq)
		return ident{ns, key, seq}, ok1 && ok2 && ok3 && err == nil
	}
	return ident{}, false
}

// ---------------------------------------------------------------------------
// replay

const guard = 3 // seconds

type entry struct {
	id  ident
	ttl int64 // unix seconds, as stored
}

var dbCounter int64

func check(c Case) *core.Violation {
	if len(c.Keys) == 0 {
		return nil
	}
	db := filepath.Join(workDir, fmt.Sprintf("cache-%d.db", atomic.AddInt64(&dbCounter, 1)))
	os.Remove(db)
	defer func() {
		os.Remove(db)
		os.Remove(db + "-journal")
		os.Remove(db + "-wal")
		os.Remove(db + "-shm")
	}()
	cache.SetPath(db)
	cache.InitCache()
	if !cache.DbEnabled() {
		return core.Violf("harness", "the cache database could not be opened at %s", db)
	}

	model := map[[2]string]*entry{}
	seq := 0
	ctx := context.Background()
	var trace []string
	fail := func(kind, format string, a ...any) *core.Violation {
		return core.Violf(kind, "%s\nkeys: %q\nhistory: %s", fmt.Sprintf(format, a...), c.Keys, strings.Join(trace, " ; "))
	}

	readCheck := func(step int, ns, key string) *core.Violation {
		var got any
		before := time.Now().Unix()
		ok := cache.Read(ns, key, &got)
		after := time.Now().Unix()
		e := model[[2]string{ns, key}]
		if ok {
			id, good := decode(got)
			if !good {
				return fail("foreign", "step %d: Read(%s, %q) returned a value nobody wrote: %#v", step, ns, key, got)
			}
			if id.ns != ns || id.key != key {
				return fail("foreign", "step %d: Read(%s, %q) returned the value written under (%s, %q) (write #%d)", step, ns, key, id.ns, id.key, id.seq)
			}
			if e == nil {
				return fail("stale", "step %d: Read(%s, %q) returned write #%d although nothing is stored there (cleared or never written)", step, ns, key, id.seq)
			}
			if id.seq != e.id.seq {
				return fail("stale", "step %d: Read(%s, %q) returned write #%d; the most recent write is #%d", step, ns, key, id.seq, e.id.seq)
			}
			if e.ttl+guard <= before {
				return fail("expired-returned", "step %d: Read(%s, %q) returned write #%d whose TTL ended %d s before the read", step, ns, key, id.seq, before-e.ttl)
			}
			return nil
		}
		if e != nil && e.ttl-guard >= after {
			return fail("live-missing", "step %d: Read(%s, %q) returned nothing; write #%d is valid for another %d s", step, ns, key, e.id.seq, e.ttl-after)
		}
		return nil
	}

	for step, op := range c.Ops {
		ns := namespaces[((op.NS%len(namespaces))+len(namespaces))%len(namespaces)]
		key := c.Keys[((op.Key%len(c.Keys))+len(c.Keys))%len(c.Keys)]
		switch op.Kind {
		case "write":
			seq++
			id := ident{ns, key, seq}
			ttl := time.Now().Add(time.Duration(op.TTL) * time.Second)
			cache.Write(ns, key, makeValue(op.Val, id), ttl)
			model[[2]string{ns, key}] = &entry{id: id, ttl: ttl.Unix()}
			trace = append(trace, fmt.Sprintf("#%d write(%s,%q,%s,%+ds)", seq, ns, key, op.Val, op.TTL))
		case "read":
			trace = append(trace, fmt.Sprintf("read(%s,%q)", ns, key))
			if v := readCheck(step, ns, key); v != nil {
				return v
			}
			continue // a full sweep after a read adds nothing
		case "trim":
			trace = append(trace, "trim")
			if _, err := cache.Trim(ctx); err != nil {
				return fail("trim-error", "step %d: Trim: %v", step, err)
			}
		case "clear":
			trace = append(trace, "clear")
			if _, err := cache.Clear(ctx); err != nil {
				return fail("clear-error", "step %d: Clear: %v", step, err)
			}
			model = map[[2]string]*entry{}
		case "wait":
			n := op.TTL
			if n < 0 {
				n = 0
			}
			if n > 6 {
				n = 6
			}
			trace = append(trace, fmt.Sprintf("wait(%ds)", n))
			time.Sleep(time.Duration(n) * time.Second)
		default:
			return core.Violf("bad-case", "unknown op %q", op.Kind)
		}
		// after every mutation the neighbourhood is read back: after a write
		// every key of that namespace and the same key in the other namespaces,
		// after trim / clear / wait every (namespace, key) of the case
		for _, n := range namespaces {
			for _, k := range c.Keys {
				if op.Kind == "write" && n != ns && k != key {
					continue
				}
				if v := readCheck(step, n, k); v != nil {
					return v
				}
			}
		}
	}
	return nil
}

// ---------------------------------------------------------------------------

func classify(c Case) core.Class {
	writes := map[[2]int]int{}
	sibling, rewrite, cleared, trimmed, waited, near := false, false, false, false, false, false
	anyWrite := false
	for _, op := range c.Ops {
		switch op.Kind {
		case "write":
			k := [2]int{op.NS, op.Key}
			if anyWrite && writes[k] == 0 {
				sibling = true
			}
			writes[k]++
			if writes[k] >= 2 {
				rewrite = true
			}
			anyWrite = true
			if op.TTL >= -2 && op.TTL <= 2 {
				near = true
			}
		case "clear":
			if anyWrite {
				cleared = true
			}
		case "trim":
			if anyWrite {
				trimmed = true
			}
		case "wait":
			waited = true
		}
	}
	cl := core.Class{NonTrivial: rewrite || sibling}
	var l []string
	if rewrite {
		l = append(l, "rewrite")
	}
	if sibling {
		l = append(l, "sibling")
	}
	if cleared {
		l = append(l, "clear")
	}
	if trimmed {
		l = append(l, "trim")
	}
	if near {
		l = append(l, "near-now-ttl")
	}
	if waited {
		l = append(l, "wait")
	}
	if len(l) == 0 {
		l = []string{"single-key"}
	}
	cl.Label = strings.Join(l, ",")
	return cl
}

// ---------------------------------------------------------------------------
// known finding C30-numeric-keys-collide: the tables are created with
// `key STRING PRIMARY KEY`. "STRING" is not an SQLite type name, so the column
// gets NUMERIC affinity: a key that looks like a number is stored as that
// number and "1", "01", "1.0", " 1", "1e0" … all name the same row.

var rxNumeric = regexp.MustCompile(`^[ \t\n\r\f]*[+-]?([0-9]+\.?[0-9]*|\.[0-9]+)([eE][+-]?[0-9]+)?[ \t\n\r\f]*$`)

// numericKey returns a canonical form of the number a numeric-looking key is
// stored as.
func numericKey(k string) (string, bool) {
	if !rxNumeric.MatchString(k) {
		return "", false
	}
	t := strings.Trim(k, " \t\n\r\f")
	r, ok := new(big.Rat).SetString(t)
	if !ok {
		return "", false
	}
	if r.IsInt() && r.Num().IsInt64() {
		return r.Num().String(), true // stored as an exact INTEGER
	}
	f, _ := r.Float64() // stored as REAL
	return strconv.FormatFloat(f, 'g', -1, 64), true
}

var rxReadKey = regexp.MustCompile(`Read\([a-z_]+, ("(?:[^"\\]|\\.)*")\)`)

func known(c Case, v *core.Violation) string {
	switch v.Kind {
	case "foreign", "stale", "live-missing", "expired-returned":
	default:
		return ""
	}
	m := rxReadKey.FindStringSubmatch(v.Msg)
	if m == nil {
		return ""
	}
	key, err := strconv.Unquote(m[1])
	if err != nil {
		return ""
	}
	num, ok := numericKey(key)
	if !ok {
		return ""
	}
	for _, k := range c.Keys {
		if k == key {
			continue
		}
		if n, ok := numericKey(k); ok && n == num {
			return "C30-numeric-keys-collide"
		}
	}
	return ""
}

var spec = core.Spec[Case]{
	ID: "C30", Gen: gen, Check: check, Classify: classify, Known: known,
	Sample: func(c Case) any {
		var s []string
		for _, op := range c.Ops {
			switch op.Kind {
			case "write":
				s = append(s, fmt.Sprintf("write(%s,%q,%s,%+ds)", namespaces[op.NS%len(namespaces)], c.Keys[op.Key%len(c.Keys)], op.Val, op.TTL))
			case "read":
				s = append(s, fmt.Sprintf("read(%s,%q)", namespaces[op.NS%len(namespaces)], c.Keys[op.Key%len(c.Keys)]))
			case "wait":
				s = append(s, fmt.Sprintf("wait(%d)", op.TTL))
			default:
				s = append(s, op.Kind)
			}
		}
		return strings.Join(s, " ; ")
	},
}

func TestProp(t *testing.T)   { defer scratch()(); core.RunProp(t, spec) }
func TestReplay(t *testing.T) { defer scratch()(); core.Replay(t, spec) }
