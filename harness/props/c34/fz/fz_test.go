// Package fz holds the native fuzz target of C34 in a package that links only
// the parsers (see ../oracle). The seed corpus is ../testdata (symlink).
package fz

import (
	"os"
	"strings"
	"testing"

	"verif/harness/props/c34/oracle"
)

// `go test -fuzz` prints its progress on os.Stderr of the coordinating
// process; the workers (which carry -test.fuzzworker) silence the parser's
// deprecation warnings.
func TestMain(m *testing.M) {
	for _, a := range os.Args[1:] {
		if strings.HasPrefix(a, "-test.fuzzworker") {
			if f, err := os.OpenFile(os.DevNull, os.O_WRONLY, 0); err == nil {
				os.Stderr = f
			}
		}
	}
	os.Exit(m.Run())
}

func FuzzSafeVerdict(f *testing.F) {
	f.Fuzz(func(t *testing.T, body string, suffix int) {
		if msg := oracle.FuzzOne(body, suffix); msg != "" {
			t.Fatalf("C34 violated: %s", msg)
		}
	})
}
