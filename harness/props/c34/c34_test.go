// C34 — Autocomplete never runs a line containing unsafe commands.
//
// Domain: command lines as typed before TAB: 1-5 units (safe commands, unsafe
// commands, names split by a flow token so that the halves glue to a safe
// name, expression statements incl. assignments, block runners with inner
// pipelines, parameters with quotes / sub-shells / variables / named pipes /
// redirections / escapes) joined by flow tokens with and without surrounding
// spaces, always followed by a flow token and a command whose autocomplete
// definition has ExecCmdline (`[`, `[[`, `alter`) plus a partial parameter —
// the situation in which shell/autocomplete/dynamic.go consults the verdict.
// Oracle: see oracle/oracle.go (differential against expressions.ParseBlock,
// one direction only).
package c34

import (
	"os"
	"strings"
	"testing"

	"pgregory.net/rapid"
	"verif/harness/core"
	"verif/harness/props/c34/oracle"
)

// The block parser prints a deprecation warning on os.Stderr for every `?`;
// keep the shard logs small (`go test -fuzz` prints its progress on os.Stderr
// of the coordinating process, which is left alone).
func TestMain(m *testing.M) {
	fuzz, worker := false, false
	for _, a := range os.Args[1:] {
		fuzz = fuzz || strings.HasPrefix(a, "-test.fuzz=")
		worker = worker || strings.HasPrefix(a, "-test.fuzzworker")
	}
	if !fuzz || worker {
		if f, err := os.OpenFile(os.DevNull, os.O_WRONLY, 0); err == nil {
			os.Stderr = f
		}
	}
	core.Main(m, "C34")
}

type Case struct {
	Line string `json:"line"`
	// Unsafe records that the generator put at least one unsafe element in
	// front of the last flow token (classification only).
	Unsafe bool `json:"unsafe"`
	Flows  int  `json:"flows"`
}

// ---------------------------------------------------------------------------
// generator

var safeWords = []string{"out", "tout", "true", "false", "a", "ja", "ta", "f", "g", "rx", "map", "count", "cast", "format", "escape", "match", "regexp", "left", "right", "prefix", "suffix", "msort", "mtac", "pretty", "null", "os", "cpuarch", "version", "get-type", "exitnum", "catch", "getfile", "struct-keys", "man-summary", "murex-docs", "fid-list", "open-image", "time", "debug", "runtime", "append", "prepend", "jsplit", "escurl", "eschtml", "esccli", "rand", "tabulate", "2darray", "bexists", "args", "config", "history", "and", "or"}

var unsafeWords = []string{"reboot", "exit", "rm", "exec", "cd", "set", "global", "function", "kill", "sleep", "echo", "cat", "ls", "sh", "bash", "source", "unset", "private", "alias", "pipe", "fexec", "bg", "fg", "test", "event", "method", "export", "murex", "man", "open2", "summary", "let", "read", "tread", "cls", "signal"}

// split names: A is unsafe (or not a safe name), A+B is on the safe list
var splitNames = [][2]string{{"exit", "num"}, {"cat", "ch"}, {"man", "-summary"}, {"murex", "-docs"}, {"get", "file"}, {"get", "-type"}, {"open", "-image"}, {"fid", "-list"}, {"struct", "-keys"}, {"t", "out"}, {"e", "scape"}, {"m", "sort"}, {"pre", "fix"}, {"pre", "pend"}, {"tab", "ulate"}, {"ex", "itnum"}, {"for", "mat"}, {"for", "map"}, {"for", "each"}, {"try", "pipe"}, {"ou", "t"}, {"run", "time"}, {"cpu", "count"}, {"l", "eft"}}

var flowTokens = []string{"|", " | ", "| ", " |", "->", " -> ", "-> ", " ->", "=>", " => ", ";", "; ", " ; ", "&&", " && ", "||", " || ", "?:", " ?: ", " ? ", "? ", "\t? ", " ?\t", "|>", " |> ", " >> ", ">>", " > ", "\n", "\t|\t", " ->\t",
	// a line comment ends at its line feed: what follows is a new command
	" # note\n", " # a | b -> c\n", "\t#\n", " #x\n ", "\n# only a comment\n"}

// params: (text, unsafe?)
type frag struct {
	s      string
	unsafe bool
}

var params = []frag{
	{"x", false}, {"foo bar", false}, {"'a b'", false}, {"\"a b\"", false}, {"(a b)", false}, {"1", false}, {"--flag", false}, {"-m", false},
	{"'${reboot}'", false}, {"'$x'", false}, {"\\$x", false}, {"\\|", false}, {"\\;", false}, {"'|'", false}, {"\"|\"", false}, {"(|)", false}, {"\\{", false},
	{"${reboot}", true}, {"@{reboot}", true}, {"\"${reboot}\"", true}, {"(${reboot})", true}, {"${out x}", true}, {"$x", true}, {"@x", true}, {"\"$x\"", true}, {"$x[0]", true}, {"${exit}", true},
	{"<null>", false}, {"<err>", false}, {"<!out>", false}, {"<mypipe>", true}, {"<file>", true},
	{"{reboot}", false}, {"{ reboot }", false}, {"{out x}", false}, {"%[1 2 3]", false}, {"%{a:1}", false}, {"[1]", false}, {"a=b", false}, {"~", false}, {"*", false}, {"#x", false},
	{"\t", false}, {"  ", false}, {"é", false}, {"a:b", false}, {": x", false},
}

var exprs = []frag{
	{"a = 5", true}, {"a=5", true}, {"$x = 1", true}, {"out = 2", true}, {"f = %[1 2]", true}, {"a += 1", true}, {"g -= 1", true}, {"a <~ %[1]", true}, {"a := 5", true}, {"ja++", true}, {"a--", true}, {"os.x = 1", true}, {"a  =  5", true}, {"a\t=\t5", true},
	{"1 + 2", false}, {"true", false}, {"a == 5", false}, {"(1+2)*3", false}, {"'x' == 'x'", false}, {"%[1 2 3]", false}, {"null", false}, {"a != b", false}, {"a =~ b", false},
}

func genWord(t *rapid.T) frag {
	switch rapid.IntRange(0, 9).Draw(t, "wordkind") {
	case 0, 1, 2, 3:
		return frag{rapid.SampledFrom(safeWords).Draw(t, "safe"), false}
	case 4, 5, 6:
		return frag{rapid.SampledFrom(unsafeWords).Draw(t, "unsafe"), true}
	case 7:
		w := rapid.SampledFrom(safeWords).Draw(t, "safe")
		return frag{w + ":", false}
	case 8:
		w := rapid.SampledFrom(unsafeWords).Draw(t, "unsafe")
		return frag{rapid.SampledFrom([]string{w + ":", "'" + w + "'", "\"" + w + "\"", " " + w, "\t" + w, w + "\t",
			":out " + w, ": str " + w, "&" + w, "=" + w, "& " + w, "(x && " + w + " now)", "(x|" + w + ")", "(a; " + w + " )"}).Draw(t, "form"), true}
	default:
		return frag{rapid.SampledFrom([]string{">", ">>", "<mypipe>", "(", "[", "[[", "=", "!", "![", "exec:", "$cmd", "${out reboot}", "./x", "/bin/sh", "~/x", "-", "1"}).Draw(t, "odd"), true}
	}
}

func genCommand(t *rapid.T) frag {
	w := genWord(t)
	n := rapid.IntRange(0, 3).Draw(t, "nparams")
	var b strings.Builder
	b.WriteString(w.s)
	unsafe := w.unsafe
	for i := 0; i < n; i++ {
		p := rapid.SampledFrom(params).Draw(t, "param")
		b.WriteString(rapid.SampledFrom([]string{" ", " ", " ", "  ", "\t"}).Draw(t, "ws"))
		b.WriteString(p.s)
		unsafe = unsafe || p.unsafe
	}
	return frag{b.String(), unsafe}
}

func genPipeline(t *rapid.T, depth int) (frag, int) {
	n := rapid.IntRange(1, 3).Draw(t, "units")
	var b strings.Builder
	unsafe := false
	flows := 0
	for i := 0; i < n; i++ {
		if i > 0 {
			ft := rapid.SampledFrom(flowTokens).Draw(t, "flow")
			b.WriteString(ft)
			flows++
			if strings.Contains(ft, ">") && !strings.Contains(ft, "->") && !strings.Contains(ft, "=>") || strings.Contains(ft, "?") && !strings.Contains(ft, "?:") || strings.Contains(ft, "\n") {
				unsafe = true // redirection, stderr swap, newline
			}
		}
		u := genUnit(t, depth)
		b.WriteString(u.s)
		unsafe = unsafe || u.unsafe
	}
	return frag{b.String(), unsafe}, flows
}

func genUnit(t *rapid.T, depth int) frag {
	k := rapid.IntRange(0, 11).Draw(t, "unitkind")
	switch {
	case k <= 5:
		return genCommand(t)
	case k <= 7:
		// split name: the flow token sits inside what glues to a safe name
		sp := rapid.SampledFrom(splitNames).Draw(t, "split")
		ft := rapid.SampledFrom([]string{"|", ";", "&&", "||", "?:", "->", "=>", "|>", "}|", "};"}).Draw(t, "splitflow")
		tail := rapid.SampledFrom([]string{"", " ", " x", ": x", "\t"}).Draw(t, "tail")
		head := sp[0]
		if strings.HasPrefix(ft, "}") {
			head = rapid.SampledFrom([]string{"try {", "if {", "try { "}).Draw(t, "opener") + sp[0]
		}
		return frag{head + ft + sp[1] + tail, true}
	case k <= 9:
		e := rapid.SampledFrom(exprs).Draw(t, "expr")
		return e
	default:
		if depth >= 2 {
			return genCommand(t)
		}
		inner, _ := genPipeline(t, depth+1)
		runner := rapid.SampledFrom([]string{"try", "trypipe", "if", "and", "or", "!if", "catch", "while", "time", "out", "escape"}).Draw(t, "runner")
		open := rapid.SampledFrom([]string{" {", " { ", "{", " {\t"}).Draw(t, "open")
		cl := rapid.SampledFrom([]string{"}", " }", "} ", " } "}).Draw(t, "close")
		s := runner + open + inner.s + cl
		if runner == "if" && rapid.Bool().Draw(t, "then") {
			in2, _ := genPipeline(t, depth+1)
			s += " then {" + in2.s + "}"
			inner.unsafe = inner.unsafe || in2.unsafe
		}
		return frag{s, inner.unsafe}
	}
}

func gen(t *rapid.T) Case {
	body, flows := genPipeline(t, 0)
	if rapid.IntRange(0, 2).Draw(t, "more") == 0 {
		ft := rapid.SampledFrom(flowTokens).Draw(t, "flow2")
		b2, f2 := genPipeline(t, 0)
		body = frag{body.s + ft + b2.s, body.unsafe || b2.unsafe}
		flows += f2 + 1
	}
	lead := rapid.SampledFrom([]string{"", "", "", " ", "\t"}).Draw(t, "lead")
	suffix := rapid.SampledFrom(oracle.Suffixes).Draw(t, "suffix")
	line := oracle.Normalise(lead + body.s + suffix)
	return Case{Line: line, Unsafe: body.unsafe, Flows: flows + 1}
}

// ---------------------------------------------------------------------------
// oracle, classification, known findings

func check(c Case) *core.Violation {
	if kind, msg := oracle.Check(c.Line); kind != "" {
		return core.Violf(kind, "%s", msg)
	}
	return nil
}

func classify(c Case) core.Class {
	line := oracle.Normalise(c.Line)
	v := oracle.Tokenize(line)
	out := core.Class{Key: line, NonTrivial: c.Flows >= 1 && c.Unsafe}
	elem := "all-safe"
	if c.Unsafe {
		elem = "has-unsafe"
	}
	var verdict string
	switch {
	case v.Panic != nil:
		verdict = "tokenizer-panic"
	case v.WouldRun:
		w := oracle.WalkExecuted(v.Executed)
		switch {
		case w.Panic != nil:
			verdict = "would-run,parser-panic"
		case w.Hung:
			verdict = "would-run,parser-hangs"
		case w.ParseErr != nil:
			verdict = "would-run,syntax-error"
		case len(w.Findings) > 0:
			verdict = "would-run,UNSAFE-FOUND"
		case len(w.Unsure) > 0:
			verdict = "would-run,unsure"
		default:
			verdict = "would-run,all-safe"
		}
	case v.Unsafe:
		verdict = "judged-unsafe"
	default:
		verdict = "safe-but-not-completing-execcmd"
	}
	out.Label = elem + "," + verdict
	return out
}

func known(c Case, v *core.Violation) string { return oracle.Known(c.Line, v.Kind) }

var spec = core.Spec[Case]{
	ID: "C34", Gen: gen, Check: check, Classify: classify, Known: known,
	Sample: func(c Case) any { return c.Line },
}

func TestProp(t *testing.T) { core.RunProp(t, spec) }
func TestReplay(t *testing.T) {
	// a safe-list editing case (safelist_test.go) is recognised by its "word" field
	if b, err := os.ReadFile(os.Getenv("VERIF_REPLAY")); err == nil && strings.Contains(string(b), "\"word\"") {
		core.Replay(t, listSpec)
		return
	}
	core.Replay(t, spec)
}

// FuzzSafeVerdict is the native coverage-guided target (thorough tier): the
// fuzzed text is the part of the line in front of ` -> [ ` (or another
// ExecCmdline suffix chosen by the second argument). The same target exists in
// ./fz, which does not link harness/core and fuzzes much faster.
func FuzzSafeVerdict(f *testing.F) {
	f.Fuzz(func(t *testing.T, body string, suffix int) {
		if msg := oracle.FuzzOne(body, suffix); msg != "" {
			t.Fatalf("C34 violated: %s", msg)
		}
	})
}
