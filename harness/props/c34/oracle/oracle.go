// Package oracle holds the C34 oracle. It imports only utils/parser,
// lang/expressions and lang/types so the native fuzz target in ../fz links a
// small binary.
//
// What autocomplete does (shell/tab.go, shell/autocomplete/dynamic.go): the
// line up to the cursor is tokenized with parser.Parse(line, 0); when the
// command being completed (pt.FuncName) has an autocomplete definition with
// ExecCmdline (by default `[`, `[[` and `alter`) and pt.Unsafe is false, it
// executes Source[:LastFlowToken] with lang.Fork.Execute — which strips one
// pair of curly braces and hands the text to expressions.ParseBlock.
//
// Oracle (one direction only — an over-cautious verdict is fine): if the line
// would be executed, then walking the real parser's tree of the executed text
// must find (a) only commands that are on parser.GetSafeCmds(), (b) no
// expression statement that assigns, (c) no redirection to a named pipe other
// than the standard streams, no `>`/`>>` file writer, (d) no sub-shell. Only
// facts the real parser states in a structured way are used; anything that
// would need a third opinion about quoting is counted as "unsure" and not
// asserted.
package oracle

import (
	"encoding/json"
	"fmt"
	"os"
	"regexp"
	"sort"
	"strings"
	"sync"
	"time"
	"unicode/utf8"

	"github.com/lmorg/murex/lang/expressions"
	"github.com/lmorg/murex/lang/expressions/functions"
	"github.com/lmorg/murex/lang/types"
	"github.com/lmorg/murex/utils/parser"
)

// MaxRunes bounds the domain.
const MaxRunes = 300

// Normalise maps any string into the domain: valid UTF-8, at most MaxRunes.
func Normalise(s string) string {
	if !utf8.ValidString(s) {
		s = string([]rune(s))
	}
	if utf8.RuneCountInString(s) > MaxRunes {
		s = string([]rune(s)[:MaxRunes])
	}
	return s
}

// ExecCmdlineCmds are the commands whose default autocomplete definition sets
// ExecCmdline (config/defaults/profile_any.mx: `[`, `[[`;
// builtins/core/datatools/alter.go: `alter`).
var ExecCmdlineCmds = map[string]bool{"[": true, "[[": true, "alter": true}

// Suffixes put the cursor into the parameters of an ExecCmdline command.
var Suffixes = []string{" -> [ ", " -> [[ ", " -> alter ", "|[ ", " | alter -m ", " -> [ a", " => [[ /", " -> alter: "}

var (
	safeOnce sync.Once
	safeSet  map[string]bool
)

// IsSafeCmd: membership of parser.GetSafeCmds() (the default list; nothing in
// the harness changes it).
func IsSafeCmd(name string) bool {
	safeOnce.Do(func() {
		safeSet = map[string]bool{}
		for _, s := range parser.GetSafeCmds() {
			safeSet[s] = true
		}
	})
	return safeSet[name]
}

// ResetSafeSet makes IsSafeCmd read parser.GetSafeCmds() again (used by the
// safe-list editing check, which changes the list the way `config set shell
// safe-commands` does).
func ResetSafeSet() {
	safeOnce = sync.Once{}
}

// Verdict is the tokenizer's view of a line.
type Verdict struct {
	Panic    any
	Unsafe   bool
	FuncName string
	WouldRun bool   // the gate in dynamic.go would execute Executed
	Executed string // Source[:LastFlowToken]
}

// Tokenize runs the tokenizer exactly like shell.tabCompletion does.
func Tokenize(line string) (v Verdict) {
	defer func() {
		if p := recover(); p != nil {
			v = Verdict{Panic: p}
		}
	}()
	pt, _ := parser.Parse([]rune(line), 0)
	v.Unsafe = pt.Unsafe
	v.FuncName = pt.FuncName
	if pt.LastFlowToken >= 0 && pt.LastFlowToken <= len(pt.Source) {
		v.Executed = string(pt.Source[:pt.LastFlowToken])
	}
	// matchDynamic is reached when the cursor is in the parameters of a
	// command that has flags; ExpectFunc means a command name is being typed.
	v.WouldRun = !pt.Unsafe && !pt.ExpectFunc && ExecCmdlineCmds[pt.FuncName]
	return
}

// Finding is one unsafe element the real parser would act on.
type Finding struct {
	Kind string // unsafe-command, file-redirection, named-pipe, assignment, sub-shell
	What string
}

// Walk result.
type Walk struct {
	ParseErr error
	Hung     bool
	Panic    any
	Findings []Finding
	Commands []string // every command name met (recursively)
	Unsure   []string // constructs not judged (quoting would need a third opinion)
}

// blockRunners are safe-listed builtins that execute their `{...}` parameters.
var blockRunners = map[string]bool{
	"if": true, "!if": true, "try": true, "trypipe": true, "catch": true, "!catch": true,
	"and": true, "or": true, "!and": true, "!or": true, "for": true, "foreach": true,
	"formap": true, "while": true, "!while": true, "switch": true, "case": true, "default": true,
	"tryerr": true, "trypipeerr": true, "unsafe": true, "runmode": true, "time": true,
}

var stdPipes = map[string]bool{"out": true, "err": true, "null": true, "!out": true, "!err": true, "!null": true}

// plain command names: nothing that needs unquoting or expansion
var rxPlainName = regexp.MustCompile("^[^\\s'\"\\\\$@~{}()`*?#%]+$")

// an expression statement that starts with `name <assign-op>`
var rxAssign = regexp.MustCompile(`^\s*\$?[a-zA-Z_][a-zA-Z0-9_]*(\.[a-zA-Z0-9_]+)*\s*(=|:=|\+=|-=|\*=|/=|<~)(\s|[^=~>]|$)`)
var rxIncDec = regexp.MustCompile(`^\s*\$?[a-zA-Z_][a-zA-Z0-9_]*(\+\+|--)\s*$`)

// WalkExecuted parses the text like lang.Fork.Execute does and collects what
// the real parser would act on.
func WalkExecuted(text string) (w Walk) {
	defer func() {
		if p := recover(); p != nil {
			w.Panic = p
		}
	}()
	walk([]rune(text), &w, 0)
	return
}

func walk(block []rune, w *Walk, depth int) {
	if depth > 20 {
		w.Unsure = append(w.Unsure, "nesting deeper than 20")
		return
	}
	block = types.BlockStripCurlyBrace(block)
	fns, err, hung := parseGuarded(block)
	if hung {
		// C20's subject (known: `(` directly followed by a terminator loops)
		w.Unsure = append(w.Unsure, "block parser did not return")
		w.Hung = true
		return
	}
	if err != nil {
		if depth == 0 {
			w.ParseErr = err
		} else {
			// an inner block that does not parse fails when it is run
			w.Unsure = append(w.Unsure, "inner block does not parse")
		}
		return
	}
	for _, f := range *fns {
		walkFn(f, w, depth)
	}
}

// loopShape is C20's known endless loop (`(` directly followed by the end of
// the text or a token that ends an expression): such text is never handed to
// the block parser, a looping goroutine cannot be stopped.
func loopShape(r []rune) bool {
	at := func(i int) rune {
		if i < len(r) {
			return r[i]
		}
		return -1
	}
	for i, c := range r {
		if c != '(' {
			continue
		}
		n, n2 := at(i+1), at(i+2)
		switch {
		case n == -1, n == '#', n == ';':
			return true
		case n == '?' && n2 != '?' && n2 != ':':
			return true
		case n == '|' && n2 != '|':
			return true
		case (n == '-' || n == '=' || n == '>') && n2 == '>':
			return true
		}
	}
	return false
}

// parseGuarded runs expressions.ParseBlock under a watchdog.
func parseGuarded(block []rune) (fns *[]functions.FunctionT, err error, hung bool) {
	if loopShape(block) {
		return nil, nil, true
	}
	type res struct {
		fns *[]functions.FunctionT
		err error
		p   any
	}
	done := make(chan res, 1)
	go func() {
		var r res
		defer func() {
			if p := recover(); p != nil {
				r.p = p
			}
			done <- r
		}()
		r.fns, r.err = expressions.ParseBlock(append([]rune{}, block...))
	}()
	tm := time.NewTimer(8 * time.Second)
	defer tm.Stop()
	select {
	case r := <-done:
		if r.p != nil {
			panic(r.p) // recovered by WalkExecuted
		}
		return r.fns, r.err, false
	case <-tm.C:
		return nil, nil, true
	}
}

func walkFn(f functions.FunctionT, w *Walk, depth int) {
	name := string(f.CommandName())
	w.Commands = append(w.Commands, name)

	if name == "expr" && len(f.Parameters) == 1 && string(f.Command) == "expr" && isExprStatement(f) {
		e := string(f.Parameters[0])
		if rxAssign.MatchString(e) || rxIncDec.MatchString(e) {
			w.Findings = append(w.Findings, Finding{"assignment", strings.TrimSpace(e)})
		}
		subShells(e, w)
		return
	}

	switch {
	case !rxPlainName.MatchString(name):
		w.Unsure = append(w.Unsure, "command name needs unquoting: "+name)
	case name == ">" || name == ">>":
		w.Findings = append(w.Findings, Finding{"file-redirection", name + " " + joinParams(f)})
	case !IsSafeCmd(name):
		w.Findings = append(w.Findings, Finding{"unsafe-command", name})
	}

	for _, np := range f.NamedPipes {
		if !stdPipes[np] {
			w.Findings = append(w.Findings, Finding{"named-pipe", "<" + np + ">"})
		}
	}

	for _, p := range f.Parameters {
		s := string(p)
		t := strings.TrimSpace(s)
		if len(t) >= 2 && t[0] == '{' && t[len(t)-1] == '}' {
			if blockRunners[name] && IsSafeCmd(name) {
				walk([]rune(t), w, depth+1)
			}
			continue
		}
		subShells(s, w)
	}
}

// isExprStatement: ParseBlock marks an expression statement with the command
// `expr` and the raw expression as its only parameter; a typed `expr ...`
// command has the same shape, which is why Raw is compared too.
func isExprStatement(f functions.FunctionT) bool {
	raw := strings.TrimSpace(string(f.Raw))
	return !strings.HasPrefix(raw, "expr ") && !strings.HasPrefix(raw, "expr\t") && raw != "expr"
}

func joinParams(f functions.FunctionT) string {
	var a []string
	for _, p := range f.Parameters {
		a = append(a, string(p))
	}
	return strings.Join(a, " ")
}

// subShells flags `${` / `@{` in a raw parameter, but only where no single
// quote and no backslash is involved (otherwise whether it is live depends on
// quoting rules the oracle does not want to re-implement).
func subShells(raw string, w *Walk) {
	if !strings.Contains(raw, "${") && !strings.Contains(raw, "@{") {
		return
	}
	if strings.ContainsAny(raw, "'\\") {
		w.Unsure = append(w.Unsure, "sub-shell next to quote/escape: "+raw)
		return
	}
	w.Findings = append(w.Findings, Finding{"sub-shell", raw})
}

// Check returns ("", "") when the property holds for the line.
func Check(line string) (kind, msg string) {
	line = Normalise(line)
	v := Tokenize(line)
	if v.Panic != nil || !v.WouldRun {
		return "", "" // tokenizer panics are C20's subject
	}
	w := WalkExecuted(v.Executed)
	if w.Panic != nil || w.ParseErr != nil || w.Hung || len(w.Findings) == 0 {
		return "", "" // nothing runs / parser panics are C20's subject
	}
	var parts []string
	kinds := map[string]bool{}
	for _, f := range w.Findings {
		parts = append(parts, f.Kind+" "+fmt.Sprintf("%q", f.What))
		kinds[f.Kind] = true
	}
	var ks []string
	for k := range kinds {
		ks = append(ks, k)
	}
	sort.Strings(ks)
	return strings.Join(ks, "+"), fmt.Sprintf("line %q is judged safe (Unsafe=false, command being completed %q), autocomplete would execute %q, in which the real parser finds: %s",
		line, v.FuncName, v.Executed, strings.Join(parts, ", "))
}

// ---------------------------------------------------------------------------
// known findings

const (
	// The tokenizer looks a command name up only when a blank or a colon ends
	// it, and does not leave "reading a name" at a flow token: in `exit|num `
	// the name `exit` is never looked up and `num` is appended to it, so the
	// safe name `exitnum` is what gets checked (same for ; && || ?: and for a
	// name ended by `}`).
	KnownNameAtFlowToken = "C34-name-ended-by-flow-token-not-checked"
	// The tokenizer has no notion of expression statements: `a = 5` is the
	// safe command `a` with parameters, the real parser assigns.
	KnownExprStatement = "C34-expression-statement-judged-by-first-word"
)

var flowTokensForRepair = []string{"&&", "||", "?:", "->", "=>", "|>", "|", ";", "}", "?"}

// BlankBeforeFlowTokens inserts a blank in front of every flow token (and `}`)
// that directly follows a non-blank rune other than a backslash. Used only to attribute a failure to
// KnownNameAtFlowToken: if the verdict of the line repaired this way is
// "unsafe", the missing look-up at the flow token is what hid the command.
func BlankBeforeFlowTokens(line string) string {
	var b strings.Builder
	for i := 0; i < len(line); {
		matched := ""
		for _, ft := range flowTokensForRepair {
			if strings.HasPrefix(line[i:], ft) {
				matched = ft
				break
			}
		}
		if matched == "" {
			b.WriteByte(line[i])
			i++
			continue
		}
		if i > 0 && line[i-1] != ' ' && line[i-1] != '\t' && line[i-1] != '\\' {
			b.WriteByte(' ')
		}
		b.WriteString(matched)
		i += len(matched)
	}
	return b.String()
}

const (
	// A tab after a command name does not end the name for the tokenizer (only
	// a blank or a colon does); `reboot\t(a b)` is then looked up as the safe
	// command `(`.
	KnownTabAfterName = "C34-tab-does-not-end-command-name"
	// The tokenizer recognises the append redirection only as ` >>` (after a
	// blank); the real parser also redirects for `bar>>file`.
	KnownAppendNoBlank = "C34-append-redirect-without-blank-not-seen"
	// `?:` (and `??`) between commands is a flow token for the tokenizer; the
	// block parser reads `?` (the deprecated stderr pipe) followed by a `:cast`
	// statement, so the word after the next command name is what runs.
	KnownElvisAtBlockLevel = "C34-elvis-between-commands-is-stderr-pipe-plus-cast"
	// Runes that have their own branch in the tokenizer and do not start a
	// name there (& = ? :): a `&` where a command is expected belongs to the command name for the
	// block parser (`& out x` runs the command `&`, `&a` the command `&a`); the
	// tokenizer appends it to the name buffer without starting a name, so the
	// next rune starts the name afresh (`&a` is looked up as `a`, `& out` as
	// `out`).
	KnownBareAmpersand = "C34-command-name-starting-with-operator-rune"
	// `:type cmd`: the block parser reads a cast in front of the command, the
	// tokenizer ignores the colon and takes the type for the command name.
	KnownCastPrefix = "C34-cast-prefix-type-taken-for-command"
	// `(a && reboot now)` where a command is expected: for the tokenizer
	// everything up to the closing parenthesis is one quoted string, the block
	// parser ends the `(` statement at the flow token and runs what follows.
	KnownParenCommandSplit = "C34-paren-command-split-at-flow-token"
	// `a ~> b`: the block parser ends the statement at `~>` and runs the merge
	// method `~>` (not safe-listed); for the tokenizer `~>` is parameter text.
	KnownMergeOperator = "C34-merge-operator-not-seen"
	// `0\<LF>\a`: a backslash in front of a line feed ends the command name for
	// the block parser (the command `0` runs), the tokenizer keeps reading the
	// name.
	KnownEscapedLineFeed = "C34-escaped-line-feed-in-command-name"
)

// SplitElvis writes `?:` as `? :`, which is how the block parser reads it.
func SplitElvis(line string) string { return strings.ReplaceAll(line, "?:", " ? :") }

// the type of a cast ends at a blank or at a second colon glued to the command (`:out:0`)
var rxCastPrefix = regexp.MustCompile(`(^|[|;{\n]|&&|->|=>)([ \t]*):[ \t]*(?:[^\s|;{}&:]+:|[^\s|;{}&]+[ \t]+)`)

// DropCastPrefix removes a `:type ` cast written in front of a command, which
// is where the block parser accepts one.
func DropCastPrefix(line string) string {
	// an escaped rune is plain text for both parsers: hide it from the pattern
	const ph = "\x00"
	var hidden []string
	var b strings.Builder
	for i := 0; i < len(line); i++ {
		if line[i] == '\\' && i+1 < len(line) {
			_, n := utf8.DecodeRuneInString(line[i+1:])
			hidden = append(hidden, line[i:i+1+n])
			b.WriteString(ph)
			i += n
			continue
		}
		b.WriteByte(line[i])
	}
	line = b.String()
	defer func() {}()
	restore := func(t string) string {
		for _, h := range hidden {
			t = strings.Replace(t, ph, h, 1)
		}
		return t
	}
	// casts can be stacked (`:a :b cmd`): repeat until nothing changes
	for i := 0; i < 8; i++ {
		n := rxCastPrefix.ReplaceAllString(line, "$1$2")
		if n == line {
			break
		}
		line = n
	}
	return restore(line)
}

var rxExprQuestion = regexp.MustCompile(`(=[^\s?|;]*)\?([^\s?:])`)

// BlankAroundQuestionInExpr: in an expression statement (`a =0?A`) the block
// parser ends the expression at `?` whatever surrounds it; the tokenizer, which
// has no notion of expression statements, only knows the blank-delimited pipe.
func BlankAroundQuestionInExpr(line string) string {
	return rxExprQuestion.ReplaceAllString(line, "$1 ? $2")
}

// MergeAsPipedCommand writes the merge operator `~>` the way the block parser
// reads it: a pipe into the method `~>` (which is not on the safe list).
func MergeAsPipedCommand(line string) string { return strings.ReplaceAll(line, "~>", " -> ~> ") }

// EscapedLineFeedAsLineFeed drops the backslash in front of a line feed: the
// block parser ends the command name there, the tokenizer keeps the escaped
// line feed inside the name.
func EscapedLineFeedAsLineFeed(line string) string { return strings.ReplaceAll(line, "\\\n", "\n") }

// DropParens removes every `(` and `)` that is not escaped. A `#` between
// them (a comment for the block parser once it has split the statement) is
// removed together with the text up to the closing parenthesis, so that it
// does not hide the rest of the rewritten line from the tokenizer.
func DropParens(line string) string {
	var b strings.Builder
	depth := 0
	for i := 0; i < len(line); i++ {
		esc := i > 0 && line[i-1] == '\\'
		switch {
		case line[i] == '(' && !esc:
			depth++
			continue
		case line[i] == ')' && !esc:
			if depth > 0 {
				depth--
			}
			continue
		case line[i] == '#' && !esc && depth > 0:
			j := i
			for j < len(line) && !(line[j] == ')' && line[j-1] != '\\') && line[j] != '\n' {
				j++
			}
			i = j - 1
			continue
		}
		b.WriteByte(line[i])
	}
	return b.String()
}

// BlankBeforeAppend inserts a blank in front of every `>>` that directly
// follows a non-blank rune.
func BlankBeforeAppend(line string) string {
	var b strings.Builder
	for i := 0; i < len(line); i++ {
		if strings.HasPrefix(line[i:], ">>") && i > 0 {
			prev := line[i-1]
			escapedPrev := i > 1 && line[i-2] == '\\'
			switch {
			case prev == ' ', prev == '\t', prev == '>', prev == '\\':
			case prev == '|' && !escapedPrev: // `|>>` is seen by the tokenizer
			default:
				b.WriteByte(' ')
			}
		}
		b.WriteByte(line[i])
	}
	return b.String()
}

// TabsToBlanks replaces every tab by a blank.
func TabsToBlanks(line string) string { return strings.ReplaceAll(line, "\t", " ") }

// repairs attribute a failure to a tokenizer root cause: the line is rewritten
// the way that root cause needs (without changing what the real parser would
// run) and judged again; when the verdict becomes "unsafe", that root cause is
// what hid the unsafe element.
var repairs = []struct {
	id string
	fn func(string) string
}{
	{KnownNameAtFlowToken, BlankBeforeFlowTokens},
	{KnownAppendNoBlank, BlankBeforeAppend},
	{KnownTabAfterName, TabsToBlanks},
	{KnownElvisAtBlockLevel, SplitElvis},
	{KnownCastPrefix, DropCastPrefix},
	{KnownParenCommandSplit, DropParens},
	{KnownExprStatement, BlankAroundQuestionInExpr},
	{KnownMergeOperator, MergeAsPipedCommand},
	{KnownEscapedLineFeed, EscapedLineFeedAsLineFeed},
}

// Known maps a failure to a known-finding id ("" = not a listed finding).
func Known(line, kind string) string {
	line = Normalise(line)
	if kind == "" {
		return ""
	}
	flips := func(repaired string) bool {
		if repaired == line {
			return false
		}
		v := Tokenize(repaired)
		return v.Panic == nil && v.Unsafe
	}
	// only root causes that are still open are considered: a repaired one
	// needs no rewriting and must not absorb a failure
	for _, r := range repairs {
		if knownOpenCached(r.id) && flips(r.fn(line)) {
			return r.id
		}
	}
	// several root causes in one line: all repairs together
	all, first := line, ""
	for _, r := range repairs {
		if !knownOpenCached(r.id) {
			continue
		}
		if n := r.fn(all); n != all {
			all = n
			if first == "" {
				first = r.id
			}
		}
	}
	if first != "" && flips(all) {
		return first
	}
	if kind == "assignment" {
		return KnownExprStatement
	}
	if kind == "unsafe-command" {
		// every unsafe command found has a name that starts with & = ? or :
		v := Tokenize(line)
		w := WalkExecuted(v.Executed)
		only := len(w.Findings) > 0
		for _, f := range w.Findings {
			only = only && f.Kind == "unsafe-command" && f.What != "" && strings.ContainsRune("&=?:", rune(f.What[0]))
		}
		if only {
			return KnownBareAmpersand
		}
	}
	return ""
}

// IsKnownOpen reports whether id is an open entry of known_findings.json
// (same rule as core.IsKnownOpen; duplicated here to keep this package light).
func IsKnownOpen(id string) bool {
	if id == "" {
		return false
	}
	path := os.Getenv("VERIF_KNOWN")
	if path == "" {
		path = "/verif/known_findings.json"
	}
	b, err := os.ReadFile(path)
	if err != nil {
		return false
	}
	var doc struct {
		Findings []struct {
			ID     string `json:"id"`
			Status string `json:"status"`
		} `json:"findings"`
	}
	if json.Unmarshal(b, &doc) != nil {
		return false
	}
	for _, f := range doc.Findings {
		if f.ID == id && f.Status == "open" {
			return true
		}
	}
	return false
}

var (
	knownMu    sync.Mutex
	knownCache = map[string]bool{}
)

func knownOpenCached(id string) bool {
	knownMu.Lock()
	defer knownMu.Unlock()
	v, ok := knownCache[id]
	if !ok {
		v = IsKnownOpen(id)
		knownCache[id] = v
	}
	return v
}

// FuzzOne is the body of the native fuzz target: "" = holds or known finding.
func FuzzOne(body string, suffix int) string {
	if suffix < 0 {
		suffix = -suffix
	}
	if suffix < 0 {
		suffix = 0
	}
	line := Normalise(body)
	if r := []rune(line); len(r) > MaxRunes-12 {
		line = string(r[:MaxRunes-12])
	}
	line += Suffixes[suffix%len(Suffixes)]
	kind, msg := Check(line)
	if kind == "" {
		return ""
	}
	if id := Known(line, kind); id != "" && knownOpenCached(id) {
		return ""
	}
	return kind + ": " + msg
}
