package c34

// The safe-command list is user configuration (`config set shell
// safe-commands`, backed by parser.WriteSafeCmds). A command that has been
// taken off the list must be judged unsafe from then on, however often it was
// looked up while it was still listed.

import (
	"encoding/json"
	"fmt"
	"testing"

	"github.com/lmorg/murex/utils/parser"
	"pgregory.net/rapid"
	"verif/harness/core"
	"verif/harness/props/c34/oracle"
)

type ListCase struct {
	Word    string   `json:"word"`    // a command on the default safe list
	Lines   []string `json:"lines"`   // lines using it, tokenised before and after
	Removed []string `json:"removed"` // further names taken off the list with it
}

func genList(t *rapid.T) ListCase {
	w := rapid.SampledFrom(safeWords).Draw(t, "word")
	c := ListCase{Word: w}
	for i := 0; i < rapid.IntRange(1, 3).Draw(t, "nlines"); i++ {
		form := rapid.SampledFrom([]string{"%s -> [ ", "%s x -> [[ ", "out a | %s -> [ ", "%s: x -> alter ", "true; %s 1 2 -> [ a", "try { %s } -> [ "}).Draw(t, "form")
		c.Lines = append(c.Lines, fmt.Sprintf(form, w))
	}
	for i := 0; i < rapid.IntRange(0, 2).Draw(t, "extra"); i++ {
		c.Removed = append(c.Removed, rapid.SampledFrom(safeWords).Draw(t, "other"))
	}
	return c
}

func checkList(c ListCase) *core.Violation {
	orig := parser.GetSafeCmds()
	restore := func() {
		b, _ := json.Marshal(orig)
		parser.WriteSafeCmds(string(b))
		oracle.ResetSafeSet()
	}
	defer restore()
	// look the word up while it is still on the list
	for _, l := range c.Lines {
		oracle.Tokenize(oracle.Normalise(l))
	}
	drop := map[string]bool{c.Word: true}
	for _, r := range c.Removed {
		drop[r] = true
	}
	var kept []string
	for _, s := range orig {
		if !drop[s] {
			kept = append(kept, s)
		}
	}
	b, _ := json.Marshal(kept)
	if err := parser.WriteSafeCmds(string(b)); err != nil {
		return core.Violf("harness", "WriteSafeCmds: %v", err)
	}
	oracle.ResetSafeSet()
	for _, l := range c.Lines {
		if kind, msg := oracle.Check(oracle.Normalise(l)); kind != "" {
			if id := oracle.Known(l, kind); id != "" && oracle.IsKnownOpen(id) {
				core.ExcludedKnown(id)
				continue
			}
			return core.Violf("stale-safe-list:"+kind, "after %q was taken off the safe-command list: %s", c.Word, msg)
		}
	}
	return nil
}

var listSpec = core.Spec[ListCase]{
	ID: "C34", Gen: genList, Check: checkList,
	Classify: func(c ListCase) core.Class {
		return core.Class{NonTrivial: true, Label: "safe-list-edit", Key: fmt.Sprintf("%s %v %v", c.Word, c.Lines, c.Removed)}
	},
}

func TestPropSafeList(t *testing.T) { core.RunProp(t, listSpec) }
