// C35 — `escape`, `eschtml`, `escurl` are undone by their `!` forms.
//
// Domain: byte strings of 0–4 KiB (valid and invalid UTF-8, NUL, control
// characters, quotes, `& % + < >`, entity- and percent-escape-looking text,
// backslash escapes) written straight into the fork's stdin and piped through
// `<stdin> -> escape -> !escape` (and the html / url pairs) as methods, either
// in one pipeline or in two separate runs (the encoder's output bytes are fed
// to the decoder's stdin).
// Oracle: output bytes == input bytes, nothing on stderr, exit number 0.
package c35

import (
	"bytes"
	"encoding/json"
	"html"
	"net/url"
	"strconv"
	"strings"
	"testing"
	"unicode/utf8"

	"pgregory.net/rapid"
	"verif/harness/core"
	hgen "verif/harness/gen"
)

func TestMain(m *testing.M) {
	core.InitMurex()
	core.Main(m, "C35")
}

type Case struct {
	Pair  string `json:"pair"`  // escape eschtml escurl
	Mode  string `json:"mode"`  // pipe: one pipeline; split: two runs
	DType string `json:"dtype"` // data type given to the stdin stream: str or *
	// Data is the input. JSON strings cannot carry arbitrary bytes, so it is
	// stored as a Go-quoted string (strconv.Quote) and decoded with Unquote.
	DataQ string `json:"data_q"`
}

func (c Case) Data() []byte {
	s, err := strconv.Unquote(c.DataQ)
	if err != nil {
		return nil
	}
	return []byte(s)
}

var toks = []string{
	"&amp;", "&lt;", "&gt;", "&#39;", "&#34;", "&quot;", "&apos;", "&nbsp;", "&#x41;", "&#65;", "&#65", "&amp", "&lt", "&;", "&#;", "&#x;", "&#xD800;", "&#0;", "&#128;", "&#x80;",
	"&", "<", ">", "'", "\"", "%", "%41", "%zz", "%0", "%00", "%2F", "%2f", "%25", "+", "/", "?", "#", "=", ":", "@", ";", ",", " ",
	"\\", "\\\\", "\\n", "\\x41", "\\u00e9", "\\\"", "\\'", "\"\"", "\"a\"", "`", "\\U0001F600", "\\377", "\\xff",
	"\u00a0", "\u2028", "\ufeff", "\ufffd", "\u0085", "\U0010ffff",
}

var strGen = hgen.HostileString(hgen.StrOpts{MaxParts: 10, Newlines: true, Control: true, NUL: true, BadUTF8: true, ExtraToks: toks})

func genData(t *rapid.T) []byte {
	var b []byte
	switch rapid.IntRange(0, 9).Draw(t, "shape") {
	case 0, 1, 2, 3, 4:
		b = []byte(strGen.Draw(t, "s"))
	case 5, 6:
		b = rapid.SliceOfN(rapid.Byte(), 0, 64).Draw(t, "bytes")
	case 7:
		// hostile string with raw bytes mixed in
		b = []byte(strGen.Draw(t, "s1"))
		b = append(b, rapid.SliceOfN(rapid.Byte(), 0, 16).Draw(t, "bytes")...)
		b = append(b, strGen.Draw(t, "s2")...)
	default:
		// long input: a chunk repeated up to 4 KiB
		chunk := []byte(strGen.Draw(t, "chunk"))
		if len(chunk) == 0 {
			chunk = []byte{rapid.Byte().Draw(t, "byte")}
		}
		n := rapid.IntRange(1, 4096/len(chunk)+1).Draw(t, "repeat")
		b = bytes.Repeat(chunk, n)
	}
	if len(b) > 4096 {
		b = b[:4096]
	}
	return b
}

func gen(t *rapid.T) Case {
	c := Case{}
	c.Pair = rapid.SampledFrom([]string{"escape", "eschtml", "escurl"}).Draw(t, "pair")
	c.Mode = rapid.SampledFrom([]string{"pipe", "pipe", "split"}).Draw(t, "mode")
	c.DType = rapid.SampledFrom([]string{"str", "*"}).Draw(t, "dtype")
	c.DataQ = strconv.Quote(string(genData(t)))
	return c
}

func validPair(p string) bool { return p == "escape" || p == "eschtml" || p == "escurl" }

func check(c Case) *core.Violation {
	if !validPair(c.Pair) {
		return nil
	}
	in := c.Data()
	if in == nil {
		in = []byte{}
	}
	dt := c.DType
	if dt == "" {
		dt = "str"
	}
	var out []byte
	if c.Mode == "split" {
		r1 := core.RunStdin("<stdin> -> "+c.Pair+"\n", in, dt)
		if r1.Hung {
			return core.Violf("hang", "`<stdin> -> %s` did not finish on %q", c.Pair, in)
		}
		if r1.Err != nil || r1.Exit != 0 || len(r1.Stderr) != 0 {
			return core.Violf("error", "`<stdin> -> %s` failed on %q: exit=%d err=%v stderr=%q", c.Pair, in, r1.Exit, r1.Err, r1.Stderr)
		}
		mid := r1.Stdout
		if mid == nil {
			mid = []byte{}
		}
		r2 := core.RunStdin("<stdin> -> !"+c.Pair+"\n", mid, dt)
		if r2.Hung {
			return core.Violf("hang", "`<stdin> -> !%s` did not finish on %q", c.Pair, mid)
		}
		if r2.Err != nil || r2.Exit != 0 || len(r2.Stderr) != 0 {
			return core.Violf("error", "`<stdin> -> !%s` failed on %q (encoded form of %q): exit=%d err=%v stderr=%q", c.Pair, mid, in, r2.Exit, r2.Err, r2.Stderr)
		}
		out = r2.Stdout
		if !bytes.Equal(out, in) {
			return core.Violf("roundtrip", "%s then !%s (two runs)\ninput   %q\nencoded %q\noutput  %q", c.Pair, c.Pair, in, mid, out)
		}
		return nil
	}
	src := "<stdin> -> " + c.Pair + " -> !" + c.Pair + "\n"
	r := core.RunStdin(src, in, dt)
	if r.Hung {
		return core.Violf("hang", "`%s` did not finish on %q", strings.TrimSpace(src), in)
	}
	if r.Err != nil || r.Exit != 0 || len(r.Stderr) != 0 {
		return core.Violf("error", "`%s` failed on %q: exit=%d err=%v stderr=%q", strings.TrimSpace(src), in, r.Exit, r.Err, r.Stderr)
	}
	if !bytes.Equal(r.Stdout, in) {
		return core.Violf("roundtrip", "`%s`\ninput  %q\noutput %q", strings.TrimSpace(src), in, r.Stdout)
	}
	return nil
}

// mustChange reports whether the pair's encoder has to change the input
// (classification only; the Go functions are not used as an oracle).
func mustChange(pair string, in []byte) bool {
	s := string(in)
	switch pair {
	case "escape":
		q := strconv.Quote(s)
		return q[1:len(q)-1] != s
	case "eschtml":
		return html.EscapeString(s) != s
	default:
		return url.PathEscape(s) != s
	}
}

func classify(c Case) core.Class {
	in := c.Data()
	bad := !utf8.Valid(in)
	cl := core.Class{NonTrivial: bad || mustChange(c.Pair, in)}
	kind := "unchanged"
	switch {
	case bad:
		kind = "invalid-utf8"
	case cl.NonTrivial:
		kind = "must-change"
	}
	size := "short"
	if len(in) > 256 {
		size = "long"
	}
	cl.Label = c.Pair + "/" + c.Mode + "/" + kind + "/" + size
	return cl
}

func known(c Case, v *core.Violation) string { return "" }

var spec = core.Spec[Case]{
	ID: "C35", Gen: gen, Check: check, Classify: classify, Known: known,
	Sample: func(c Case) any {
		d := c.DataQ
		if len(d) > 200 {
			d = d[:200] + "…"
		}
		return map[string]any{"pair": c.Pair, "mode": c.Mode, "data_q": d}
	},
}

func TestProp(t *testing.T)   { core.RunProp(t, spec) }
func TestReplay(t *testing.T) { core.Replay(t, spec) }

// FuzzC35: coverage-guided bytes through the same oracle.
func FuzzC35(f *testing.F) {
	for _, s := range []string{"", "a b", "&amp;", "&#x41;", "%41+%", "\"\\", "\xff\xfe", "\x00", "é日本", "<a href='x'>&</a>", "a\nb\r\n"} {
		for i := 0; i < 6; i++ {
			f.Add([]byte(s), uint8(i))
		}
	}
	pairs := []string{"escape", "eschtml", "escurl"}
	f.Fuzz(func(t *testing.T, data []byte, k uint8) {
		if len(data) > 4096 {
			return
		}
		c := Case{Pair: pairs[int(k)%3], Mode: "pipe", DType: "str", DataQ: strconv.Quote(string(data))}
		if int(k)/3%2 == 1 {
			c.Mode = "split"
		}
		if v := core.Eval(spec, c, false); v != nil {
			b, _ := json.Marshal(c)
			t.Fatalf("C35 violated: %s\ncase: %s", v.Error(), b)
		}
	})
}
