// C08 — `$name` / `@name` used as command arguments are passed verbatim.
//
// Domain: scalar values = arbitrary valid-UTF-8 strings from the hostile
// generator (murex meta characters, injection payloads, newlines, control
// characters, NUL, references to the other variables of the same case); array
// values = 0–8 single-line elements of the same kind stored as a `json`
// variable. Values are installed with the Go API (Variables.Set on the fork),
// so murex quoting is not involved.
// Statement shapes: `f $x`, `f a $x b`, `f $(x)`, `f $x $y`, `f @arr`,
// `f $x @arr $y`, `f @arr $x`, … (see shapes).
// Observers: (parse) lang.ParseStatementParameters on the statement,
// (builtin) a Go builtin that prints the argument vector it received,
// (params) a murex function that prints $PARAMS, (out) the `out` builtin,
// (argv) an external process that prints its argv.
// Oracle: the argument vector is exactly the model vector (one argument per
// `$x`, equal to the value minus at most one trailing CR/LF; one argument per
// array element, verbatim), nothing is written to stderr, the exit number is 0
// and the sentinel global that every injection payload would set stays unset.
package c08

import (
	"encoding/json"
	"fmt"
	"os"
	"strings"
	"testing"
	"unicode/utf8"

	"github.com/lmorg/murex/lang"
	"github.com/lmorg/murex/lang/types"
	"pgregory.net/rapid"
	"verif/harness/core"
	hgen "verif/harness/gen"
)

const (
	sentinel    = "C08INJECT"
	findingDrop = "C08-empty-array-element-dropped"
	helperMark  = "C08ARGV"
)

// helper is an external program used as argv echo: coreutils printf with the
// format `%s\0` prints every argument followed by a NUL byte (arguments cannot
// contain NUL), so the vector is recovered unambiguously.
var helper string

func TestMain(m *testing.M) {
	core.InitMurex()
	for _, p := range []string{"/usr/bin/printf", "/bin/printf"} {
		if st, err := os.Stat(p); err == nil && !st.IsDir() {
			helper = p
			break
		}
	}
	// c08args: prints the argument vector it was given as JSON.
	lang.DefineFunction("c08args", func(p *lang.Process) error {
		b, _ := json.Marshal(p.Parameters.StringArray())
		p.Stdout.SetDataType(types.Json)
		_, err := p.Stdout.Write(b)
		return err
	}, types.Json)
	core.Main(m, "C08")
}

// ---------------------------------------------------------------------------

// shapes: the statement after the command name. X Y A are replaced by `$x`,
// `$y`, `@arr`; everything else is literal source text.
var shapes = []string{
	"X",           // 0
	"a X b",       // 1
	"P",           // 2  $(x)
	"X Y",         // 3
	"A",           // 4
	"X A Y",       // 5
	"A X",         // 6
	"a A b",       // 7
	"X\tY",        // 8
	"-- X",        // 9
	"A A",         // 10
	"a P b Y",     // 11
	" X  ",        // 12 (extra blanks around)
	"X ; c08args", // 13 a second command follows: it must still be exactly one
}

// array shapes are drawn as often as scalar ones
var shapeWeights = []int{4, 0, 5, 1, 6, 2, 7, 3, 10, 8, 4, 9, 5, 11, 6, 12, 10, 13}

type Case struct {
	Shape  int      `json:"shape"`
	X      string   `json:"x"`
	Y      string   `json:"y"`
	Arr    []string `json:"arr"`
	XType  string   `json:"xtype"`   // data type the scalars are stored with: str or * (generic)
	ArrRaw bool     `json:"arr_raw"` // install the array as JSON text instead of a Go slice
	Strict bool     `json:"strict"`  // proc/strict-arrays (murex default: true)
	Obs    string   `json:"obs"`     // parse builtin params out argv
}

func (c Case) shape() string { return shapes[c.Shape%len(shapes)] }
func (c Case) usesArr() bool { return strings.Contains(c.shape(), "A") }
func (c Case) usesY() bool   { return strings.Contains(c.shape(), "Y") }

var payloads = []string{
	"; global " + sentinel + "=1", "${global " + sentinel + "=1}", "@{global " + sentinel + "=1}",
	"| global " + sentinel + "=1", "&& global " + sentinel + "=1", "|| global " + sentinel + "=1",
	"\nglobal " + sentinel + "=1\n", "-> global " + sentinel + "=1", "=> global " + sentinel + "=1",
	"`global " + sentinel + "=1`", "$(x)", "$x", "$y", "@arr", "$arr", "$HOME", "~", "~root", "$PARAMS", "$1", "@PARAMS",
	"*", "?", "/*", "*.go", "%(", "%[1,2]", "%{a:1}", "(a b)", "[1]", "[[/a]]", "<stdin>", "<null>", "{BLUE}", "{RESET}",
	"#", " # x", "/#", "\\", "\\n", "\\ ", "'", "\"", "a b", " ", "\t",
}

var scalarGen = hgen.HostileString(hgen.StrOpts{MaxParts: 6, Newlines: true, Control: true, NUL: true, ExtraToks: payloads})

func lineOnly(s string) string {
	return strings.NewReplacer("\n", "", "\r", "").Replace(s)
}

func genScalar(t *rapid.T, label string) string {
	s := scalarGen.Draw(t, label)
	switch rapid.IntRange(0, 7).Draw(t, label+"_tail") {
	case 4:
		s += "\n"
	case 5:
		s += "\r\n"
	case 6:
		s += "\n\n"
	case 7:
		s += "\r"
	}
	if !utf8.ValidString(s) {
		s = strings.ToValidUTF8(s, "")
	}
	return s
}

func gen(t *rapid.T) Case {
	c := Case{}
	c.Shape = rapid.SampledFrom(shapeWeights).Draw(t, "shape")
	c.Obs = rapid.SampledFrom([]string{"parse", "parse", "parse", "parse", "builtin", "builtin", "params", "params", "out", "argv"}).Draw(t, "obs")
	if c.Obs == "argv" && rapid.IntRange(0, 1).Draw(t, "argv_sample") != 0 {
		c.Obs = "builtin" // the external observer is a 5 % sample (process start-up cost)
	}
	c.XType = rapid.SampledFrom([]string{types.String, types.String, types.Generic}).Draw(t, "xtype")
	c.Strict = rapid.Bool().Draw(t, "strict")
	c.X = genScalar(t, "x")
	if c.usesY() {
		c.Y = genScalar(t, "y")
	}
	if c.usesArr() {
		n := rapid.IntRange(0, 8).Draw(t, "n")
		c.Arr = make([]string, 0, n)
		for i := 0; i < n; i++ {
			c.Arr = append(c.Arr, strings.ToValidUTF8(lineOnly(scalarGen.Draw(t, "elem")), ""))
		}
		c.ArrRaw = rapid.Bool().Draw(t, "arr_raw")
	}
	if c.Shape == 13 && (c.Obs == "out" || c.Obs == "argv") {
		c.Obs = "builtin"
	}
	if c.Obs == "out" && strings.Contains(c.X+c.Y+strings.Join(c.Arr, ""), "{") {
		// `out` expands {ANSI} constants in its text (its own documented
		// feature, not the subject): observe through $PARAMS instead
		c.Obs = "params"
	}
	if c.Obs == "argv" && strings.Contains(c.X+c.Y+strings.Join(c.Arr, ""), "\x00") {
		c.Obs = "builtin" // execve cannot carry NUL
	}
	return c
}

// ---------------------------------------------------------------------------

func (c Case) cmdName() string {
	switch c.Obs {
	case "params":
		return "c08f"
	case "out":
		return "out"
	case "argv":
		return helper + ` '%s\0' ` + helperMark
	default:
		return "c08args"
	}
}

// Source is the statement under test.
func (c Case) Source() string {
	r := strings.NewReplacer("X", "$x", "Y", "$y", "A", "@arr", "P", "$(x)")
	return c.cmdName() + " " + r.Replace(c.shape())
}

// trims lists every form of v the statement allows ("at most one trailing
// CR/LF removed").
func trims(v string) []string {
	out := []string{v}
	switch {
	case strings.HasSuffix(v, "\r\n"):
		out = append(out, v[:len(v)-2], v[:len(v)-1])
	case strings.HasSuffix(v, "\n"), strings.HasSuffix(v, "\r"):
		out = append(out, v[:len(v)-1])
	}
	return out
}

// slot is one expected argument: any of the alternatives.
type slot struct {
	alts    []string
	fromArr bool
}

func (c Case) model() [][]slot {
	var stmts [][]slot
	var cur []slot
	for _, f := range strings.Fields(c.shape()) {
		switch f {
		case "X", "P":
			cur = append(cur, slot{alts: trims(c.X)})
		case "Y":
			cur = append(cur, slot{alts: trims(c.Y)})
		case "A":
			for _, e := range c.Arr {
				cur = append(cur, slot{alts: []string{e}, fromArr: true})
			}
		case ";":
			stmts = append(stmts, cur)
			cur = nil
		case "c08args":
		default:
			cur = append(cur, slot{alts: []string{f}})
		}
	}
	return append(stmts, cur)
}

func matches(want []slot, got []string) bool {
	if len(want) != len(got) {
		return false
	}
	for i := range want {
		ok := false
		for _, a := range want[i].alts {
			if a == got[i] {
				ok = true
			}
		}
		if !ok {
			return false
		}
	}
	return true
}

// withoutEmptyElems is the model vector with the empty array elements removed
// (shape of the known finding).
func withoutEmptyElems(want []slot) ([]slot, bool) {
	var out []slot
	dropped := false
	for _, s := range want {
		if s.fromArr && s.alts[0] == "" {
			dropped = true
			continue
		}
		out = append(out, s)
	}
	return out, dropped
}

func showWant(want []slot) string {
	var b strings.Builder
	b.WriteString("[")
	for i, s := range want {
		if i > 0 {
			b.WriteString(" ")
		}
		b.WriteString(fmt.Sprintf("%q", s.alts[0]))
		if len(s.alts) > 1 {
			b.WriteString("(or trimmed)")
		}
	}
	b.WriteString("]")
	return b.String()
}

func (c Case) prepare(f *lang.Fork) error {
	if err := f.Variables.Set(f.Process, "x", c.X, c.XType); err != nil {
		return err
	}
	if err := f.Variables.Set(f.Process, "y", c.Y, c.XType); err != nil {
		return err
	}
	arr := c.Arr
	if arr == nil {
		arr = []string{}
	}
	if c.ArrRaw {
		b, _ := json.Marshal(arr)
		if err := f.Variables.Set(f.Process, "arr", string(b), types.Json); err != nil {
			return err
		}
	} else {
		a := make([]any, len(arr))
		for i := range arr {
			a[i] = arr[i]
		}
		if err := f.Variables.Set(f.Process, "arr", a, types.Json); err != nil {
			return err
		}
	}
	return f.Config.Set("proc", "strict-arrays", c.Strict, nil)
}

func sentinelSet() bool {
	if s, _ := lang.GlobalVariables.GetString(sentinel); s != "" {
		lang.GlobalVariables.Unset(sentinel)
		return true
	}
	return false
}

const prelude = "function c08f {\n  $PARAMS\n}\n"

func compare(c Case, want []slot, got []string, ctx string) *core.Violation {
	if matches(want, got) {
		return nil
	}
	if w2, dropped := withoutEmptyElems(want); dropped && matches(w2, got) {
		return core.Violf("empty-elem-dropped", "%s\nx=%q y=%q arr=%q\nempty array elements were not passed as arguments\nwant %s\ngot  %q", ctx, c.X, c.Y, c.Arr, showWant(want), got)
	}
	return core.Violf("vector", "%s\nx=%q y=%q arr=%q\nwant %s\ngot  %q", ctx, c.X, c.Y, c.Arr, showWant(want), got)
}

func check(c Case) *core.Violation {
	if c.Obs == "" || c.Shape < 0 {
		return nil
	}
	if c.Obs == "argv" && helper == "" {
		core.Count("argv_helper_unavailable", 1)
		c.Obs = "builtin"
	}
	sentinelSet() // clear anything left behind
	src := c.Source()
	stmts := c.model()
	emptyStrict := c.usesArr() && len(c.Arr) == 0 && c.Strict

	if c.Obs == "parse" {
		stmt := src
		if i := strings.Index(stmt, ";"); i >= 0 {
			stmt = strings.TrimRight(stmt[:i], " ")
		}
		fork := lang.ShellProcess.Fork(lang.F_FUNCTION | lang.F_NEW_MODULE | lang.F_NO_STDIN | lang.F_CREATE_STDOUT | lang.F_CREATE_STDERR)
		defer fork.Kill()
		fork.Name.Set("verif")
		if err := c.prepare(fork); err != nil {
			return core.Violf("install", "cannot install the variables: %v", err)
		}
		name, params, err := lang.ParseStatementParameters([]rune(stmt), fork.Process)
		if sentinelSet() {
			return core.Violf("injected", "parsing %q ran a command hidden in a value\nx=%q y=%q arr=%q", stmt, c.X, c.Y, c.Arr)
		}
		if err != nil {
			if emptyStrict && strings.Contains(err.Error(), "is empty") {
				core.Count("empty_array_strict_error", 1)
				return nil
			}
			return core.Violf("error", "ParseStatementParameters(%q) failed: %v\nx=%q y=%q arr=%q", stmt, err, c.X, c.Y, c.Arr)
		}
		if emptyStrict {
			return core.Violf("strict", "ParseStatementParameters(%q): empty array with strict-arrays on gave no error (params %q)", stmt, params)
		}
		if name != c.cmdName() {
			return core.Violf("name", "ParseStatementParameters(%q): command name %q", stmt, name)
		}
		return compare(c, stmts[0], params, "ParseStatementParameters("+stmt+")")
	}

	r := core.RunWith(prelude+src+"\n", core.RunOpts{Prepare: func(f *lang.Fork) {
		if err := c.prepare(f); err != nil {
			panic(err)
		}
	}})
	if r.Hung {
		return core.Violf("hang", "program did not finish\n%s\nx=%q y=%q arr=%q", src, c.X, c.Y, c.Arr)
	}
	if sentinelSet() {
		return core.Violf("injected", "running %q ran a command hidden in a value\nx=%q y=%q arr=%q", src, c.X, c.Y, c.Arr)
	}
	ctx := fmt.Sprintf("%s\nstdout=%q stderr=%q exit=%d err=%v", src, r.Stdout, r.Stderr, r.Exit, r.Err)
	if emptyStrict {
		if r.Exit != 0 && strings.Contains(string(r.Stderr), "is empty") {
			core.Count("empty_array_strict_error", 1)
			return nil
		}
		return core.Violf("strict", "empty array with strict-arrays on gave no error\n%s", ctx)
	}
	if r.Err != nil || r.Exit != 0 || len(r.Stderr) != 0 {
		return core.Violf("error", "unexpected failure\n%s\nx=%q y=%q arr=%q", ctx, c.X, c.Y, c.Arr)
	}
	out := string(r.Stdout)
	switch c.Obs {
	case "out":
		// `out` joins its arguments with one space and appends a newline
		want := stmts[0]
		var opts []string
		build := func(ws []slot) []string {
			res := []string{""}
			for i, s := range ws {
				var next []string
				for _, pre := range res {
					for _, a := range s.alts {
						if i > 0 {
							next = append(next, pre+" "+a)
						} else {
							next = append(next, a)
						}
					}
				}
				res = next
			}
			return res
		}
		opts = build(want)
		for _, o := range opts {
			if out == o+"\n" {
				return nil
			}
		}
		if w2, dropped := withoutEmptyElems(want); dropped {
			for _, o := range build(w2) {
				if out == o+"\n" {
					return core.Violf("empty-elem-dropped", "%s\nx=%q y=%q arr=%q\nempty array elements were not passed to out", ctx, c.X, c.Y, c.Arr)
				}
			}
		}
		return core.Violf("vector", "%s\nx=%q y=%q arr=%q\nwant stdout %q", ctx, c.X, c.Y, c.Arr, opts[0]+"\n")
	case "argv":
		if !strings.HasPrefix(out, helperMark+"\x00") {
			return core.Violf("vector", "external helper output malformed\n%s", ctx)
		}
		got := strings.Split(out[len(helperMark)+1:], "\x00")
		if got[len(got)-1] != "" {
			return core.Violf("vector", "external helper output malformed\n%s", ctx)
		}
		return compare(c, stmts[0], got[:len(got)-1], ctx)
	}
	// builtin / params: one JSON array per statement
	dec := json.NewDecoder(strings.NewReader(out))
	for i, want := range stmts {
		var got []string
		if err := dec.Decode(&got); err != nil {
			return core.Violf("vector", "statement %d printed no argument vector (%v)\n%s\nx=%q y=%q arr=%q", i, err, ctx, c.X, c.Y, c.Arr)
		}
		if v := compare(c, want, got, ctx); v != nil {
			return v
		}
	}
	if dec.More() {
		return core.Violf("vector", "more commands ran than were written\n%s\nx=%q y=%q arr=%q", ctx, c.X, c.Y, c.Arr)
	}
	return nil
}

// ---------------------------------------------------------------------------

const metaChars = " \t\n\r'\"$@~*?;|&{}()[]<>#\\`%=:-!^"

func hasMeta(s string) bool {
	if strings.ContainsAny(s, metaChars) {
		return true
	}
	for _, r := range s {
		if r < 0x20 || r == 0x7f {
			return true
		}
	}
	return false
}

func classify(c Case) core.Class {
	vals := []string{c.X}
	if c.usesY() {
		vals = append(vals, c.Y)
	}
	if c.usesArr() {
		vals = append(vals, c.Arr...)
	}
	meta := false
	for _, v := range vals {
		if hasMeta(v) {
			meta = true
		}
	}
	kind := "scalar"
	if c.usesArr() {
		kind = "array"
		if strings.ContainsAny(c.shape(), "XYP") {
			kind = "mixed"
		}
	}
	cl := core.Class{NonTrivial: meta}
	if meta {
		cl.Label = c.Obs + "/" + kind + "/meta"
	} else {
		cl.Label = c.Obs + "/" + kind + "/plain"
	}
	return cl
}

func known(c Case, v *core.Violation) string {
	if v.Kind != "empty-elem-dropped" || !c.usesArr() {
		return ""
	}
	for _, e := range c.Arr {
		if e == "" {
			return findingDrop
		}
	}
	return ""
}

var spec = core.Spec[Case]{
	ID: "C08", Gen: gen, Check: check, Classify: classify, Known: known,
	Sample: func(c Case) any {
		return map[string]any{"src": c.Source(), "x": c.X, "y": c.Y, "arr": c.Arr, "obs": c.Obs}
	},
}

func TestProp(t *testing.T)   { core.RunProp(t, spec) }
func TestReplay(t *testing.T) { core.Replay(t, spec) }
