package c08

import (
	"fmt"
	"testing"
	"time"
)

func TestBench(t *testing.T) {
	for _, obs := range []string{"parse", "builtin", "params", "out", "argv"} {
		c := Case{Shape: 5, X: "a b", Y: "c", Arr: []string{"x", "y z"}, XType: "str", Obs: obs}
		t0 := time.Now()
		n := 300
		for i := 0; i < n; i++ {
			if v := check(c); v != nil {
				t.Fatal(v)
			}
		}
		fmt.Println(obs, time.Since(t0)/time.Duration(n))
	}
}
