// C06 — Arithmetic and comparison expressions follow C precedence.
//
// Domain: typed expression trees (depth ≤ 6) over integer and decimal literals
// (negatives, zero spellings, leading/trailing zeros, division by zero), the
// operators + - * / < <= > >= == !=, comparisons of quoted string literals and
// ==/!= between comparison results. The printer writes the tree as murex
// source with only the parentheses C precedence requires (plus random
// redundant ones) and random spacing that does not change lexing.
//
// Oracle: the tree is the meaning. A Go evaluator over float64 computes the
// expected value; numbers must be bit-identical (any NaN ≡ any NaN), booleans
// equal. Observed three ways: expressions.ExecuteExpr (typed Go value), the
// expression as a statement of a block (stdout + exit number) and a variable
// assigned from the expression (typed value, data type and `out $v`).
package c06

import (
	"fmt"
	"math"
	"strconv"
	"strings"
	"testing"

	"github.com/lmorg/murex/lang"
	"github.com/lmorg/murex/lang/expressions"
	"pgregory.net/rapid"
	"verif/harness/core"
)

func TestMain(m *testing.M) {
	core.InitMurex()
	core.Main(m, "C06")
}

// Node is one node of an expression tree.
type Node struct {
	Kind string `json:"k"`             // "num" | "str" | "op"
	Lit  string `json:"lit,omitempty"` // num: literal text; str: contents
	Q    string `json:"q,omitempty"`   // str: quote character ' or "
	Op   string `json:"op,omitempty"`  // + - * / < <= > >= == !=
	L    *Node  `json:"l,omitempty"`
	R    *Node  `json:"r,omitempty"`
	Par  int    `json:"par,omitempty"` // redundant parentheses around this node
	A    string `json:"a,omitempty"`   // white space before the operator
	B    string `json:"b,omitempty"`   // white space after the operator
	P    string `json:"p,omitempty"`   // padding inside every parenthesis of this node
}

type Case struct {
	Mode string `json:"mode"` // api | stmt | assign
	Tree *Node  `json:"tree"`
}

// ---------------------------------------------------------------------------
// generator

var spaces = []string{" ", "", "  ", "\t", " \t"}

func genSpace(t *rapid.T, label string) string {
	return rapid.SampledFrom(spaces).Draw(t, label)
}

func digits(t *rapid.T, n int, label string) string {
	var b strings.Builder
	for i := 0; i < n; i++ {
		b.WriteByte(byte('0' + rapid.IntRange(0, 9).Draw(t, label)))
	}
	return b.String()
}

var fixedLits = []string{"0.1", "0.2", "0.3", "0.5", "0.000001", "123456.789012", "1000000000000000",
	"999999999999999", "3.14", "2.5", "100", "1.000001", "0.999999", "4294967296", "2147483648"}

var zeroLits = []string{"0", "00", "0.0", "0.00", "0.000000"}

func genNumLit(t *rapid.T) string {
	var s string
	switch rapid.IntRange(0, 9).Draw(t, "litkind") {
	case 0, 1, 2, 3:
		s = strconv.Itoa(rapid.IntRange(0, 12).Draw(t, "small"))
	case 4:
		s = rapid.SampledFrom(zeroLits).Draw(t, "zero")
	case 5:
		// integer of 1..15 digits (≤ 10^15), no leading zero
		n := rapid.IntRange(1, 15).Draw(t, "ndigits")
		s = strconv.Itoa(rapid.IntRange(1, 9).Draw(t, "lead")) + digits(t, n-1, "d")
	case 6:
		// decimal with 1–6 fraction digits
		s = strconv.Itoa(rapid.IntRange(0, 12).Draw(t, "ipart")) + "." + digits(t, rapid.IntRange(1, 6).Draw(t, "nfrac"), "f")
	case 7:
		n := rapid.IntRange(1, 9).Draw(t, "ndigits")
		s = strconv.Itoa(rapid.IntRange(1, 9).Draw(t, "lead")) + digits(t, n-1, "d") + "." + digits(t, rapid.IntRange(1, 6).Draw(t, "nfrac"), "f")
	case 8:
		s = rapid.SampledFrom(fixedLits).Draw(t, "fixed")
	default:
		// leading zeros
		s = "0" + digits(t, rapid.IntRange(1, 3).Draw(t, "nz"), "z")
		if rapid.Bool().Draw(t, "zfrac") {
			s += "." + digits(t, rapid.IntRange(1, 3).Draw(t, "nfrac"), "f")
		}
	}
	if rapid.IntRange(0, 3).Draw(t, "neg") == 3 {
		s = "-" + s
	}
	return s
}

// respell writes the same number differently.
func respell(t *rapid.T, s string) string {
	neg := strings.HasPrefix(s, "-")
	s = strings.TrimPrefix(s, "-")
	switch rapid.IntRange(0, 4).Draw(t, "respell") {
	case 0:
		s = "00" + s
	case 1:
		if strings.Contains(s, ".") {
			s += "0"
		} else {
			s += ".0"
		}
	case 2:
		if strings.Contains(s, ".") {
			s += "000"
		} else {
			s += ".000000"
		}
	case 3:
		s = "0" + s
		if !strings.Contains(s, ".") {
			s += ".00"
		}
	default:
		// unchanged
	}
	if neg {
		s = "-" + s
	}
	return s
}

var strPieces = []string{"a", "b", "B", "Z", "z", "1", "9", "10", "2", " ", "-", "_", ".", "é", "日", "ab", "abc", "A"}

func genStr(t *rapid.T) string {
	n := rapid.IntRange(0, 4).Draw(t, "strparts")
	var b strings.Builder
	for i := 0; i < n; i++ {
		b.WriteString(rapid.SampledFrom(strPieces).Draw(t, "piece"))
	}
	return b.String()
}

func genQuote(t *rapid.T) string { return rapid.SampledFrom([]string{"'", "\""}).Draw(t, "quote") }

func decorate(t *rapid.T, n *Node) *Node {
	// A parenthesised lone string literal `('a')` is rejected by murex by
	// design ("not an expression": a lone quoted string is a command name);
	// the statement promises nothing about it, so string literals are never
	// wrapped in redundant parentheses.
	if n.Kind != "str" && rapid.IntRange(0, 7).Draw(t, "par") == 7 {
		n.Par = rapid.IntRange(1, 2).Draw(t, "npar")
	}
	n.P = rapid.SampledFrom([]string{"", "", " ", "\t"}).Draw(t, "pad")
	if n.Kind == "op" {
		n.A = genSpace(t, "spA")
		n.B = genSpace(t, "spB")
	}
	return n
}

var arith = []string{"+", "-", "*", "/"}
var rel = []string{"<", "<=", ">", ">="}
var eq = []string{"==", "!="}
var cmp = []string{"<", "<=", ">", ">=", "==", "!="}

func genNum(t *rapid.T, depth int) *Node {
	if depth <= 0 || rapid.IntRange(0, 9).Draw(t, "leaf") < 3 {
		return decorate(t, &Node{Kind: "num", Lit: genNumLit(t)})
	}
	n := &Node{Kind: "op", Op: rapid.SampledFrom(arith).Draw(t, "arith")}
	n.L = genNum(t, depth-1)
	n.R = genNum(t, depth-1)
	return decorate(t, n)
}

func genBool(t *rapid.T, depth int) *Node {
	k := rapid.IntRange(0, 9).Draw(t, "boolkind")
	switch {
	case k <= 4 || depth <= 0:
		n := &Node{Kind: "op", Op: rapid.SampledFrom(cmp).Draw(t, "cmp")}
		n.L = genNum(t, depth-1)
		n.R = genNum(t, depth-1)
		return decorate(t, n)
	case k == 5:
		// the same number written in two ways
		n := &Node{Kind: "op", Op: rapid.SampledFrom(cmp).Draw(t, "cmp")}
		lit := genNumLit(t)
		n.L = decorate(t, &Node{Kind: "num", Lit: lit})
		n.R = decorate(t, &Node{Kind: "num", Lit: respell(t, lit)})
		if rapid.Bool().Draw(t, "swap") {
			n.L, n.R = n.R, n.L
		}
		return decorate(t, n)
	case k <= 7:
		n := &Node{Kind: "op", Op: rapid.SampledFrom(cmp).Draw(t, "cmp")}
		a := genStr(t)
		var b string
		switch rapid.IntRange(0, 4).Draw(t, "strrel") {
		case 0:
			b = a
		case 1:
			b = a + rapid.SampledFrom(strPieces).Draw(t, "piece")
		case 2:
			if len(a) > 0 {
				r := []rune(a)
				b = string(r[:len(r)-1])
			}
		default:
			b = genStr(t)
		}
		if rapid.Bool().Draw(t, "swap") {
			a, b = b, a
		}
		n.L = decorate(t, &Node{Kind: "str", Lit: a, Q: genQuote(t)})
		n.R = decorate(t, &Node{Kind: "str", Lit: b, Q: genQuote(t)})
		return decorate(t, n)
	default:
		n := &Node{Kind: "op", Op: rapid.SampledFrom(eq).Draw(t, "eq")}
		n.L = genBool(t, depth-1)
		n.R = genBool(t, depth-1)
		return decorate(t, n)
	}
}

func gen(t *rapid.T) Case {
	depth := rapid.IntRange(1, 6).Draw(t, "depth")
	var c Case
	if rapid.Bool().Draw(t, "bool") {
		c.Tree = genBool(t, depth)
	} else {
		c.Tree = genNum(t, depth)
	}
	c.Mode = rapid.SampledFrom([]string{"api", "api", "stmt", "assign"}).Draw(t, "mode")
	if c.Mode == "stmt" && strings.HasPrefix(c.Source(), "(") {
		// `(` in command position is murex's brace-quote command, not an expression
		c.Mode = "assign"
	}
	return c
}

// ---------------------------------------------------------------------------
// printer

func (n *Node) level() int {
	if n.Kind != "op" {
		return 9
	}
	switch n.Op {
	case "*", "/":
		return 4
	case "+", "-":
		return 3
	case "<", "<=", ">", ">=":
		return 2
	default:
		return 1
	}
}

// needParen reports whether the child needs parentheses under its parent.
func needParen(parent, child *Node, right bool) bool {
	if child.Kind != "op" {
		return false
	}
	if right {
		return child.level() <= parent.level()
	}
	return child.level() < parent.level()
}

func (n *Node) print(b *strings.Builder, extra int) {
	parens := n.Par + extra
	for i := 0; i < parens; i++ {
		b.WriteString("(" + n.P)
	}
	switch n.Kind {
	case "num":
		b.WriteString(n.Lit)
	case "str":
		b.WriteString(n.Q + n.Lit + n.Q)
	default:
		e := 0
		if needParen(n, n.L, false) {
			e = 1
		}
		n.L.print(b, e)
		b.WriteString(n.A + n.Op + n.B)
		e = 0
		if needParen(n, n.R, true) {
			e = 1
		}
		n.R.print(b, e)
	}
	for i := 0; i < parens; i++ {
		b.WriteString(n.P + ")")
	}
}

func (c Case) Source() string {
	var b strings.Builder
	c.Tree.print(&b, 0)
	return b.String()
}

// canonical prints the tree with minimal parentheses and single spaces.
func canonical(n *Node, b *strings.Builder, paren bool) {
	if paren {
		b.WriteByte('(')
	}
	switch n.Kind {
	case "num":
		b.WriteString(n.Lit)
	case "str":
		b.WriteString(strconv.Quote(n.Lit))
	default:
		canonical(n.L, b, needParen(n, n.L, false))
		b.WriteString(" " + n.Op + " ")
		canonical(n.R, b, needParen(n, n.R, true))
	}
	if paren {
		b.WriteByte(')')
	}
}

// ---------------------------------------------------------------------------
// reference evaluator

type value struct {
	kind string // num | bool | str
	f    float64
	b    bool
	s    string
}

func eval(n *Node) value {
	switch n.Kind {
	case "num":
		f, err := strconv.ParseFloat(n.Lit, 64)
		if err != nil {
			panic("generator produced a bad literal: " + n.Lit)
		}
		return value{kind: "num", f: f}
	case "str":
		return value{kind: "str", s: n.Lit}
	}
	l, r := eval(n.L), eval(n.R)
	switch n.Op {
	case "+":
		return value{kind: "num", f: float64(l.f + r.f)}
	case "-":
		return value{kind: "num", f: float64(l.f - r.f)}
	case "*":
		return value{kind: "num", f: float64(l.f * r.f)}
	case "/":
		return value{kind: "num", f: float64(l.f / r.f)} // IEEE-754: x/0 = ±Inf, 0/0 = NaN
	}
	var res bool
	switch l.kind {
	case "num":
		switch n.Op {
		case "<":
			res = l.f < r.f
		case "<=":
			res = l.f <= r.f
		case ">":
			res = l.f > r.f
		case ">=":
			res = l.f >= r.f
		case "==":
			res = l.f == r.f
		case "!=":
			res = l.f != r.f
		}
	case "str":
		switch n.Op {
		case "<":
			res = l.s < r.s // Go compares strings in byte order
		case "<=":
			res = l.s <= r.s
		case ">":
			res = l.s > r.s
		case ">=":
			res = l.s >= r.s
		case "==":
			res = l.s == r.s
		case "!=":
			res = l.s != r.s
		}
	case "bool":
		switch n.Op {
		case "==":
			res = l.b == r.b
		case "!=":
			res = l.b != r.b
		default:
			panic("relational operator on booleans is outside the domain")
		}
	}
	return value{kind: "bool", b: res}
}

func sameFloat(a, b float64) bool {
	if math.IsNaN(a) || math.IsNaN(b) {
		return math.IsNaN(a) && math.IsNaN(b)
	}
	return math.Float64bits(a) == math.Float64bits(b)
}

func fbits(f float64) string {
	return fmt.Sprintf("%s (bits %016x)", strconv.FormatFloat(f, 'g', -1, 64), math.Float64bits(f))
}

// ---------------------------------------------------------------------------
// check

var (
	apiProc  *lang.Process
	apiCalls int
)

func testProcess() *lang.Process {
	// lang.NewTestProcess carries a 60 s context; renew it by count.
	if apiProc == nil || apiCalls >= 2000 {
		apiProc = lang.NewTestProcess()
		apiCalls = 0
	}
	apiCalls++
	return apiProc
}

func checkTyped(src, where string, got any, want value) *core.Violation {
	switch want.kind {
	case "num":
		f, ok := got.(float64)
		if !ok {
			return core.Violf("type", "%s of `%s`: want number %s, got %#v (%T)", where, src, fbits(want.f), got, got)
		}
		if !sameFloat(f, want.f) {
			return core.Violf("value", "%s of `%s`: want %s, got %s", where, src, fbits(want.f), fbits(f))
		}
	case "bool":
		b, ok := got.(bool)
		if !ok {
			return core.Violf("type", "%s of `%s`: want boolean %v, got %#v (%T)", where, src, want.b, got, got)
		}
		if b != want.b {
			return core.Violf("value", "%s of `%s`: want %v, got %v", where, src, want.b, b)
		}
	}
	return nil
}

func checkText(src, where, got string, want value) *core.Violation {
	switch want.kind {
	case "num":
		f, err := strconv.ParseFloat(got, 64)
		if err != nil {
			return core.Violf("text", "%s of `%s`: want the number %s, got %q", where, src, fbits(want.f), got)
		}
		if !sameFloat(f, want.f) {
			return core.Violf("value", "%s of `%s`: want %s, got %q = %s", where, src, fbits(want.f), got, fbits(f))
		}
	case "bool":
		if got != strconv.FormatBool(want.b) {
			return core.Violf("value", "%s of `%s`: want %v, got %q", where, src, want.b, got)
		}
	}
	return nil
}

func check(c Case) *core.Violation {
	src := c.Source()
	want := eval(c.Tree)
	mode := c.Mode
	if mode == "stmt" && strings.HasPrefix(src, "(") {
		mode = "assign"
	}
	switch mode {
	case "api":
		dt, err := expressions.ExecuteExpr(testProcess(), []rune(src))
		if err != nil {
			return core.Violf("error", "ExecuteExpr(`%s`) failed: %v (want %+v)", src, err, want)
		}
		v, err := dt.GetValue()
		if err != nil {
			return core.Violf("error", "GetValue of `%s` failed: %v", src, err)
		}
		return checkTyped(src, "ExecuteExpr value", v.Value, want)

	case "stmt":
		r := core.Run(src + "\n")
		if r.Hung {
			return core.Violf("hang", "statement `%s` did not finish", src)
		}
		if r.Err != nil || len(r.Stderr) != 0 {
			return core.Violf("error", "statement `%s` failed: err=%v stderr=%q stdout=%q", src, r.Err, r.Stderr, r.Stdout)
		}
		if v := checkText(src, "stdout", string(r.Stdout), want); v != nil {
			return v
		}
		wantExit := 0
		if want.kind == "bool" && !want.b {
			wantExit = 1
		}
		if r.Exit != wantExit {
			return core.Violf("exit", "statement `%s`: want exit number %d, got %d (stdout %q)", src, wantExit, r.Exit, r.Stdout)
		}
		return nil

	case "assign":
		var fk *lang.Fork
		prog := "c06v = " + src + "\nout $c06v\n"
		r := core.RunWith(prog, core.RunOpts{Prepare: func(f *lang.Fork) { fk = f }})
		if r.Hung {
			return core.Violf("hang", "program did not finish:\n%s", prog)
		}
		if r.Err != nil || len(r.Stderr) != 0 || r.Exit != 0 {
			return core.Violf("error", "program failed: err=%v exit=%d stderr=%q stdout=%q\n%s", r.Err, r.Exit, r.Stderr, r.Stdout, prog)
		}
		got, err := fk.Variables.GetValue("c06v")
		if err != nil {
			return core.Violf("error", "variable assigned from `%s` cannot be read: %v", src, err)
		}
		if v := checkTyped(src, "variable assigned", got, want); v != nil {
			return v
		}
		wantType := "num"
		if want.kind == "bool" {
			wantType = "bool"
		}
		if dt := fk.Variables.GetDataType("c06v"); dt != wantType {
			return core.Violf("type", "variable assigned from `%s`: want data type %s, got %s", src, wantType, dt)
		}
		return checkText(src, "`out $v`", strings.TrimSuffix(string(r.Stdout), "\n"), want)
	}
	panic("bad mode " + c.Mode)
}

// ---------------------------------------------------------------------------
// classification

type shape struct {
	ops, mixed, assoc, parens, negLit, strCmp, boolEq, div0 int
}

func walk(n *Node, parent *Node, right bool, sh *shape) {
	extra := 0
	if parent != nil && needParen(parent, n, right) {
		extra = 1
	}
	bare := n.Par+extra == 0
	sh.parens += n.Par + extra
	switch n.Kind {
	case "num":
		if strings.HasPrefix(n.Lit, "-") {
			sh.negLit++
		}
		return
	case "str":
		return
	}
	sh.ops++
	if parent != nil && bare {
		if n.level() != parent.level() {
			sh.mixed++
		} else if !right && !(n.Op == parent.Op && (n.Op == "+" || n.Op == "*")) {
			sh.assoc++
		}
	}
	if n.L.Kind == "str" {
		sh.strCmp++
	}
	if n.level() == 1 && n.L.Kind == "op" && n.L.level() <= 2 {
		sh.boolEq++
	}
	if n.Op == "/" {
		if r := eval(n.R); r.f == 0 {
			sh.div0++
		}
	}
	walk(n.L, n, false, sh)
	walk(n.R, n, true, sh)
}

func classify(c Case) core.Class {
	var sh shape
	walk(c.Tree, nil, false, &sh)
	var b strings.Builder
	canonical(c.Tree, &b, false)
	cl := core.Class{Key: b.String()}
	cl.NonTrivial = sh.mixed > 0 || sh.assoc > 0
	switch {
	case sh.mixed > 0 && sh.assoc > 0:
		cl.Label = "mixed-precedence+left-assoc"
	case sh.mixed > 0:
		cl.Label = "mixed-precedence"
	case sh.assoc > 0:
		cl.Label = "left-assoc"
	case sh.ops >= 2:
		cl.Label = "parenthesised-only"
	case sh.ops == 1:
		cl.Label = "single-operator"
	default:
		cl.Label = "literal"
	}
	want := eval(c.Tree)
	cl.Label += "/" + want.kind
	core.Count("mode-"+c.Mode, 1)
	if sh.negLit > 0 {
		core.Count("has-negative-literal", 1)
	}
	if sh.strCmp > 0 {
		core.Count("has-string-comparison", 1)
	}
	if sh.boolEq > 0 {
		core.Count("has-bool==bool", 1)
	}
	if sh.div0 > 0 {
		core.Count("has-division-by-zero", 1)
	}
	if sh.parens > 0 {
		core.Count("has-parentheses", 1)
	}
	if want.kind == "num" {
		switch {
		case math.IsNaN(want.f):
			core.Count("result-NaN", 1)
		case math.IsInf(want.f, 0):
			core.Count("result-Inf", 1)
		case want.f == 0 && math.Signbit(want.f):
			core.Count("result-minus-zero", 1)
		}
	} else if want.b {
		core.Count("result-true", 1)
	} else {
		core.Count("result-false", 1)
	}
	return cl
}

func known(c Case, v *core.Violation) string { return "" }

var spec = core.Spec[Case]{
	ID: "C06", Gen: gen, Check: check, Classify: classify, Known: known,
	Sample: func(c Case) any { return c.Mode + ": " + c.Source() },
}

func TestProp(t *testing.T)   { core.RunProp(t, spec) }
func TestReplay(t *testing.T) { core.Replay(t, spec) }

// FuzzExpr drives the same generator and oracle from go's coverage-guided
// fuzzer (thorough tier).
func FuzzExpr(f *testing.F) {
	f.Fuzz(rapid.MakeFuzz(func(t *rapid.T) {
		c := gen(t)
		if v := core.Eval(spec, c, false); v != nil {
			t.Fatalf("C06 violated: %s", v.Error())
		}
	}))
}
