// C15 — Array streams round-trip and `foreach` visits each element once.
//
// Domain: for every data type registered with both an array writer and an
// array reader (computed at run time; writers that refuse, like toml's, drop
// out): lists of 0–50 single-line elements over the type's legal alphabet, a
// few of them long (up to 60 KiB).
// Oracle: (api) WriteArray each element, Close, then ReadArray and
// ReadArrayWithType from the same stream give the list back in order;
// (foreach) the written bytes on the stdin of `foreach x { c15e $x }` run the
// body once per element, in order, with $x the element verbatim.
package c15

import (
	"bytes"
	"context"
	"encoding/json"
	"encoding/xml"
	"fmt"
	"reflect"
	"sort"
	"strings"
	"testing"
	"unicode"

	"github.com/lmorg/murex/builtins/pipes/streams"
	"github.com/lmorg/murex/lang"
	"github.com/lmorg/murex/lang/stdio"
	"github.com/lmorg/murex/lang/types"
	"pgregory.net/rapid"
	"verif/harness/core"
	hgen "verif/harness/gen"
)

var arrayTypes []string

func TestMain(m *testing.M) {
	core.InitMurex()
	readers := map[string]bool{}
	for _, t := range stdio.DumpReadArray() {
		readers[t] = true
	}
	for _, t := range stdio.DumpWriteArray() {
		if !readers[t] {
			continue
		}
		s := streams.NewStdin()
		s.SetDataType(t)
		if _, err := s.WriteArray(t); err != nil {
			continue // e.g. toml: "doesn't support naked arrays"
		}
		arrayTypes = append(arrayTypes, t)
	}
	sort.Strings(arrayTypes)
	core.Note("array-types", strings.Join(arrayTypes, " "))
	// c15e args...: one line `@[args as JSON]`
	lang.DefineFunction("c15e", func(p *lang.Process) error {
		b, _ := json.Marshal(p.Parameters.StringArray())
		p.Stdout.SetDataType(types.String)
		p.Stdout.Writeln(append([]byte("@"), b...))
		return nil
	}, types.String)
	core.Main(m, "C15")
}

type Case struct {
	Type string   `json:"type"`
	Mode string   `json:"mode"` // api | foreach
	List []string `json:"list"`
}

// ---------------------------------------------------------------------------
// generator

// class of a type: which alphabet its elements are drawn from
func classOf(t string) string {
	switch t {
	case "str", "string":
		return "line-trimmed"
	case "*", "generic":
		return "line-notab"
	case "json":
		return "json"
	case "jsonl":
		return "json-text"
	case "jsonc":
		return "json-container"
	case "yaml":
		return "yaml"
	case "xml":
		return "xml"
	case "path":
		return "path"
	case "paths":
		return "paths"
	}
	return "word"
}

var wordGen = rapid.StringMatching(`[A-Za-z][A-Za-z0-9]{0,8}`)

func genElem(t *rapid.T, class string) string {
	plain := hgen.HostileString(hgen.StrOpts{MaxParts: 5})
	withCtl := hgen.HostileString(hgen.StrOpts{MaxParts: 5, Control: true})
	switch class {
	case "line-trimmed":
		return strings.TrimSpace(withCtl.Draw(t, "e"))
	case "line-notab":
		return strings.NewReplacer("\t", "", "\v", "", "\f", "").Replace(plain.Draw(t, "e"))
	case "json":
		return withCtl.Draw(t, "e")
	case "json-text":
		var v any
		switch rapid.IntRange(0, 6).Draw(t, "jkind") {
		case 0, 1, 2:
			v = withCtl.Draw(t, "s")
		case 3:
			v = rapid.IntRange(-1000, 1000).Draw(t, "n")
		case 4:
			v = rapid.SampledFrom([]any{true, false, 1.5, -0.25}).Draw(t, "lit")
		case 5:
			v = []any{plain.Draw(t, "s1"), rapid.IntRange(0, 9).Draw(t, "n1")}
		default:
			v = map[string]any{wordGen.Draw(t, "k"): plain.Draw(t, "s2")}
		}
		b, _ := json.Marshal(v)
		return string(b)
	case "json-objects", "json-arrays":
		// concatenated JSON: a stream of objects or a stream of arrays
		var v any
		if class == "json-arrays" {
			v = []any{plain.Draw(t, "s1"), rapid.IntRange(0, 9).Draw(t, "n1")}
		} else {
			v = map[string]any{wordGen.Draw(t, "k"): plain.Draw(t, "s2")}
		}
		b, _ := json.Marshal(v)
		return string(b)
	case "yaml":
		return plain.Draw(t, "e")
	case "xml":
		// character data is whitespace-trimmed by the xml reader (as it is for
		// str / jsonl): leading and trailing blanks are outside the alphabet
		return strings.TrimSpace(plain.Draw(t, "e"))
	case "path":
		s := strings.ReplaceAll(plain.Draw(t, "e"), "/", "")
		if s == "" || s == "." || s == ".." {
			s = "p" + s
		}
		return s
	case "paths":
		// elements of a paths list are paths: neither the list separator nor
		// the path separator is part of the alphabet
		s := strings.NewReplacer(":", "", "/", "").Replace(plain.Draw(t, "e"))
		if s == "" {
			s = "p"
		}
		return s
	}
	return wordGen.Draw(t, "e")
}

func gen(t *rapid.T) Case {
	c := Case{}
	c.Type = rapid.SampledFrom(arrayTypes).Draw(t, "type")
	c.Mode = rapid.SampledFrom([]string{"api", "foreach"}).Draw(t, "mode")
	class := classOf(c.Type)
	if class == "json-container" {
		class = rapid.SampledFrom([]string{"json-objects", "json-arrays"}).Draw(t, "container")
	}
	var n int
	switch rapid.IntRange(0, 9).Draw(t, "size") {
	case 0:
		n = 0
	case 1:
		n = rapid.IntRange(20, 50).Draw(t, "n")
	default:
		n = rapid.IntRange(1, 8).Draw(t, "n")
	}
	if n == 0 && (class == "path" || class == "paths") {
		// the empty list and the list holding one empty element have the same
		// text in these formats: not asserted
		n = 1
	}
	for i := 0; i < n; i++ {
		if i > 0 && rapid.IntRange(0, 5).Draw(t, "dup") == 0 {
			c.List = append(c.List, c.List[i-1])
			continue
		}
		e := genElem(t, class)
		if rapid.IntRange(0, 14).Draw(t, "long") == 0 && class != "json-text" && class != "json-objects" && class != "json-arrays" && class != "word" {
			target := rapid.SampledFrom([]int{4200, 20000, 60 * 1024}).Draw(t, "len")
			if len(e) < target {
				e = e + strings.Repeat("x", target-len(e))
			}
		} else if class == "json-text" && rapid.IntRange(0, 14).Draw(t, "longjson") == 0 {
			e = `"` + strings.Repeat("x", rapid.SampledFrom([]int{4200, 20000, 60*1024 - 2}).Draw(t, "len")) + `"`
		}
		c.List = append(c.List, e)
	}
	if c.List == nil {
		c.List = []string{}
	}
	return c
}

// ---------------------------------------------------------------------------
// oracle

// write serialises the list with the type's array writer.
func write(c Case) ([]byte, error) {
	s := streams.NewStdin()
	s.SetDataType(c.Type)
	aw, err := s.WriteArray(c.Type)
	if err != nil {
		return nil, fmt.Errorf("WriteArray: %v", err)
	}
	for i, e := range c.List {
		if i%2 == 0 {
			err = aw.Write([]byte(e))
		} else {
			err = aw.WriteString(e)
		}
		if err != nil {
			return nil, fmt.Errorf("writing element %d: %v", i, err)
		}
	}
	if err := aw.Close(); err != nil {
		return nil, fmt.Errorf("closing the array writer: %v", err)
	}
	s.Close()
	b, err := s.ReadAll()
	if err != nil {
		return nil, fmt.Errorf("reading the stream back: %v", err)
	}
	return b, nil
}

func stream(typ string, b []byte) *streams.Stdin {
	s := streams.NewStdin()
	s.SetDataType(typ)
	s.Write(b)
	s.Close()
	return s
}

func short(l []string) string {
	var b strings.Builder
	b.WriteString("[")
	for i := 0; i < len(l); {
		e := l[i]
		j := i
		for j < len(l) && l[j] == e {
			j++
		}
		if i > 0 {
			b.WriteString(", ")
		}
		if len(e) > 80 {
			fmt.Fprintf(&b, "%q…(%d bytes)", e[:40], len(e))
		} else {
			fmt.Fprintf(&b, "%q", e)
		}
		if j-i > 1 {
			fmt.Fprintf(&b, " x%d", j-i)
		}
		i = j
	}
	b.WriteString("]")
	return b.String()
}

func shortBytes(b []byte) string {
	if len(b) > 400 {
		return fmt.Sprintf("%q…(%d bytes)", b[:200], len(b))
	}
	return fmt.Sprintf("%q", b)
}

// lastGot is what the most recent failing check observed (known() runs right
// after check() on the same goroutine).
var lastGot struct {
	ok   bool
	list []string
}

func check(c Case) *core.Violation {
	lastGot.ok, lastGot.list = false, nil
	text, err := write(c)
	if err != nil {
		if len(c.List) == 0 {
			// a writer that refuses the empty list says so (json: "no data
			// returned"); nothing is silently lost
			core.Count("refused:empty-list:"+c.Type, 1)
			return nil
		}
		return core.Violf("write-error", "%s list %s: %v", c.Type, short(c.List), err)
	}
	want := c.List
	if c.Mode == "api" {
		var got []string
		err := stream(c.Type, text).ReadArray(context.Background(), func(b []byte) {
			got = append(got, string(b))
		})
		if err != nil && len(want) == 0 {
			// the empty list is refused with a message (xml): not silent
			core.Count("refused:empty-list:"+c.Type, 1)
			return nil
		}
		if err != nil {
			return core.Violf("read-error", "%s list %s written as %s: ReadArray: %v", c.Type, short(want), shortBytes(text), err)
		}
		if !equal(got, want) {
			lastGot.ok, lastGot.list = true, got
			return core.Violf("read-mismatch", "%s list %s\nwritten as %s\nReadArray gives %s", c.Type, short(want), shortBytes(text), short(got))
		}
		var typed []any
		err = stream(c.Type, text).ReadArrayWithType(context.Background(), func(v any, dt string) {
			if b, isBytes := v.([]byte); isBytes {
				// line readers hand out a slice of their scan buffer: it is
				// only good until the callback returns
				v = append([]byte{}, b...)
			}
			typed = append(typed, v)
		})
		if err != nil {
			return core.Violf("readtyped-error", "%s list %s written as %s: ReadArrayWithType: %v", c.Type, short(want), shortBytes(text), err)
		}
		if len(typed) != len(want) {
			return core.Violf("readtyped-count", "%s list %s\nwritten as %s\nReadArrayWithType gives %d elements: %v", c.Type, short(want), shortBytes(text), len(typed), typed)
		}
		for i, v := range typed {
			switch v := v.(type) {
			case string:
				if v != want[i] {
					return core.Violf("readtyped-mismatch", "%s list %s\nwritten as %s\nReadArrayWithType element %d is %q", c.Type, short(want), shortBytes(text), i, v)
				}
			case []byte:
				if string(v) != want[i] {
					return core.Violf("readtyped-mismatch", "%s list %s\nwritten as %s\nReadArrayWithType element %d is %q", c.Type, short(want), shortBytes(text), i, v)
				}
			default:
				core.Count("typed-element-not-compared:"+c.Type, 1)
			}
		}
		return nil
	}
	// foreach
	if text == nil {
		text = []byte{}
	}
	r := core.RunStdin("<stdin> -> foreach x { c15e $x }", text, c.Type)
	if r.Hung {
		return core.Violf("hang", "%s list %s written as %s: foreach did not finish", c.Type, short(want), shortBytes(text))
	}
	var got []string
	for _, l := range strings.Split(string(r.Stdout), "\n") {
		if !strings.HasPrefix(l, "@") {
			continue
		}
		var args []string
		if err := json.Unmarshal([]byte(l[1:]), &args); err != nil {
			return core.Violf("harness", "bad line %q", l)
		}
		if len(args) != 1 {
			return core.Violf("foreach-args", "%s list %s\nwritten as %s\nan iteration saw $x as %d arguments %q", c.Type, short(want), shortBytes(text), len(args), args)
		}
		got = append(got, args[0])
	}
	if len(want) == 0 && len(got) == 0 && r.Exit != 0 && len(r.Stderr) > 0 {
		core.Count("refused:empty-list:"+c.Type, 1)
		return nil
	}
	if r.Exit != 0 || r.Err != nil || !equal(got, want) {
		lastGot.ok, lastGot.list = r.Exit == 0 && r.Err == nil, got
		return core.Violf("foreach-mismatch", "%s list %s\nwritten as %s\nforeach bodies saw %s (exit %d, err %v, stderr %q)", c.Type, short(want), shortBytes(text), short(got), r.Exit, r.Err, lastLines(r.Stderr))
	}
	return nil
}

func lastLines(b []byte) string {
	s := strings.TrimSpace(string(b))
	if len(s) > 600 {
		s = s[:600] + "…"
	}
	return s
}

func equal(a, b []string) bool {
	if len(a) != len(b) {
		return false
	}
	for i := range a {
		if a[i] != b[i] {
			return false
		}
	}
	return true
}

// ---------------------------------------------------------------------------
// classification

func significant(s string) bool {
	for _, r := range s {
		if r >= 0x80 || r < 0x20 || unicode.IsSpace(r) || unicode.IsPunct(r) || unicode.IsSymbol(r) {
			return true
		}
	}
	return false
}

func classify(c Case) core.Class {
	long, sig, empty := false, false, false
	for _, e := range c.List {
		if len(e) > 4096 {
			long = true
		}
		if significant(e) {
			sig = true
		}
		if e == "" {
			empty = true
		}
	}
	nt := len(c.List) == 0 || (len(c.List) >= 2 && (long || sig || empty))
	label := "trivial"
	switch {
	case len(c.List) == 0:
		label = "empty-list"
	case !nt:
	case long:
		label = "long-element"
	case empty:
		label = "empty-element"
	default:
		label = "significant-character"
	}
	return core.Class{NonTrivial: nt, Label: c.Mode + "/" + c.Type + "/" + label}
}

// yamlPlain: `- <e>` read by murex's own yaml unmarshaller is the one-element
// list holding the string e.
func yamlPlain(e string) bool {
	v, err := lang.UnmarshalDataBuffered(lang.ShellProcess, []byte("- "+e+"\n"), "yaml")
	if err != nil {
		return false
	}
	a, ok := v.([]any)
	if !ok || len(a) != 1 {
		return false
	}
	s, ok := a[0].(string)
	return ok && s == e
}

// xmlCast reports whether the xml reader turns the character data e into
// something other than a string (mxj's cast of numbers and booleans).
func xmlCast(e string) bool {
	if e == "" {
		return false
	}
	var esc bytes.Buffer
	xml.EscapeText(&esc, []byte(e))
	v, err := lang.UnmarshalDataBuffered(lang.ShellProcess, []byte("<xml><list>"+esc.String()+"</list></xml>"), "xml")
	if err != nil {
		return false
	}
	m, ok := v.(map[string]any)
	if !ok {
		return false
	}
	_, isStr := m["list"].(string)
	return !isStr
}

func known(c Case, v *core.Violation) string {
	if c.Mode == "foreach" && v.Kind == "foreach-mismatch" && lastGot.ok {
		// foreach does not run its body for an empty element: the bodies saw
		// exactly the non-empty elements, in order
		var nonEmpty []string
		for _, e := range c.List {
			if e != "" {
				nonEmpty = append(nonEmpty, e)
			}
		}
		if len(nonEmpty) != len(c.List) && equal(lastGot.list, nonEmpty) {
			return "C15-foreach-skips-empty-elements"
		}
	}
	if c.Type == "yaml" && v.Kind != "hang" {
		// the yaml array writer puts `- ` in front of the raw element: an
		// element that is not a YAML plain scalar reading as itself (empty,
		// `a: b`, `#x`, `1`, `true`, `[`, ...) does not come back
		for _, e := range c.List {
			if !yamlPlain(e) {
				return "C15-yaml-array-writer-does-not-quote"
			}
		}
	}
	if c.Type == "xml" && len(c.List) > 0 {
		// the xml array writer emits `<xml<xml>a</xml><xml>b</xml>`: not XML,
		// nothing reads it back
		if text, err := write(c); err == nil && bytes.HasPrefix(text, []byte("<xml<xml")) {
			return "C15-xml-array-writer-malformed"
		}
	}
	if c.Type == "xml" && v.Kind != "hang" && v.Kind != "write-error" {
		// the xml reader lets mxj cast character data: an element that looks
		// like a number or a boolean comes back as float64 / bool, which the
		// array reader cannot hand out ("no support for float64 types in XML")
		for _, e := range c.List {
			if xmlCast(e) {
				return "C15-xml-reader-casts-elements"
			}
		}
	}
	if c.Type == "jsonc" && lastGot.ok && len(lastGot.list) == len(c.List) && len(c.List) > 1 {
		// the jsonc reader hands out the second and later elements with the
		// line break that separated them from their predecessor still in front
		match := lastGot.list[0] == c.List[0]
		for i := 1; i < len(c.List) && match; i++ {
			match = lastGot.list[i] == "\n"+c.List[i]
		}
		if match {
			return "C15-jsonc-separator-kept-in-element"
		}
	}
	if c.Type == "jsonc" && v.Kind != "hang" && v.Kind != "write-error" {
		// the jsonc reader counts braces / brackets inside strings: an
		// element whose strings hold the container's own bracket characters
		// makes it lose track ("missing }") or cut elements in the wrong place
		for _, e := range c.List {
			if len(e) == 0 {
				continue
			}
			open, close := "{", "}"
			if e[0] == '[' {
				open, close = "[", "]"
			}
			if strings.Count(e, open) != 1 || strings.Count(e, close) != 1 {
				return "C15-jsonc-brackets-in-strings-counted"
			}
		}
	}
	return ""
}

var _ = reflect.DeepEqual
var _ = bytes.Equal

var spec = core.Spec[Case]{
	ID: "C15", Gen: gen, Check: check, Classify: classify, Known: known,
	Sample: func(c Case) any {
		return map[string]any{"type": c.Type, "mode": c.Mode, "list": short(c.List)}
	},
}

func TestProp(t *testing.T)   { core.RunProp(t, spec) }
func TestReplay(t *testing.T) { core.Replay(t, spec) }
