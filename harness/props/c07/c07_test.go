// C07 — Logical operators inside expressions follow truthiness.
//
// Two kinds of case:
//
//	expr   a fully parenthesised tree of && || ?: ?? over operands (booleans,
//	       numbers, strings of the truthiness table with random case/padding,
//	       null, comparison sub-expressions, an undefined variable as the left
//	       operand of ??), evaluated through expressions.ExecuteExpr or by
//	       assigning a parenthesised expression to a variable, and compared
//	       with a reference evaluator written from the statement.
//	truth  one operand value (optionally with an exit number) pushed through
//	       every context the statement names — (v && true), (v || false),
//	       v ?: ELSE, if, !if, ! — all verdicts must equal the reference
//	       truthy(v) ("truthiness is the same everywhere").
//
// Precedence between different logical operators is not part of the statement:
// nested operations are parenthesised except flat chains of one operator and an
// `&&` operand of `||` (C precedence); (flat chains only of one and the
// same operator, where grouping cannot change the result).
package c07

import (
	"fmt"
	"math"
	"strconv"
	"strings"
	"testing"

	"github.com/lmorg/murex/lang"
	"github.com/lmorg/murex/lang/expressions"
	"github.com/lmorg/murex/lang/types"
	"pgregory.net/rapid"
	"verif/harness/core"
)

func TestMain(m *testing.M) {
	core.InitMurex()
	// c07x <text> <exit>: writes <text> (no newline) and finishes with <exit>.
	lang.DefineFunction("c07x", func(p *lang.Process) error {
		s, _ := p.Parameters.String(0)
		n, _ := p.Parameters.Int(1)
		p.Stdout.SetDataType(types.String)
		p.Stdout.Write([]byte(s))
		p.ExitNum = n
		return nil
	}, types.String)
	core.Main(m, "C07")
}

// Node is an operand or an operation.
type Node struct {
	Kind string `json:"k"`             // bool num str null undef cmp op
	Lit  string `json:"lit,omitempty"` // bool/num: literal text; str: contents; cmp: source text without parentheses
	Val  bool   `json:"val,omitempty"` // cmp: the value of the comparison
	Q    string `json:"q,omitempty"`   // str: quote character
	Op   string `json:"op,omitempty"`  // && || ?: ??
	L    *Node  `json:"l,omitempty"`
	R    *Node  `json:"r,omitempty"`
	Flat bool   `json:"flat,omitempty"` // print without parentheses inside a parent of the same operator
	A    string `json:"a,omitempty"`    // white space before the operator
	B    string `json:"b,omitempty"`    // white space after the operator
}

type Case struct {
	Mode string `json:"mode"` // api | assign | truth
	Wrap bool   `json:"wrap,omitempty"`
	Tree *Node  `json:"tree,omitempty"`
	// truth mode
	V    *Node `json:"v,omitempty"`
	Exit int   `json:"exit,omitempty"` // exit number attached to the value in the command contexts
}

// ---------------------------------------------------------------------------
// reference

type value struct {
	kind string // bool num str null undef
	b    bool
	f    float64
	s    string
}

var falseWords = map[string]bool{"": true, "0": true, "null": true, "false": true, "no": true, "off": true, "fail": true, "failed": true, "disabled": true}

// truthyString is the table of the statement: trimmed, case-insensitive.
func truthyString(s string) bool {
	return !falseWords[strings.ToLower(strings.TrimSpace(s))]
}

// truthy is the reference truthiness of a value. known=false for the one value
// the statement does not decide (the number −0).
func truthy(v value) (t bool, known bool) {
	switch v.kind {
	case "bool":
		return v.b, true
	case "num":
		if v.f == 0 && math.Signbit(v.f) {
			return false, false
		}
		return v.f != 0, true // `0` is false; every other number prints as something else
	case "str":
		return truthyString(v.s), true
	default: // null, undef
		return false, true
	}
}

func mustTruthy(v value) bool {
	t, known := truthy(v)
	if !known {
		panic("−0 must not occur in expr trees")
	}
	return t
}

func operandValue(n *Node) value {
	switch n.Kind {
	case "bool":
		return value{kind: "bool", b: n.Lit == "true"}
	case "num":
		f, err := strconv.ParseFloat(n.Lit, 64)
		if err != nil {
			panic("bad literal " + n.Lit)
		}
		return value{kind: "num", f: f}
	case "str":
		return value{kind: "str", s: n.Lit}
	case "null":
		return value{kind: "null"}
	case "undef":
		return value{kind: "undef"}
	case "cmp":
		return value{kind: "bool", b: n.Val}
	}
	panic("not an operand: " + n.Kind)
}

func eval(n *Node) value {
	if n.Kind != "op" {
		return operandValue(n)
	}
	l := eval(n.L)
	switch n.Op {
	case "&&":
		if !mustTruthy(l) {
			return value{kind: "bool", b: false}
		}
		return value{kind: "bool", b: mustTruthy(eval(n.R))}
	case "||":
		if mustTruthy(l) {
			return value{kind: "bool", b: true}
		}
		return value{kind: "bool", b: mustTruthy(eval(n.R))}
	case "?:":
		if mustTruthy(l) {
			return l
		}
		return eval(n.R)
	case "??":
		if l.kind == "null" || l.kind == "undef" {
			return eval(n.R)
		}
		return l
	}
	panic("bad op " + n.Op)
}

// evalAlwaysTrue is the model of the known defect C07-logical-ops-always-true
// (every && and || yields true); it is used only to label a failure so that
// the known-finding predicate matches this root cause and nothing else.
func evalAlwaysTrue(n *Node) value {
	if n.Kind != "op" {
		return operandValue(n)
	}
	switch n.Op {
	case "&&", "||":
		return value{kind: "bool", b: true}
	case "?:":
		l := evalAlwaysTrue(n.L)
		if mustTruthy(l) {
			return l
		}
		return evalAlwaysTrue(n.R)
	default:
		l := evalAlwaysTrue(n.L)
		if l.kind == "null" || l.kind == "undef" {
			return evalAlwaysTrue(n.R)
		}
		return l
	}
}

// ---------------------------------------------------------------------------
// generator

var words = []string{"no", "off", "fail", "failed", "disabled", "false", "null", "0", "", "yes", "on", "true", "1", "x",
	"fails", "nope", "00", "0.0", "enabled", "n", "f", "disable", "nul", "of", "-0", "0 0", "n o", "failed.", "not"}

// padding of any length is trimmed before the table is consulted: a few long
// runs (beyond any plausible "short value" shortcut) are part of the alphabet
var pads = []string{"", "", "", " ", "  ", "\t", " \t ", strings.Repeat(" ", 17), strings.Repeat(" \t", 20), strings.Repeat(" ", 300)}

func genStrOperand(t *rapid.T) *Node {
	w := rapid.SampledFrom(words).Draw(t, "word")
	switch rapid.IntRange(0, 3).Draw(t, "case") {
	case 1:
		w = strings.ToUpper(w)
	case 2:
		if len(w) > 0 {
			w = strings.ToUpper(w[:1]) + w[1:]
		}
	case 3:
		b := []byte(w)
		for i := range b {
			if rapid.Bool().Draw(t, "up") {
				b[i] = strings.ToUpper(string(b[i]))[0]
			}
		}
		w = string(b)
	}
	w = rapid.SampledFrom(pads).Draw(t, "padL") + w + rapid.SampledFrom(pads).Draw(t, "padR")
	return &Node{Kind: "str", Lit: w, Q: rapid.SampledFrom([]string{"'", "\""}).Draw(t, "quote")}
}

var numLits = []string{"0", "1", "0.0", "-1", "00", "2.5", "0.5", "-0.5", "100", "0.000001", "0.00", "7", "-0.000001"}

type cmpT struct {
	src string
	val bool
}

var cmps = []cmpT{{"1 < 2", true}, {"2 < 1", false}, {"1 == 1.0", true}, {"1 != 1", false}, {"3 >= 3", true}, {"3 > 3", false},
	{`"a" == "b"`, false}, {`'a' < 'b'`, true}, {`"no" == "no"`, true}, {"0 == 1", false}, {"0 == 0", true}, {"2*2 == 4", true}, {"1+1 > 2", false}}

func genOperand(t *rapid.T) *Node {
	switch rapid.IntRange(0, 9).Draw(t, "operand") {
	case 0, 1:
		return &Node{Kind: "bool", Lit: rapid.SampledFrom([]string{"false", "true"}).Draw(t, "bool")}
	case 2, 3:
		return &Node{Kind: "num", Lit: rapid.SampledFrom(numLits).Draw(t, "num")}
	case 4, 5, 6:
		return genStrOperand(t)
	case 7:
		return &Node{Kind: "null"}
	default:
		c := rapid.SampledFrom(cmps).Draw(t, "cmp")
		return &Node{Kind: "cmp", Lit: c.src, Val: c.val}
	}
}

var ops = []string{"&&", "||", "&&", "||", "?:", "??"}

func genTree(t *rapid.T, depth int, top bool) *Node {
	if !top && (depth <= 0 || rapid.IntRange(0, 9).Draw(t, "leaf") < 4) {
		return genOperand(t)
	}
	n := &Node{Kind: "op", Op: rapid.SampledFrom(ops).Draw(t, "op")}
	n.A = rapid.SampledFrom([]string{" ", "", "  ", "\t"}).Draw(t, "spA")
	n.B = rapid.SampledFrom([]string{" ", "", "  ", "\t"}).Draw(t, "spB")
	n.Flat = rapid.Bool().Draw(t, "flat")
	if n.Op == "??" && rapid.IntRange(0, 3).Draw(t, "undef") == 0 {
		// "a unless a is null or undefined": an undefined variable, only as
		// the left operand of ?? (the statement says nothing about it elsewhere)
		n.L = &Node{Kind: "undef"}
	} else {
		n.L = genTree(t, depth-1, false)
	}
	n.R = genTree(t, depth-1, false)
	return n
}

func genTruthOperand(t *rapid.T) *Node {
	switch rapid.IntRange(0, 9).Draw(t, "toperand") {
	case 0:
		return &Node{Kind: "bool", Lit: rapid.SampledFrom([]string{"false", "true"}).Draw(t, "bool")}
	case 1, 2:
		return &Node{Kind: "num", Lit: rapid.SampledFrom(numLits).Draw(t, "num")}
	case 3:
		return &Node{Kind: "null"}
	case 4:
		return &Node{Kind: "num", Lit: rapid.SampledFrom([]string{"-0", "-0.0"}).Draw(t, "negzero")}
	default:
		return genStrOperand(t)
	}
}

func gen(t *rapid.T) Case {
	if rapid.IntRange(0, 3).Draw(t, "truthmode") == 0 {
		c := Case{Mode: "truth", V: genTruthOperand(t)}
		if c.V.Kind == "str" && rapid.IntRange(0, 2).Draw(t, "withexit") == 0 {
			c.Exit = rapid.SampledFrom([]int{1, 3, 255, 2}).Draw(t, "exit")
		}
		return c
	}
	depth := rapid.IntRange(1, 4).Draw(t, "depth")
	c := Case{Tree: genTree(t, depth, true)}
	c.Mode = rapid.SampledFrom([]string{"api", "assign"}).Draw(t, "mode")
	c.Wrap = rapid.Bool().Draw(t, "wrap")
	if eval(c.Tree).kind == "null" {
		// assigning null to a variable is outside the statement
		c.Mode = "api"
	}
	return c
}

// ---------------------------------------------------------------------------
// printer

func (n *Node) src() string {
	switch n.Kind {
	case "bool", "num":
		return n.Lit
	case "str":
		return n.Q + n.Lit + n.Q
	case "null":
		return "null"
	case "undef":
		return "$c07undef " // the space ends the variable name whatever follows
	case "cmp":
		return "(" + n.Lit + ")"
	}
	child := func(c *Node) string {
		s := c.src()
		// a flat chain regroups to the left; that is value-preserving except
		// that it could make an undefined variable a *right* operand of ??,
		// about which the statement says nothing: such nodes keep their parentheses
		bare := c.Flat && c.Op == n.Op && c.L.Kind != "undef"
		// `&&` binds tighter than `||` (C-like order of operations, see
		// lang/expressions/expression.go): an `&&` operand of `||` may be
		// written without parentheses on either side
		if c.Flat && n.Op == "||" && c.Op == "&&" {
			bare = true
		}
		if c.Kind == "op" && !bare {
			s = "(" + s + ")"
		}
		return s
	}
	return child(n.L) + n.A + n.Op + n.B + child(n.R)
}

func (c Case) Source() string {
	if c.Mode == "truth" {
		return fmt.Sprintf("truth of %s exit %d", c.V.src(), c.Exit)
	}
	return c.Tree.src()
}

// ---------------------------------------------------------------------------
// check

var (
	apiProc  *lang.Process
	apiCalls int
)

func testProcess() *lang.Process {
	if apiProc == nil || apiCalls >= 2000 {
		apiProc = lang.NewTestProcess()
		apiCalls = 0
	}
	apiCalls++
	return apiProc
}

func describe(v value) string {
	switch v.kind {
	case "bool":
		return fmt.Sprintf("boolean %v", v.b)
	case "num":
		return "number " + strconv.FormatFloat(v.f, 'g', -1, 64)
	case "str":
		return fmt.Sprintf("string %q", v.s)
	}
	return v.kind
}

func sameValue(got any, want value) bool {
	switch want.kind {
	case "bool":
		b, ok := got.(bool)
		return ok && b == want.b
	case "num":
		f, ok := got.(float64)
		return ok && math.Float64bits(f) == math.Float64bits(want.f)
	case "str":
		s, ok := got.(string)
		return ok && s == want.s
	case "null":
		return got == nil
	}
	return false
}

func apiEval(src string) (any, error) {
	dt, err := expressions.ExecuteExpr(testProcess(), []rune(src))
	if err != nil {
		return nil, err
	}
	v, err := dt.GetValue()
	if err != nil {
		return nil, err
	}
	return v.Value, nil
}

// valueKind labels a wrong value: "value-logic-true" when it is exactly what
// "every && / || yields true" would produce, "value" otherwise.
func valueKind(tree *Node, got any) string {
	if sameValue(got, evalAlwaysTrue(tree)) {
		return "value-logic-true"
	}
	return "value"
}

func checkExpr(c Case) *core.Violation {
	src := c.Tree.src()
	want := eval(c.Tree)
	switch c.Mode {
	case "api":
		// A parenthesised expression that is the whole expression and yields a
		// string is rejected by murex by design ("not an expression": a lone
		// string is a command name), so only non-string results are wrapped.
		if c.Wrap && want.kind != "str" {
			src = "(" + src + ")"
		}
		got, err := apiEval(src)
		if err != nil {
			return core.Violf("error", "ExecuteExpr(`%s`) failed: %v (want %s)", src, err, describe(want))
		}
		if !sameValue(got, want) {
			return core.Violf(valueKind(c.Tree, got), "ExecuteExpr(`%s`): want %s, got %#v (%T)", src, describe(want), got, got)
		}
		return nil
	case "assign":
		var fk *lang.Fork
		prog := "c07v = (" + src + ")\n"
		// the branch `if` takes on the assigned value
		prog += "if { $c07v } then { out T } else { out F }\n"
		r := core.RunWith(prog, core.RunOpts{Prepare: func(f *lang.Fork) { fk = f }})
		if r.Hung {
			return core.Violf("hang", "program did not finish:\n%s", prog)
		}
		if r.Err != nil || len(r.Stderr) != 0 {
			return core.Violf("error", "program failed: err=%v exit=%d stderr=%q stdout=%q\n%s", r.Err, r.Exit, r.Stderr, r.Stdout, prog)
		}
		got, err := fk.Variables.GetValue("c07v")
		if err != nil {
			return core.Violf("error", "variable assigned from `(%s)` cannot be read: %v", src, err)
		}
		if !sameValue(got, want) {
			return core.Violf(valueKind(c.Tree, got), "c07v = (%s): want %s, got %#v (%T)", src, describe(want), got, got)
		}
		wantBranch := "F\n"
		if mustTruthy(want) {
			wantBranch = "T\n"
		}
		if string(r.Stdout) != wantBranch {
			return core.Violf("if-branch", "c07v = (%s) holds %s; `if { $c07v }` printed %q, want %q", src, describe(want), r.Stdout, wantBranch)
		}
		return nil
	}
	panic("bad mode " + c.Mode)
}

// producer is the statement that emits the operand value in command contexts.
func producer(v *Node, exit int) string {
	switch v.Kind {
	case "str":
		// single quotes: the alphabet has no quote, no backslash, no `$`
		return fmt.Sprintf("c07x '%s' %d", v.Lit, exit)
	case "null":
		return "null"
	default:
		return v.Lit // an expression statement: prints the value
	}
}

const elseMark = "C07-ELSE"

func checkTruth(c Case) *core.Violation {
	v := operandValue(c.V)
	ref, known := truthy(v)
	if c.Exit > 0 {
		ref, known = false, true // "and so is any non-zero exit"
	}
	type verdict struct {
		ctx string
		t   bool
	}
	var vs []verdict
	add := func(ctx string, t bool) { vs = append(vs, verdict{ctx, t}) }

	if c.Exit == 0 {
		lit := c.V.src()
		// expression contexts
		for _, e := range []struct {
			src string
			f   func(any) (bool, bool)
		}{
			{"(" + lit + " && true)", func(g any) (bool, bool) { b, ok := g.(bool); return b, ok }},
			{"(" + lit + " || false)", func(g any) (bool, bool) { b, ok := g.(bool); return b, ok }},
			{"(true && " + lit + ")", func(g any) (bool, bool) { b, ok := g.(bool); return b, ok }},
			{lit + " ?: '" + elseMark + "'", func(g any) (bool, bool) {
				if s, ok := g.(string); ok && s == elseMark {
					return false, true
				}
				return true, sameValue(g, v)
			}},
		} {
			got, err := apiEval(e.src)
			if err != nil {
				return core.Violf("error", "ExecuteExpr(`%s`) failed: %v", e.src, err)
			}
			t, ok := e.f(got)
			if !ok {
				return core.Violf("value", "ExecuteExpr(`%s`): unexpected result %#v (%T)", e.src, got, got)
			}
			add("`"+e.src+"`", t)
		}
	}
	// command contexts
	p := producer(c.V, c.Exit)
	for _, e := range []struct {
		src  string
		tOut string
		fOut string
	}{
		{"if { " + p + " } then { out T } else { out F }", "T\n", "F\n"},
		{"!if { " + p + " } then { out T } else { out F }", "F\n", "T\n"},
		{p + " -> !", "false\n", "true\n"},
		{p + " -> if { out T } { out F }", "T\n", "F\n"},
	} {
		r := core.Run(e.src + "\n")
		if r.Hung {
			return core.Violf("hang", "program did not finish: %s", e.src)
		}
		switch string(r.Stdout) {
		case e.tOut:
			add("`"+e.src+"`", true)
		case e.fOut:
			add("`"+e.src+"`", false)
		default:
			return core.Violf("error", "`%s`: unexpected output stdout=%q stderr=%q err=%v", e.src, r.Stdout, r.Stderr, r.Err)
		}
	}

	if known {
		var bad []string
		logicOnly := true
		for _, x := range vs {
			if x.t != ref {
				bad = append(bad, x.ctx)
				if !strings.Contains(x.ctx, "&&") && !strings.Contains(x.ctx, "||") {
					logicOnly = false
				}
			}
		}
		if len(bad) == 0 {
			return nil
		}
		kind := "truthiness"
		if logicOnly && len(bad) == 3 && !ref {
			kind = "truthiness-logic-true" // exactly the three && / || contexts say true
		}
		return core.Violf(kind, "value %s (exit %d) is %v by the statement, but treated as %v by: %s", describe(v), c.Exit, ref, !ref, strings.Join(bad, " ; "))
	}
	var yes, no []string
	for _, x := range vs {
		if x.t {
			yes = append(yes, x.ctx)
		} else {
			no = append(no, x.ctx)
		}
	}
	if len(yes) > 0 && len(no) > 0 {
		return core.Violf("inconsistent", "value %s is treated as true by: %s ; but as false by: %s", describe(v), strings.Join(yes, " ; "), strings.Join(no, " ; "))
	}
	return nil
}

func check(c Case) *core.Violation {
	if c.Mode == "truth" {
		return checkTruth(c)
	}
	return checkExpr(c)
}

// ---------------------------------------------------------------------------
// classification

type shape struct {
	logic, logicFalsy, elvis, coalesce, undef, depth int
}

func walk(n *Node, d int, sh *shape) {
	if n.Kind != "op" {
		if n.Kind == "undef" {
			sh.undef++
		}
		return
	}
	if d+1 > sh.depth {
		sh.depth = d + 1
	}
	switch n.Op {
	case "&&", "||":
		sh.logic++
		if !mustTruthy(eval(n.L)) || !mustTruthy(eval(n.R)) {
			sh.logicFalsy++
		}
	case "?:":
		sh.elvis++
	case "??":
		sh.coalesce++
	}
	walk(n.L, d+1, sh)
	walk(n.R, d+1, sh)
}

func classify(c Case) core.Class {
	if c.Mode == "truth" {
		v := operandValue(c.V)
		ref, known := truthy(v)
		cl := core.Class{Key: fmt.Sprintf("truth|%s|%s|%d", c.V.Kind, c.V.Lit, c.Exit)}
		cl.NonTrivial = !known || !ref || c.Exit > 0
		switch {
		case !known:
			cl.Label = "truth:negative-zero"
		case c.Exit > 0:
			cl.Label = "truth:non-zero-exit"
		case ref:
			cl.Label = "truth:truthy-" + c.V.Kind
		default:
			cl.Label = "truth:falsy-" + c.V.Kind
		}
		return cl
	}
	var sh shape
	walk(c.Tree, 0, &sh)
	cl := core.Class{Key: "expr|" + c.Tree.src()}
	cl.NonTrivial = sh.logicFalsy > 0
	switch {
	case sh.logicFalsy > 0 && (sh.elvis > 0 || sh.coalesce > 0):
		cl.Label = "expr:logic-with-falsy-operand+?:/??"
	case sh.logicFalsy > 0:
		cl.Label = "expr:logic-with-falsy-operand"
	case sh.logic > 0:
		cl.Label = "expr:logic-all-truthy"
	default:
		cl.Label = "expr:only-?:/??"
	}
	core.Count("mode-"+c.Mode, 1)
	core.Count("result-"+eval(c.Tree).kind, 1)
	if sh.undef > 0 {
		core.Count("has-undefined-variable", 1)
	}
	if sh.elvis > 0 {
		core.Count("has-?:", 1)
	}
	if sh.coalesce > 0 {
		core.Count("has-??", 1)
	}
	core.Count(fmt.Sprintf("depth-%d", sh.depth), 1)
	return cl
}

// hasFalseLogicNode reports whether some && / || node of the tree is false by
// the reference.
func hasFalseLogicNode(n *Node) bool {
	if n == nil || n.Kind != "op" {
		return false
	}
	if (n.Op == "&&" || n.Op == "||") && !mustTruthy(eval(n)) {
		return true
	}
	return hasFalseLogicNode(n.L) || hasFalseLogicNode(n.R)
}

const (
	// exp11.go / exp12.go stringify the *primitives.Value struct instead of
	// its .Value, so every && and || whose operands are readable yields true.
	kfAlwaysTrue = "C07-logical-ops-always-true"
	// the number −0 is truthy for &&, ||, if, !if and ! (its text "-0" is not
	// in the table) but falsy for ?: (numeric `== 0` test).
	kfNegZero = "C07-negative-zero-elvis"
)

func known(c Case, v *core.Violation) string {
	switch c.Mode {
	case "truth":
		val := operandValue(c.V)
		ref, decided := truthy(val)
		if v.Kind == "truthiness-logic-true" && decided && !ref && c.Exit == 0 {
			// a falsy value treated as true, and only by the && / || contexts
			return kfAlwaysTrue
		}
		if v.Kind == "inconsistent" && !decided &&
			strings.HasSuffix(v.Msg, "but as false by: `"+c.V.src()+" ?: '"+elseMark+"'`") {
			return kfNegZero
		}
	case "api", "assign":
		if v.Kind == "value-logic-true" && hasFalseLogicNode(c.Tree) {
			// the defect shows exactly when some && / || should have been false
			return kfAlwaysTrue
		}
	}
	return ""
}

var spec = core.Spec[Case]{
	ID: "C07", Gen: gen, Check: check, Classify: classify, Known: known,
	Sample: func(c Case) any { return c.Mode + ": " + c.Source() },
}

func TestProp(t *testing.T)   { core.RunProp(t, spec) }
func TestReplay(t *testing.T) { core.Replay(t, spec) }
