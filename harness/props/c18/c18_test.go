// C18 — mkarray ranges produce the exact sequence.
//
// Domain: `a` / `ja` with one parameter made of literal text and 1–3 expansion
// blocks; a block holds 1–3 comma separated entries, each a literal word or an
// integer range `m..n` with m, n in [-200, 200], optionally zero padded; up to
// two top-level comma separated groups.
// Oracle: reference generator written from the statement and docs/commands/a.md.
package c18

import (
	"bytes"
	"encoding/json"
	"fmt"
	"regexp"
	"strconv"
	"strings"
	"testing"

	"pgregory.net/rapid"
	"verif/harness/core"
)

func TestMain(m *testing.M) { core.InitMurex(); core.Main(m, "C18") }

// Item is one entry of an expansion block: a literal word or a range.
type Item struct {
	Lit  string `json:"lit,omitempty"`
	From string `json:"from,omitempty"` // range bounds as written (sign, leading zeros)
	To   string `json:"to,omitempty"`
}

func (i Item) isRange() bool { return i.From != "" || i.To != "" }

// Part is literal text outside brackets or one expansion block.
type Part struct {
	Lit   string `json:"lit,omitempty"`
	Block []Item `json:"block,omitempty"`
}

type Case struct {
	Cmd    string   `json:"cmd"`    // a | ja
	Groups [][]Part `json:"groups"` // top-level comma separated groups
}

func (c Case) Param() string {
	var gs []string
	for _, g := range c.Groups {
		var b strings.Builder
		for _, p := range g {
			if p.Block == nil {
				b.WriteString(p.Lit)
				continue
			}
			var is []string
			for _, it := range p.Block {
				if it.isRange() {
					is = append(is, it.From+".."+it.To)
				} else {
					is = append(is, it.Lit)
				}
			}
			b.WriteString("[" + strings.Join(is, ",") + "]")
		}
		gs = append(gs, b.String())
	}
	return strings.Join(gs, ",")
}

func (c Case) Source() string { return c.Cmd + " " + c.Param() }

// ---------------------------------------------------------------------------
// reference generator

// padKind classifies how a range is written.
//
//	plain      no bound has a leading zero            -> plain decimal
//	padded     both bounds are non-negative, have the same number of digits and
//	           at least one starts with 0             -> every element padded to that width
//	ambiguous  anything else with a leading zero (one-sided, different widths,
//	           negative) -> only the numeric sequence is stated
func padKind(from, to string) string {
	lead := func(s string) bool {
		s = strings.TrimPrefix(s, "-")
		return len(s) > 1 && s[0] == '0'
	}
	if !lead(from) && !lead(to) {
		return "plain"
	}
	if from[0] != '-' && to[0] != '-' && len(from) == len(to) {
		return "padded"
	}
	return "ambiguous"
}

func expandRange(from, to string) (vals []int, texts []string, kind string, err error) {
	m, e1 := strconv.Atoi(from)
	n, e2 := strconv.Atoi(to)
	if e1 != nil || e2 != nil {
		return nil, nil, "", fmt.Errorf("bad bounds %q %q", from, to)
	}
	kind = padKind(from, to)
	step := 1
	if m > n {
		step = -1
	}
	for v := m; ; v += step {
		vals = append(vals, v)
		switch kind {
		case "padded":
			texts = append(texts, fmt.Sprintf("%0*d", len(from), v))
		default:
			texts = append(texts, strconv.Itoa(v))
		}
		if v == n {
			break
		}
	}
	return
}

// expected returns the elements the statement promises; numeric = true when the
// case is a bare single ambiguous range (elements then compare as integers).
func expected(c Case) (want []string, numeric bool, err error) {
	for _, g := range c.Groups {
		var lists [][]string
		var tmpl []string // literal pieces around the blocks: len = blocks+1
		cur := ""
		for _, p := range g {
			if p.Block == nil {
				cur += p.Lit
				continue
			}
			tmpl = append(tmpl, cur)
			cur = ""
			var l []string
			for _, it := range p.Block {
				if !it.isRange() {
					l = append(l, it.Lit)
					continue
				}
				_, texts, kind, err := expandRange(it.From, it.To)
				if err != nil {
					return nil, false, err
				}
				if kind == "ambiguous" {
					if len(c.Groups) != 1 || len(g) != 1 || len(p.Block) != 1 {
						return nil, false, fmt.Errorf("ambiguous padding outside a bare range")
					}
					numeric = true
				}
				l = append(l, texts...)
			}
			lists = append(lists, l)
		}
		tmpl = append(tmpl, cur)
		// odometer, last block fastest
		idx := make([]int, len(lists))
		for {
			var b strings.Builder
			for i := range lists {
				b.WriteString(tmpl[i])
				b.WriteString(lists[i][idx[i]])
			}
			b.WriteString(tmpl[len(lists)])
			want = append(want, b.String())
			i := len(idx) - 1
			for i >= 0 {
				idx[i]++
				if idx[i] < len(lists[i]) {
					break
				}
				idx[i] = 0
				i--
			}
			if i < 0 {
				break
			}
		}
	}
	return
}

// ---------------------------------------------------------------------------
// generator

func pad(v, w int) string { return fmt.Sprintf("%0*d", w, v) }

func digits(v int) int { return len(strconv.Itoa(v)) }

// genRange draws a range; maxSpan bounds the number of elements; allowAmb
// allows writings whose padding is not stated.
func genRange(t *rapid.T, maxSpan int, allowAmb bool) Item {
	m := rapid.IntRange(-200, 200).Draw(t, "m")
	var n int
	switch rapid.IntRange(0, 3).Draw(t, "span-kind") {
	case 0:
		n = rapid.IntRange(-200, 200).Draw(t, "n")
	default:
		n = m + rapid.IntRange(-12, 12).Draw(t, "delta")
	}
	if n-m >= maxSpan {
		n = m + maxSpan - 1
	}
	if m-n >= maxSpan {
		n = m - maxSpan + 1
	}
	if n < -200 {
		n = -200
	}
	if n > 200 {
		n = 200
	}
	mode := rapid.IntRange(0, 5).Draw(t, "pad")
	switch {
	case mode <= 2:
		return Item{From: strconv.Itoa(m), To: strconv.Itoa(n)}
	case mode <= 4 || !allowAmb:
		// both bounds padded to a common width
		if m < 0 {
			m = -m
		}
		if n < 0 {
			n = -n
		}
		w := digits(m)
		if digits(n) > w {
			w = digits(n)
		}
		w += rapid.IntRange(0, 2).Draw(t, "extra")
		return Item{From: pad(m, w), To: pad(n, w)}
	default:
		// one-sided / different widths / negative with zeros
		f, s := strconv.Itoa(m), strconv.Itoa(n)
		z := func(x string, k int) string {
			if strings.HasPrefix(x, "-") {
				return "-" + strings.Repeat("0", k) + x[1:]
			}
			return strings.Repeat("0", k) + x
		}
		switch rapid.IntRange(0, 2).Draw(t, "amb") {
		case 0:
			f = z(f, rapid.IntRange(1, 2).Draw(t, "zf"))
		case 1:
			s = z(s, rapid.IntRange(1, 2).Draw(t, "zs"))
		default:
			f = z(f, rapid.IntRange(1, 2).Draw(t, "zf"))
			s = z(s, rapid.IntRange(1, 3).Draw(t, "zs"))
		}
		return Item{From: f, To: s}
	}
}

var litGen = rapid.StringMatching(`[a-zA-Z0-9_]{1,3}([.:-][a-zA-Z0-9_]{1,2})?`)
var wordGen = rapid.StringMatching(`[a-zA-Z0-9_-]{1,4}`)

func genGroup(t *rapid.T, blocks int) []Part {
	var g []Part
	budget := 400 // elements per group
	for b := 0; b < blocks; b++ {
		if rapid.Bool().Draw(t, "prefix") {
			g = append(g, Part{Lit: litGen.Draw(t, "lit")})
		}
		per := 12
		if blocks == 1 {
			per = budget
		}
		var items []Item
		ni := rapid.SampledFrom([]int{1, 1, 1, 2, 3}).Draw(t, "nitems")
		for i := 0; i < ni; i++ {
			if rapid.IntRange(0, 2).Draw(t, "item-kind") == 2 {
				items = append(items, Item{Lit: wordGen.Draw(t, "word")})
			} else {
				items = append(items, genRange(t, per/ni, false))
			}
		}
		g = append(g, Part{Block: items})
	}
	if rapid.Bool().Draw(t, "suffix") {
		g = append(g, Part{Lit: litGen.Draw(t, "lit")})
	}
	return g
}

func gen(t *rapid.T) Case {
	c := Case{Cmd: rapid.SampledFrom([]string{"a", "ja"}).Draw(t, "cmd")}
	switch rapid.IntRange(0, 3).Draw(t, "shape") {
	case 0:
		// the bare range of the statement, every writing, whole bound space
		c.Groups = [][]Part{{{Block: []Item{genRange(t, 401, true)}}}}
	default:
		ng := rapid.SampledFrom([]int{1, 1, 1, 2}).Draw(t, "groups")
		for i := 0; i < ng; i++ {
			c.Groups = append(c.Groups, genGroup(t, rapid.IntRange(1, 3).Draw(t, "blocks")))
		}
	}
	return c
}

// ---------------------------------------------------------------------------
// oracle

var forbidden = []string{"panic caught", "runtime error", "Murex has crashed", "goroutine "}

func parseOutput(cmd string, out []byte) ([]string, error) {
	if cmd == "a" {
		s := string(out)
		if s == "" {
			return nil, nil
		}
		if !strings.HasSuffix(s, "\n") {
			return nil, fmt.Errorf("last line is not terminated")
		}
		return strings.Split(strings.TrimSuffix(s, "\n"), "\n"), nil
	}
	dec := json.NewDecoder(bytes.NewReader(out))
	dec.UseNumber()
	var a []any
	if err := dec.Decode(&a); err != nil {
		return nil, err
	}
	var res []string
	for _, e := range a {
		switch x := e.(type) {
		case string:
			res = append(res, x)
		case json.Number:
			res = append(res, x.String())
		default:
			return nil, fmt.Errorf("element %v is neither a string nor a number", e)
		}
	}
	return res, nil
}

func short(l []string) string {
	if len(l) > 24 {
		return fmt.Sprintf("%q … %q (%d elements)", l[:12], l[len(l)-6:], len(l))
	}
	return fmt.Sprintf("%q", l)
}

func check(c Case) *core.Violation {
	want, numeric, err := expected(c)
	if err != nil {
		return core.Violf("bad-case", "%v", err)
	}
	src := c.Source()
	r := core.Run(src)
	if r.Hung {
		return core.Violf("hang", "`%s` did not finish\n%s", src, r.Dump)
	}
	all := string(r.Stdout) + "\x00" + string(r.Stderr)
	if r.Err != nil {
		all += "\x00" + r.Err.Error()
	}
	for _, f := range forbidden {
		if strings.Contains(all, f) {
			return core.Violf("panic", "`%s`: output contains %q\nstdout=%q stderr=%q", src, f, r.Stdout, r.Stderr)
		}
	}
	if r.Err != nil || r.Exit != 0 || len(r.Stderr) > 0 {
		return core.Violf("error", "`%s` failed: exit=%d err=%v stderr=%q\nwant %s", src, r.Exit, r.Err, r.Stderr, short(want))
	}
	got, perr := parseOutput(c.Cmd, r.Stdout)
	if perr != nil {
		return core.Violf("unparsable", "`%s`: %v\nstdout=%q", src, perr, r.Stdout)
	}
	bad := len(got) != len(want)
	for i := 0; !bad && i < len(want); i++ {
		if numeric {
			g, err := strconv.Atoi(got[i])
			w, _ := strconv.Atoi(want[i])
			bad = err != nil || g != w
		} else {
			bad = got[i] != want[i]
		}
	}
	if bad {
		kind := "sequence"
		if numeric {
			kind = "numeric-sequence"
		}
		return core.Violf(kind, "`%s`\nwant %s\ngot  %s", src, short(want), short(got))
	}
	return nil
}

// ---------------------------------------------------------------------------

func classify(c Case) core.Class {
	blocks, desc, padded, amb, lits, lists := 0, false, false, false, false, false
	for _, g := range c.Groups {
		for _, p := range g {
			if p.Block == nil {
				lits = true
				continue
			}
			blocks++
			if len(p.Block) > 1 {
				lists = true
			}
			for _, it := range p.Block {
				if !it.isRange() {
					lists = true
					continue
				}
				m, _ := strconv.Atoi(it.From)
				n, _ := strconv.Atoi(it.To)
				if m > n {
					desc = true
				}
				switch padKind(it.From, it.To) {
				case "padded":
					padded = true
				case "ambiguous":
					amb = true
				}
			}
		}
	}
	multi := blocks >= 2
	var tags []string
	if multi {
		tags = append(tags, fmt.Sprintf("%d-blocks", blocks))
	}
	if len(c.Groups) > 1 {
		tags = append(tags, "groups")
	}
	if desc {
		tags = append(tags, "descending")
	}
	if padded {
		tags = append(tags, "padded")
	}
	if amb {
		tags = append(tags, "padding-unstated")
	}
	if lists {
		tags = append(tags, "list")
	}
	if lits && !multi {
		tags = append(tags, "affix")
	}
	if len(tags) == 0 {
		tags = append(tags, "ascending-plain")
	}
	return core.Class{
		NonTrivial: desc || padded || multi,
		Label:      c.Cmd + " " + strings.Join(tags, ","),
		Key:        c.Source(),
	}
}

// rxBuggy is murex's test for "this ja parameter is an all-number array"
// (array_num.go); its `..` are unescaped, so they match any two characters.
// rxMeant is the same expression with the dots escaped.
var (
	rxBuggy = regexp.MustCompile(`^\[([0-9]+..[0-9]+|[0-9]+|,)+\]$`)
	rxMeant = regexp.MustCompile(`^\[([0-9]+\.\.[0-9]+|[0-9]+|,)+\]$`)
)

func known(c Case, v *core.Violation) string {
	if c.Cmd == "ja" && (v.Kind == "sequence" || v.Kind == "error") {
		p := []byte(c.Param())
		if rxBuggy.Match(p) && !rxMeant.Match(p) {
			// e.g. `ja [1..2][3..4]`: "2][3" satisfies `[0-9]+..[0-9]+`, the
			// parameter is taken for one number list and the blocks are
			// concatenated instead of multiplied
			return "C18-ja-number-array-regexp-unescaped-dots"
		}
	}
	return ""
}

var spec = core.Spec[Case]{
	ID: "C18", Gen: gen, Check: check, Classify: classify, Known: known,
	Sample: func(c Case) any { return c.Source() },
}

func TestProp(t *testing.T)   { core.RunProp(t, spec) }
func TestReplay(t *testing.T) { core.Replay(t, spec) }

// TestPropExhaustive enumerates, for `a` and `ja`: every bare range m..n with
// m, n in [-60, 60]; every zero-padded pair m, n in [0, 40] at widths 2 and 3;
// every pair of two-block products x[i..j]y[k..l] with i,j,k,l in [1,3].
// Sharded by m.
func TestPropExhaustive(t *testing.T) {
	shard, shards := core.EnvInt("VERIF_SHARD", 0), core.EnvInt("VERIF_SHARDS", 1)
	total := 0
	eval := func(c Case) {
		total++
		if v := core.Eval(spec, c, true); v != nil {
			t.Fatalf("C18 violated: %s", v.Error())
		}
	}
	for _, cmd := range []string{"a", "ja"} {
		for m := -60; m <= 60; m++ {
			if (m+60)%shards != shard {
				continue
			}
			for n := -60; n <= 60; n++ {
				eval(Case{Cmd: cmd, Groups: [][]Part{{{Block: []Item{{From: strconv.Itoa(m), To: strconv.Itoa(n)}}}}}})
			}
		}
		for m := 0; m <= 40; m++ {
			if m%shards != shard {
				continue
			}
			for n := 0; n <= 40; n++ {
				for w := 2; w <= 3; w++ {
					eval(Case{Cmd: cmd, Groups: [][]Part{{{Block: []Item{{From: pad(m, w), To: pad(n, w)}}}}}})
				}
			}
		}
		if shard == 0 {
			for i := 1; i <= 3; i++ {
				for j := 1; j <= 3; j++ {
					for k := 1; k <= 3; k++ {
						for l := 1; l <= 3; l++ {
							eval(Case{Cmd: cmd, Groups: [][]Part{{
								{Lit: "x"}, {Block: []Item{{From: strconv.Itoa(i), To: strconv.Itoa(j)}}},
								{Lit: "y"}, {Block: []Item{{From: strconv.Itoa(k), To: strconv.Itoa(l)}}},
							}}})
						}
					}
				}
			}
		}
	}
	core.Count("exhaustive-cases", total)
	core.Note("exhaustive", "for a and ja: every bare range [m..n] with m, n in -60..60; every zero-padded pair with m, n in 0..40 at widths 2 and 3; every x[i..j]y[k..l] with i,j,k,l in 1..3 (36168 cases); bounds up to +-200, other paddings, comma lists, affixes, three blocks and comma separated groups are sampled")
}
