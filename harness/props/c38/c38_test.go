// C38 — List builtins preserve their elements.
//
// Domain: JSON string arrays and `str` lists of 0–40 single-line elements over
// a hostile alphabet (duplicates likely; `str` elements without surrounding
// whitespace), fed as bytes into the fork's stdin with the data type set, and
// one of msort, mtac, prepend, append, match, !match, left, right, prefix,
// suffix with generated parameters.
// Oracle: a model of each builtin written from the statement and the docs
// under /repo/docs/commands.
package c38

import (
	"encoding/json"
	"fmt"
	"sort"
	"strconv"
	"strings"
	"testing"
	"unicode"
	"unicode/utf8"

	"github.com/lmorg/murex/lang"
	"github.com/lmorg/murex/lang/types"
	"pgregory.net/rapid"
	"verif/harness/core"
	hgen "verif/harness/gen"
)

func TestMain(m *testing.M) { core.InitMurex(); core.Main(m, "C38") }

type Case struct {
	Type   string   `json:"type"` // json | str
	List   []string `json:"list"`
	Op     string   `json:"op"`
	Params []string `json:"params,omitempty"` // prepend/append: elements; match/!match: words of the search string; prefix/suffix: the string
	N      int      `json:"n,omitempty"`      // left/right
}

var ops = []string{"msort", "mtac", "prepend", "append", "match", "!match", "left", "right", "prefix", "suffix"}

func trimStr(s string) string { return strings.TrimSpace(s) }

func gen(t *rapid.T) Case {
	c := Case{}
	c.Type = rapid.SampledFrom([]string{"json", "str"}).Draw(t, "type")
	c.Op = rapid.SampledFrom(ops).Draw(t, "op")
	elem := hgen.HostileString(hgen.StrOpts{MaxParts: 5, Control: c.Type == "json"})
	n := 0
	switch rapid.IntRange(0, 9).Draw(t, "size") {
	case 0:
		n = rapid.IntRange(0, 2).Draw(t, "n")
	case 1:
		n = rapid.IntRange(20, 40).Draw(t, "n")
	default:
		n = rapid.IntRange(3, 12).Draw(t, "n")
	}
	c.List = make([]string, 0, n)
	for i := 0; i < n; i++ {
		if i > 0 && rapid.IntRange(0, 3).Draw(t, "dup") == 0 {
			c.List = append(c.List, c.List[rapid.IntRange(0, i-1).Draw(t, "dupOf")])
			continue
		}
		s := elem.Draw(t, "elem")
		if c.Type == "str" {
			// the str reader trims surrounding white space (documented domain:
			// str elements have none)
			s = trimStr(s)
		}
		c.List = append(c.List, s)
	}
	param := hgen.HostileString(hgen.StrOpts{MaxParts: 3})
	switch c.Op {
	case "prepend", "append":
		k := rapid.IntRange(0, 3).Draw(t, "nparams")
		for i := 0; i < k; i++ {
			if len(c.List) > 0 && rapid.IntRange(0, 3).Draw(t, "same") == 0 {
				c.Params = append(c.Params, rapid.SampledFrom(c.List).Draw(t, "p"))
			} else {
				c.Params = append(c.Params, param.Draw(t, "p"))
			}
		}
	case "match", "!match":
		if len(c.List) > 0 && rapid.IntRange(0, 3).Draw(t, "present") > 0 {
			// a substring of an existing element (rune aligned)
			e := []rune(rapid.SampledFrom(c.List).Draw(t, "from"))
			if len(e) > 0 {
				a := rapid.IntRange(0, len(e)-1).Draw(t, "a")
				b := rapid.IntRange(a+1, min(len(e), a+3)).Draw(t, "b")
				c.Params = []string{string(e[a:b])}
			}
		}
		if c.Params == nil {
			c.Params = []string{param.Draw(t, "p")}
			if rapid.IntRange(0, 5).Draw(t, "two") == 0 {
				c.Params = append(c.Params, param.Draw(t, "p2"))
			}
		}
	case "left", "right":
		c.N = rapid.SampledFrom([]int{0, 1, 1, 2, 2, 3, 4, 5, 8, 100, -1, -1, -2, -2, -3, -4, -5, -8, -100}).Draw(t, "count")
	case "prefix", "suffix":
		c.Params = []string{param.Draw(t, "p")}
	}
	return c
}

// ---------------------------------------------------------------------------
// running

func (c Case) stdin() []byte {
	if c.Type == "json" {
		l := c.List
		if l == nil {
			l = []string{}
		}
		b, _ := json.Marshal(l)
		return b
	}
	var b strings.Builder
	for _, s := range c.List {
		b.WriteString(s)
		b.WriteByte('\n')
	}
	return []byte(b.String())
}

// source renders the pipeline. Parameters are single-quoted (murex single
// quotes are literal); a parameter containing a single quote is passed as a
// string variable set through the Go API.
func (c Case) source() (string, map[string]string) {
	vars := map[string]string{}
	var b strings.Builder
	b.WriteString("<stdin> -> " + c.Op)
	switch c.Op {
	case "left", "right":
		b.WriteString(" " + strconv.Itoa(c.N))
	}
	for i, p := range c.Params {
		if strings.Contains(p, "'") {
			name := fmt.Sprintf("c38p%d", i)
			vars[name] = p
			b.WriteString(" $" + name)
		} else {
			b.WriteString(" '" + p + "'")
		}
	}
	return b.String(), vars
}

func (c Case) run() (core.Result, string) {
	src, vars := c.source()
	r := core.RunWith(src, core.RunOpts{Stdin: c.stdin(), StdinType: c.Type, Prepare: func(f *lang.Fork) {
		for i := range c.Params {
			name := fmt.Sprintf("c38p%d", i)
			if v, ok := vars[name]; ok {
				if err := f.Variables.Set(f.Process, name, v, types.String); err != nil {
					panic(err)
				}
			}
		}
	}})
	return r, src
}

// decode turns stdout into the list of elements.
func decode(typ string, out []byte) ([]string, error) {
	if len(out) == 0 {
		return []string{}, nil
	}
	if typ == "json" {
		var a []any
		if err := json.Unmarshal(out, &a); err != nil {
			return nil, fmt.Errorf("stdout is not a JSON array: %v", err)
		}
		l := make([]string, len(a))
		for i := range a {
			s, ok := a[i].(string)
			if !ok {
				return nil, fmt.Errorf("element %d is %T, not a string", i, a[i])
			}
			l[i] = s
		}
		return l, nil
	}
	s := strings.TrimSuffix(string(out), "\n")
	return strings.Split(s, "\n"), nil
}

// ---------------------------------------------------------------------------
// model

func isASCII(s string) bool {
	for i := 0; i < len(s); i++ {
		if s[i] >= 0x80 {
			return false
		}
	}
	return true
}

// jsonBytes is what encoding/json makes of a byte string that may have been
// cut inside a multi-byte rune: every invalid byte becomes U+FFFD.
func jsonBytes(s string) string {
	var b strings.Builder
	for i := 0; i < len(s); {
		r, w := utf8.DecodeRuneInString(s[i:])
		if r == utf8.RuneError && w == 1 {
			b.WriteRune(utf8.RuneError)
		} else {
			b.WriteString(s[i : i+w])
		}
		i += w
	}
	return b.String()
}

// sub applies left/right with count n over a sequence of units.
func subLeft[T any](u []T, n int) []T {
	switch {
	case n > 0:
		if len(u) < n {
			return u
		}
		return u[:n]
	case n < 0:
		n = -n
		if len(u) <= n {
			return nil
		}
		return u[:len(u)-n]
	}
	return nil
}

func subRight[T any](u []T, n int) []T {
	switch {
	case n > 0:
		if len(u) < n {
			return u
		}
		return u[len(u)-n:]
	case n < 0:
		n = -n
		if len(u) <= n {
			return nil
		}
		return u[n:]
	}
	return nil
}

// substr returns the accepted results of left/right for one element: the
// character (rune) reading of the documentation and, for non-ASCII elements,
// the byte reading as well (the docs say "characters"; the statement does not
// settle it, so neither is rejected).
func substr(typ, op, s string, n int) []string {
	f := subLeft[rune]
	fb := subLeft[byte]
	if op == "right" {
		f = subRight[rune]
		fb = subRight[byte]
	}
	want := []string{string(f([]rune(s), n))}
	if !isASCII(s) {
		bs := string(fb([]byte(s), n))
		if typ == "json" {
			bs = jsonBytes(bs)
		}
		want = append(want, bs)
	}
	return want
}

func pattern(c Case) string { return strings.Join(c.Params, " ") }

// expected returns the exact expected list, or nil when the op is checked by
// a relation instead (msort, left, right).
func expected(c Case) []string {
	in := c.List
	switch c.Op {
	case "mtac":
		out := make([]string, len(in))
		for i := range in {
			out[len(in)-1-i] = in[i]
		}
		return out
	case "prepend":
		return append(append([]string{}, c.Params...), in...)
	case "append":
		return append(append([]string{}, in...), c.Params...)
	case "match", "!match":
		out := []string{}
		for _, s := range in {
			if strings.Contains(s, pattern(c)) == (c.Op == "match") {
				out = append(out, s)
			}
		}
		return out
	case "prefix":
		out := make([]string, len(in))
		for i := range in {
			out[i] = pattern(c) + in[i]
		}
		return out
	case "suffix":
		out := make([]string, len(in))
		for i := range in {
			out[i] = in[i] + pattern(c)
		}
		return out
	}
	return nil
}

func expectedLen(c Case) int {
	switch c.Op {
	case "msort", "left", "right":
		return len(c.List)
	}
	return len(expected(c))
}

func check(c Case) *core.Violation {
	r, src := c.run()
	desc := fmt.Sprintf("%s list %q -> %s", c.Type, c.List, strings.TrimPrefix(src, "<stdin> -> "))
	if strings.Contains(src, "$c38p") {
		desc += fmt.Sprintf(" (params %q)", c.Params)
	}
	if r.Hung {
		return core.Violf("hang", "did not finish: %s", desc)
	}
	if r.Err != nil {
		return core.Violf("parse", "%s: %v", desc, r.Err)
	}
	if r.Exit != 0 {
		// A refusal is accepted only where nothing would have been output
		// anyway (an empty result list; murex's JSON writer reports "no data
		// returned") or for an empty search string ("no parameters
		// supplied"), and only when it is clean: a message and no output.
		emptySearch := (c.Op == "match" || c.Op == "!match") && pattern(c) == ""
		if (expectedLen(c) == 0 || emptySearch) && len(r.Stdout) == 0 && len(r.Stderr) > 0 {
			if emptySearch {
				core.Count("refused:empty-search-string", 1)
			} else {
				core.Count("refused:empty-result:"+c.Type, 1)
			}
			return nil
		}
		return core.Violf("error", "%s\nexit %d stdout=%q stderr=%q", desc, r.Exit, r.Stdout, r.Stderr)
	}
	got, err := decode(c.Type, r.Stdout)
	if err != nil {
		return core.Violf("decode", "%s\n%v\nstdout=%q", desc, err, r.Stdout)
	}
	switch c.Op {
	case "msort":
		if len(got) != len(c.List) {
			return core.Violf("msort-count", "%s\ngot %d elements %q", desc, len(got), got)
		}
		a := append([]string{}, c.List...)
		b := append([]string{}, got...)
		sort.Strings(a)
		sort.Strings(b)
		for i := range a {
			if a[i] != b[i] {
				return core.Violf("msort-permutation", "%s\noutput is not a permutation of the input: %q", desc, got)
			}
		}
		if !sort.StringsAreSorted(got) {
			return core.Violf("msort-order", "%s\noutput is not in non-decreasing string order: %q", desc, got)
		}
		return nil
	case "left", "right":
		if len(got) != len(c.List) {
			return core.Violf(c.Op+"-count", "%s\nwant %d elements, got %d: %q", desc, len(c.List), len(got), got)
		}
		for i, s := range c.List {
			ok := false
			want := substr(c.Type, c.Op, s, c.N)
			for _, w := range want {
				if got[i] == w {
					ok = true
				}
			}
			if !ok {
				return core.Violf(c.Op+"-element", "%s\nelement %d %q: want one of %q, got %q\noutput %q", desc, i, s, want, got[i], got)
			}
			if len(want) > 1 && want[0] != want[1] {
				core.Count("left/right:non-ascii-element-either-reading-accepted", 1)
			}
		}
		return nil
	}
	want := expected(c)
	if len(got) != len(want) {
		return core.Violf(c.Op+"-count", "%s\nwant %d elements %q\ngot  %d elements %q", desc, len(want), want, len(got), got)
	}
	for i := range want {
		if got[i] != want[i] {
			return core.Violf(c.Op+"-element", "%s\nelement %d: want %q got %q\nwant %q\ngot  %q", desc, i, want[i], got[i], want, got)
		}
	}
	return nil
}

// ---------------------------------------------------------------------------
// classification

func significant(s string) bool {
	for _, r := range s {
		if strings.ContainsRune("\"\\{}[],:'#", r) || r < 0x20 || r >= 0x80 || unicode.IsSpace(r) {
			return true
		}
	}
	return false
}

func classify(c Case) core.Class {
	dup, sig := false, false
	seen := map[string]bool{}
	for _, s := range c.List {
		if seen[s] {
			dup = true
		}
		seen[s] = true
		if significant(s) {
			sig = true
		}
	}
	nt := len(c.List) >= 3 && (dup || sig)
	if c.Op == "match" || c.Op == "!match" {
		k := len(expected(c))
		nt = nt && k > 0 && k < len(c.List)
	}
	cl := core.Class{NonTrivial: nt}
	if nt {
		cl.Label = c.Op + "/" + c.Type
	} else {
		cl.Label = "trivial/" + c.Op
	}
	return cl
}

func known(c Case, v *core.Violation) string { return "" }

var spec = core.Spec[Case]{
	ID: "C38", Gen: gen, Check: check, Classify: classify, Known: known,
	Sample: func(c Case) any {
		src, _ := c.source()
		return map[string]any{"type": c.Type, "list": c.List, "src": src, "params": c.Params}
	},
}

func TestProp(t *testing.T)   { core.RunProp(t, spec) }
func TestReplay(t *testing.T) { core.Replay(t, spec) }
