// C39 — `break`, `continue` and `return` affect only the named block.
//
// Domain: generated structured programs: 1–3 functions (calls only go to
// higher numbered functions), nested `foreach` over %[1..n], `while` with the
// documented iteration counter `$.i`, `if/else`, `out <tag>` everywhere, and
// `break <foreach|while|if|function name>`, `continue <foreach|while>`,
// `return N` at random positions (bare or guarded by conditions on loop
// variables). Every call is followed by `exitnum`.
// Oracle: a reference interpreter of exactly this subset with structured
// control flow; stdout (tag trace + exit numbers) and the final exit number
// are compared.
package c39

import (
	"fmt"
	"strconv"
	"strings"
	"testing"

	"pgregory.net/rapid"
	"verif/harness/core"
)

func TestMain(m *testing.M) {
	core.InitMurex()
	core.Main(m, "C39")
}

// Stmt is one statement of the subset.
type Stmt struct {
	K string `json:"k"` // out if foreach while call break continue return

	Tag string `json:"tag,omitempty"` // out

	// if: `$CondVar == CondVal`, or the constant true/false (CondVar == "",
	// CondVal 1/0)
	CondVar string `json:"cv,omitempty"`
	CondVal int    `json:"cn,omitempty"`
	Then    []Stmt `json:"then,omitempty"`
	Else    []Stmt `json:"else,omitempty"`

	// foreach / while: loop variable, number of iterations, body
	Var  string `json:"var,omitempty"`
	N    int    `json:"n,omitempty"`
	Body []Stmt `json:"body,omitempty"`

	Fn   int    `json:"fn,omitempty"`   // call: function index
	Name string `json:"name,omitempty"` // break / continue: block name
	Exit int    `json:"exit,omitempty"` // return
}

// Case is a program: Fns[0] is the entry function.
type Case struct {
	Fns [][]Stmt `json:"fns"`
}

func fname(i int) string { return "c39f" + strconv.Itoa(i) }

// ---------------------------------------------------------------------------
// generator

type gctx struct {
	fn, nfn int
	blocks  []string // names of the enclosing blocks inside this function, outermost first
	vars    []string // loop variables of the enclosing loops of this function
	depth   int
	nvar    *int
}

func (g gctx) push(block string, v string) gctx {
	n := g
	n.blocks = append(append([]string(nil), g.blocks...), block)
	if v != "" {
		n.vars = append(append([]string(nil), g.vars...), v)
	}
	n.depth++
	return n
}

func genBlock(t *rapid.T, g gctx, max int, label string) []Stmt {
	return rapid.SliceOfN(rapid.Custom(func(t *rapid.T) Stmt { return genStmt(t, g) }), 1, max).Draw(t, label)
}

func genCond(t *rapid.T, g gctx, s *Stmt) {
	if len(g.vars) > 0 && rapid.IntRange(0, 5).Draw(t, "condvar") > 0 {
		s.CondVar = rapid.SampledFrom(g.vars).Draw(t, "cv")
		s.CondVal = rapid.IntRange(1, 3).Draw(t, "cn")
		return
	}
	s.CondVal = rapid.IntRange(0, 1).Draw(t, "const")
}

func genStmt(t *rapid.T, g gctx) Stmt {
	kinds := []string{"out", "out", "jump", "jump"}
	if g.depth < 4 {
		kinds = append(kinds, "if", "if", "foreach", "foreach", "while")
	}
	if g.fn+1 < g.nfn {
		kinds = append(kinds, "call")
	}
	switch rapid.SampledFrom(kinds).Draw(t, "kind") {
	case "if":
		s := Stmt{K: "if"}
		genCond(t, g, &s)
		in := g.push("if", "")
		s.Then = genBlock(t, in, 3, "then")
		if rapid.IntRange(0, 2).Draw(t, "else") == 0 {
			s.Else = genBlock(t, in, 3, "else")
		}
		return s
	case "foreach", "while":
		*g.nvar++
		s := Stmt{K: "foreach", Var: "i" + strconv.Itoa(*g.nvar)}
		if rapid.IntRange(0, 2).Draw(t, "while") == 0 {
			s.K = "while"
			s.Var = "w" + strconv.Itoa(*g.nvar)
		}
		s.N = rapid.IntRange(1, 3).Draw(t, "n")
		s.Body = genBlock(t, g.push(s.K, s.Var), 4, "body")
		return s
	case "call":
		return Stmt{K: "call", Fn: rapid.IntRange(g.fn+1, g.nfn-1).Draw(t, "fn")}
	case "jump":
		// mostly guarded by a condition on a loop variable, so that loops
		// see different jumps in different iterations
		if len(g.vars) > 0 && rapid.IntRange(0, 3).Draw(t, "guard") > 0 {
			s := Stmt{K: "if"}
			s.CondVar = rapid.SampledFrom(g.vars).Draw(t, "cv")
			s.CondVal = rapid.IntRange(1, 3).Draw(t, "cn")
			s.Then = []Stmt{genJump(t, g.push("if", ""))}
			return s
		}
		return genJump(t, g)
	}
	return Stmt{K: "out"}
}

// genJump: valid targets only, i.e. blocks that enclose the statement inside
// the current function.
func genJump(t *rapid.T, g gctx) Stmt {
	var opts []Stmt
	seen := map[string]bool{}
	for _, b := range g.blocks {
		if seen[b] {
			continue
		}
		seen[b] = true
		opts = append(opts, Stmt{K: "break", Name: b})
		if b == "foreach" || b == "while" {
			opts = append(opts, Stmt{K: "continue", Name: b}, Stmt{K: "continue", Name: b})
		}
	}
	opts = append(opts, Stmt{K: "return"})
	s := opts[rapid.IntRange(0, len(opts)-1).Draw(t, "jump")]
	if s.K == "return" {
		s.Exit = rapid.SampledFrom([]int{0, 1, 3, 7}).Draw(t, "exit")
	}
	return s
}

func gen(t *rapid.T) Case {
	nfn := rapid.IntRange(1, 3).Draw(t, "nfn")
	var c Case
	nvar := 0
	for f := 0; f < nfn; f++ {
		g := gctx{fn: f, nfn: nfn, blocks: []string{fname(f)}, depth: 1, nvar: &nvar}
		c.Fns = append(c.Fns, genBlock(t, g, 5, "fn"))
	}
	// tags in source order
	n := 0
	var walk func(b []Stmt)
	walk = func(b []Stmt) {
		for i := range b {
			if b[i].K == "out" {
				n++
				b[i].Tag = "T" + strconv.Itoa(n)
			}
			walk(b[i].Then)
			walk(b[i].Else)
			walk(b[i].Body)
		}
	}
	for f := range c.Fns {
		walk(c.Fns[f])
	}
	return c
}

// ---------------------------------------------------------------------------
// printer

func writeBlock(b *strings.Builder, stmts []Stmt, ind string) {
	for _, s := range stmts {
		switch s.K {
		case "out":
			b.WriteString(ind + "out " + s.Tag + "\n")
		case "if":
			cond := "false"
			if s.CondVar != "" {
				cond = fmt.Sprintf("$%s == %d", s.CondVar, s.CondVal)
			} else if s.CondVal == 1 {
				cond = "true"
			}
			b.WriteString(ind + "if { " + cond + " } then {\n")
			writeBlock(b, s.Then, ind+"  ")
			if len(s.Else) > 0 {
				b.WriteString(ind + "} else {\n")
				writeBlock(b, s.Else, ind+"  ")
			}
			b.WriteString(ind + "}\n")
		case "foreach":
			items := []string{}
			for i := 1; i <= s.N; i++ {
				items = append(items, strconv.Itoa(i))
			}
			b.WriteString(ind + "%[" + strings.Join(items, ",") + "] -> foreach " + s.Var + " {\n")
			writeBlock(b, s.Body, ind+"  ")
			b.WriteString(ind + "}\n")
		case "while":
			// $.i is the documented iteration number (1-based); it is copied
			// because nested loops overwrite the meta variable
			b.WriteString(ind + "while { $.i <= " + strconv.Itoa(s.N) + " } {\n")
			b.WriteString(ind + "  " + s.Var + " = $.i\n")
			writeBlock(b, s.Body, ind+"  ")
			b.WriteString(ind + "}\n")
		case "call":
			b.WriteString(ind + fname(s.Fn) + "\n" + ind + "exitnum\n")
		case "break", "continue":
			b.WriteString(ind + s.K + " " + s.Name + "\n")
		case "return":
			b.WriteString(ind + "return " + strconv.Itoa(s.Exit) + "\n")
		}
	}
}

func (c Case) Source() string {
	var b strings.Builder
	for f := len(c.Fns) - 1; f >= 0; f-- {
		b.WriteString("function " + fname(f) + " {\n")
		writeBlock(&b, c.Fns[f], "  ")
		b.WriteString("  out END" + strconv.Itoa(f) + "\n}\n")
	}
	b.WriteString(fname(0) + "\nexitnum\nout AFTER\n")
	return b.String()
}

// ---------------------------------------------------------------------------
// reference interpreter

const maxLines = 400

type sig struct {
	kind  string // "" break continue return
	name  string
	exit  int
	depth int // block depth at which the jump was executed
}

type interp struct {
	c      Case
	out    []string
	vars   map[string]int
	over   bool
	limit  int
	// defect switches on the model of the two known findings in cmdContinue
	// (used to recognise those root causes, never as an oracle):
	//  - a `continue X` placed directly in the body block of loop X does nothing;
	//  - a `continue X` stops cancelling at a later sibling statement that is
	//    itself an X loop: that statement and everything after it still run.
	defNoop     bool
	defSibling  bool
	trigNoop    int
	trigSibling int

	// classification
	maxCross    int  // most block levels left by one jump
	loopBoth    bool // one loop execution was both continued and broken
	retInLoop   bool // a return executed inside a loop
	jumps       int
}

func (in *interp) emit(s string) {
	if len(in.out) >= in.limit {
		in.over = true
		return
	}
	in.out = append(in.out, s)
}

// block runs the statements of one block. name is the block's name, depth its
// nesting depth inside the function (function body = 1), loops the number of
// enclosing loops inside the function.
func (in *interp) block(name string, stmts []Stmt, depth, loops int) sig {
	for k := 0; k < len(stmts); k++ {
		if in.over {
			return sig{}
		}
		s := stmts[k]
		var r sig
		switch s.K {
		case "out":
			in.emit(s.Tag)
		case "if":
			var take bool
			if s.CondVar != "" {
				take = in.vars[s.CondVar] == s.CondVal
			} else {
				take = s.CondVal == 1
			}
			switch {
			case take:
				r = in.block("if", s.Then, depth+1, loops)
			case len(s.Else) > 0:
				r = in.block("if", s.Else, depth+1, loops)
			}
			if r.kind == "break" && r.name == "if" {
				in.crossed(r, depth+1)
				r = sig{}
			}
		case "foreach", "while":
			r = in.loop(s, depth, loops)
		case "call":
			save := in.vars
			in.vars = map[string]int{}
			cr := in.block(fname(s.Fn), in.c.Fns[s.Fn], 1, 0)
			exit := 0
			switch {
			case cr.kind == "return":
				in.crossed(cr, 1)
				exit = cr.exit
			case cr.kind == "break" && cr.name == fname(s.Fn):
				in.crossed(cr, 1)
			case cr.kind == "":
				in.emit("END" + strconv.Itoa(s.Fn))
			default:
				panic("jump escaped its function: " + cr.kind + " " + cr.name)
			}
			in.vars = save
			in.emit(strconv.Itoa(exit))
		case "break", "continue", "return":
			in.jumps++
			r = sig{kind: s.K, name: s.Name, exit: s.Exit, depth: depth}
			if s.K == "return" && loops > 0 {
				in.retInLoop = true
			}
			if in.defNoop && s.K == "continue" && s.Name == name {
				in.trigNoop++
				r = sig{}
			}
		}
		if r.kind == "" {
			continue
		}
		if r.kind == "continue" && in.defSibling && s.K != "continue" {
			// (the block that holds the `continue` itself is cancelled as a
			// whole; the walk along the siblings starts one level further out)
			// a later statement of this block that carries the target's name:
			// everything up to it is cancelled (a foreach loses its input, so
			// it does not iterate), everything after it runs
			for m := k + 1; m < len(stmts); m++ {
				if stmts[m].K == r.name {
					in.trigSibling++
					if stmts[m].K == "foreach" {
						k = m
					} else {
						k = m - 1
					}
					r = sig{}
					break
				}
			}
			if r.kind == "" {
				continue
			}
		}
		return r
	}
	return sig{}
}

func (in *interp) crossed(r sig, target int) {
	if n := r.depth - target + 1; n > in.maxCross {
		in.maxCross = n
	}
}

func (in *interp) loop(s Stmt, depth, loops int) sig {
	continued, broken := false, false
	for i := 1; i <= s.N; i++ {
		if in.over {
			return sig{}
		}
		in.vars[s.Var] = i
		r := in.block(s.K, s.Body, depth+1, loops+1)
		switch {
		case r.kind == "":
		case r.kind == "continue" && r.name == s.K:
			in.crossed(r, depth+1)
			continued = true
		case r.kind == "break" && r.name == s.K:
			in.crossed(r, depth+1)
			broken = true
			if continued {
				in.loopBoth = true
			}
			return sig{}
		default:
			return r
		}
	}
	_ = broken
	return sig{}
}

func runModel(c Case, defNoop, defSibling bool) *interp {
	in := &interp{c: c, vars: map[string]int{}, defNoop: defNoop, defSibling: defSibling, limit: maxLines}
	if defNoop || defSibling {
		// the defect can multiply the output of a program whose correct
		// trace is short
		in.limit = 100 * maxLines
	}
	r := in.block("", []Stmt{{K: "call", Fn: 0}}, 0, 0)
	if r.kind != "" {
		panic("jump escaped the program")
	}
	in.emit("AFTER")
	return in
}

// ---------------------------------------------------------------------------

func check(c Case) *core.Violation {
	m := runModel(c, false, false)
	if m.over {
		core.Count("skipped_too_long", 1)
		return nil
	}
	src := c.Source()
	r := core.Run(src)
	if r.Hung {
		return core.Violf("hang", "program did not finish\n%s", src)
	}
	want := strings.Join(m.out, "\n") + "\n"
	got := string(r.Stdout)
	if got == want && r.Exit == 0 && len(r.Stderr) == 0 {
		return nil
	}
	kind := "mismatch"
	if r.Exit == 0 && len(r.Stderr) == 0 {
		// is it exactly the behaviour of the known root cause(s)?
		for _, d := range []*interp{runModel(c, true, false), runModel(c, false, true), runModel(c, true, true)} {
			if d.over || strings.Join(d.out, "\n")+"\n" != got {
				continue
			}
			switch {
			case d.trigNoop > 0 && d.trigSibling > 0:
				kind = "continue-noop+sibling"
			case d.trigNoop > 0:
				kind = "continue-noop"
			case d.trigSibling > 0:
				kind = "continue-sibling"
			}
			break
		}
	}
	return core.Violf(kind, "program:\n%s\nwant stdout=%q exit=0\ngot  stdout=%q stderr=%q exit=%d (err=%v)",
		src, strings.ReplaceAll(want, "\n", " "), strings.ReplaceAll(got, "\n", " "), r.Stderr, r.Exit, r.Err)
}

func classify(c Case) core.Class {
	m := runModel(c, false, false)
	cl := core.Class{}
	if m.over {
		cl.Label = "too-long(skipped)"
		return cl
	}
	cl.NonTrivial = m.maxCross >= 2 || m.loopBoth || m.retInLoop
	switch {
	case m.jumps == 0:
		cl.Label = "no-jump-executed"
	case !cl.NonTrivial:
		cl.Label = "jump-crosses-1-level"
	case m.loopBoth:
		cl.Label = "loop-continued-and-broken"
	case m.retInLoop && m.maxCross >= 3:
		cl.Label = "return-in-loop,cross>=3"
	case m.retInLoop:
		cl.Label = "return-in-loop"
	case m.maxCross >= 3:
		cl.Label = "cross>=3"
	default:
		cl.Label = "cross=2"
	}
	return cl
}

const (
	kfNoop    = "C39-continue-directly-in-loop-body-is-noop"
	kfSibling = "C39-continue-stops-at-sibling-loop"
)

// known: only executions that are exactly what the defect model predicts, and
// only when the respective defect was triggered on that path.
func known(c Case, v *core.Violation) string {
	switch v.Kind {
	case "continue-noop":
		return kfNoop
	case "continue-sibling":
		return kfSibling
	case "continue-noop+sibling":
		if core.IsKnownOpen(kfNoop) && core.IsKnownOpen(kfSibling) {
			return kfNoop
		}
	}
	return ""
}

var spec = core.Spec[Case]{
	ID: "C39", Gen: gen, Check: check, Classify: classify, Known: known,
	Sample: func(c Case) any { return c.Source() },
}

func TestProp(t *testing.T)   { core.RunProp(t, spec) }
func TestReplay(t *testing.T) { core.Replay(t, spec) }
