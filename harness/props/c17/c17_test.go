// C17 — Range filters select the documented slice.
//
// Domain: a list of 0–30 distinct items as str, json or jsonl on stdin and one
// range `[s..e]`, `[s..]`, `[..e]`, `[-k..]` (s, e in -5…40), with and without
// the `e` flag (also spelled with the explicit `i` flag and with blanks).
// Oracle: slice model of the statement for the documented forms; for every
// other form only "output is a subsequence of the input, no crash".
package c17

import (
	"bytes"
	"encoding/json"
	"fmt"
	"strconv"
	"strings"
	"testing"

	"pgregory.net/rapid"
	"verif/harness/core"
)

func TestMain(m *testing.M) { core.InitMurex(); core.Main(m, "C17") }

type Case struct {
	Type   string   `json:"type"`  // str json jsonl
	Items  []string `json:"items"` // distinct, non-empty, no blanks at the ends, no newlines
	Start  string   `json:"start"` // "" = omitted
	End    string   `json:"end"`   // "" = omitted
	Flags  string   `json:"flags"` // "", "e", "i", "ie", "ei"
	Spaced bool     `json:"spaced,omitempty"`
}

func (c Case) Source() string {
	if c.Spaced {
		return fmt.Sprintf("-> [ %s..%s ]%s", c.Start, c.End, c.Flags)
	}
	return fmt.Sprintf("-> [%s..%s]%s", c.Start, c.End, c.Flags)
}

func (c Case) Input() []byte {
	b := bytes.NewBuffer([]byte{})
	switch c.Type {
	case "str":
		for _, it := range c.Items {
			b.WriteString(it + "\n")
		}
	case "json":
		items := c.Items
		if items == nil {
			items = []string{}
		}
		j, _ := json.Marshal(items)
		b.Write(j)
	case "jsonl":
		for _, it := range c.Items {
			j, _ := json.Marshal(it)
			b.Write(j)
			b.WriteByte('\n')
		}
	}
	return b.Bytes()
}

// ---------------------------------------------------------------------------
// generator

var bounds = func() []string {
	v := []string{""}
	for i := -5; i <= 40; i++ {
		v = append(v, strconv.Itoa(i))
	}
	return v
}()

func genBound(t *rapid.T, n int, label string) string {
	switch rapid.IntRange(0, 5).Draw(t, label+"-kind") {
	case 0:
		return ""
	case 1, 2: // inside the list
		if n > 0 {
			return strconv.Itoa(rapid.IntRange(1, n).Draw(t, label))
		}
		return "1"
	case 3: // around the edges
		return strconv.Itoa(rapid.SampledFrom([]int{1, 2, n - 1, n, n + 1, 0, -1, -n, -n - 1}).Draw(t, label))
	default:
		return strconv.Itoa(rapid.IntRange(-5, 40).Draw(t, label))
	}
}

func clamp(s string) string {
	if s == "" {
		return s
	}
	k, _ := strconv.Atoi(s)
	if k < -5 {
		k = -5
	}
	if k > 40 {
		k = 40
	}
	return strconv.Itoa(k)
}

func gen(t *rapid.T) Case {
	var c Case
	c.Type = rapid.SampledFrom([]string{"str", "json", "jsonl"}).Draw(t, "type")
	n := rapid.IntRange(0, 30).Draw(t, "n")
	words := rapid.SliceOfN(rapid.StringMatching(`[A-Za-z0-9_.:,-]{0,6}`), n, n).Draw(t, "words")
	for i, w := range words {
		c.Items = append(c.Items, fmt.Sprintf("%s#%d", w, i+1)) // distinct by construction
	}
	c.Start = clamp(genBound(t, n, "start"))
	c.End = clamp(genBound(t, n, "end"))
	c.Flags = rapid.SampledFrom([]string{"", "e", "", "e", "i", "ie", "ei"}).Draw(t, "flags")
	c.Spaced = rapid.IntRange(0, 4).Draw(t, "spaced") == 4
	return c
}

// ---------------------------------------------------------------------------
// model

const (
	out = iota // must not be in the output
	in         // must be in the output
	opt        // either (the statement and the docs do not decide)
)

// model returns, for the documented forms, the status of each item (index 0 =
// item 1) and ok = true; ok = false for forms nothing is stated about.
func model(c Case) (status []int, form string, ok bool) {
	n := len(c.Items)
	hasS, hasE := c.Start != "", c.End != ""
	s, _ := strconv.Atoi(c.Start)
	e, _ := strconv.Atoi(c.End)
	excl := strings.Contains(c.Flags, "e")
	status = make([]int, n)
	switch {
	case hasS && hasE && 1 <= s && s <= e:
		form = "[s..e]"
	case hasS && !hasE && s >= 1:
		form = "[s..]"
	case !hasS && hasE && e >= 1:
		form = "[..e]"
	case hasS && !hasE && s <= -1:
		form = "[-k..]"
		if excl {
			return nil, "[-k..]e", false // not stated
		}
		k := -s
		for i := 1; i <= n; i++ {
			if i > n-k {
				status[i-1] = in
			}
		}
		return status, form, true
	default:
		switch {
		case !hasS && !hasE:
			form = "[..]"
		case hasS && s == 0:
			form = "s=0"
		case hasE && e < 0 || hasS && hasE && s < 0:
			form = "negative-bound"
		case hasS && hasE && s > e:
			form = "s>e"
		default:
			form = "other"
		}
		return nil, form, false
	}
	for i := 1; i <= n; i++ {
		st := in
		if hasS && i < s || hasE && i > e {
			st = out
		}
		if excl && st == in {
			switch {
			case hasS && i == s, hasE && i == e:
				st = out // a given end-point is excluded
			case !hasS && i == 1, (!hasE || e > n) && i == n:
				// the end of the list that was not named: docs ("exclude the
				// start and end search criteria") keep it, "both end-points are
				// excluded" could be read as dropping it
				st = opt
			}
		}
		status[i-1] = st
	}
	if excl {
		form += "e"
	}
	return status, form, true
}

// ---------------------------------------------------------------------------
// oracle

var forbidden = []string{"panic caught", "runtime error", "Murex has crashed", "goroutine "}

func parseOutput(typ string, b []byte) ([]string, error) {
	res := []string{}
	switch typ {
	case "str":
		s := string(b)
		if s == "" {
			return res, nil
		}
		s = strings.TrimSuffix(s, "\n")
		return strings.Split(s, "\n"), nil
	case "json":
		if len(bytes.TrimSpace(b)) == 0 {
			return res, nil
		}
		var a []string
		if err := json.Unmarshal(b, &a); err != nil {
			return nil, err
		}
		return append(res, a...), nil
	case "jsonl":
		for _, l := range bytes.Split(b, []byte("\n")) {
			if len(bytes.TrimSpace(l)) == 0 {
				continue
			}
			var s string
			if err := json.Unmarshal(l, &s); err != nil {
				return nil, err
			}
			res = append(res, s)
		}
		return res, nil
	}
	return nil, fmt.Errorf("bad type")
}

func check(c Case) *core.Violation {
	src := c.Source()
	r := core.RunStdin(src, c.Input(), c.Type)
	desc := func() string {
		return fmt.Sprintf("%s list %q through `%s`", c.Type, c.Items, src)
	}
	if r.Hung {
		return core.Violf("hang", "%s did not finish\n%s", desc(), r.Dump)
	}
	all := string(r.Stdout) + "\x00" + string(r.Stderr)
	if r.Err != nil {
		all += "\x00" + r.Err.Error()
	}
	for _, f := range forbidden {
		if strings.Contains(all, f) {
			return core.Violf("panic", "%s: output contains %q\nstdout=%q stderr=%q exit=%d err=%v", desc(), f, r.Stdout, r.Stderr, r.Exit, r.Err)
		}
	}
	status, form, stated := model(c)
	got, perr := parseOutput(c.Type, r.Stdout)
	if perr != nil {
		if r.Exit != 0 && !stated {
			return nil // failed cleanly on a form nothing is stated about
		}
		return core.Violf("unparsable", "%s: output is not a %s list: %v\nstdout=%q stderr=%q exit=%d", desc(), c.Type, perr, r.Stdout, r.Stderr, r.Exit)
	}
	// always: a subsequence of the input in input order
	pos := map[string]int{}
	for i, it := range c.Items {
		pos[it] = i
	}
	last := -1
	for _, g := range got {
		p, ok := pos[g]
		if !ok {
			return core.Violf("foreign-item", "%s: output item %q is not an input item\nstdout=%q", desc(), g, r.Stdout)
		}
		if p <= last {
			return core.Violf("order", "%s: output is not in input order (or repeats an item)\nstdout=%q", desc(), r.Stdout)
		}
		last = p
	}
	if !stated {
		return nil
	}
	present := make([]bool, len(c.Items))
	for _, g := range got {
		present[pos[g]] = true
	}
	var want, wantOpt []string
	for i, st := range status {
		switch st {
		case in:
			want = append(want, c.Items[i])
		case opt:
			wantOpt = append(wantOpt, c.Items[i])
		}
	}
	for i, st := range status {
		if st == in && !present[i] || st == out && present[i] {
			return core.Violf("slice", "%s (form %s, n=%d): want items %q (optional %q)\ngot %q\nstdout=%q stderr=%q exit=%d",
				desc(), form, len(c.Items), want, wantOpt, got, r.Stdout, r.Stderr, r.Exit)
		}
	}
	if len(got) > 0 && (r.Exit != 0 || len(r.Stderr) > 0) {
		return core.Violf("error-with-output", "%s (form %s): the right items were printed but the filter reported an error\nstdout=%q stderr=%q exit=%d",
			desc(), form, r.Stdout, r.Stderr, r.Exit)
	}
	// an empty selection may be reported as an error (json: an empty array is
	// "no data"); that is not stated either way
	return nil
}

// ---------------------------------------------------------------------------

func classify(c Case) core.Class {
	status, form, stated := model(c)
	n := len(c.Items)
	sel := 0
	for _, st := range status {
		if st == in {
			sel++
		}
	}
	cl := core.Class{
		Key:   fmt.Sprintf("%s|%d|%s|%s|%s|%v", c.Type, n, c.Start, c.End, c.Flags, c.Spaced),
		Label: c.Type + " " + form,
	}
	switch {
	case !stated:
		cl.Label += " (invariant only)"
	case n >= 3 && sel > 0 && sel < n:
		cl.NonTrivial = true
		cl.Label += " proper"
	case sel == 0:
		cl.Label += " empty"
	default:
		cl.Label += " whole/short"
	}
	return cl
}

func known(c Case, v *core.Violation) string { return "" }

var spec = core.Spec[Case]{
	ID: "C17", Gen: gen, Check: check, Classify: classify, Known: known,
	Sample: func(c Case) any {
		return map[string]any{"type": c.Type, "n": len(c.Items), "range": c.Source()}
	},
}

func TestProp(t *testing.T)   { core.RunProp(t, spec) }
func TestReplay(t *testing.T) { core.Replay(t, spec) }

// TestPropExhaustive enumerates n in 0..10 x start, end in {omitted, -5..15}
// x flags {"", "e"} x {str, json, jsonl}; sharded by n.
func TestPropExhaustive(t *testing.T) {
	shard, shards := core.EnvInt("VERIF_SHARD", 0), core.EnvInt("VERIF_SHARDS", 1)
	vals := []string{""}
	for i := -5; i <= 15; i++ {
		vals = append(vals, strconv.Itoa(i))
	}
	total := 0
	for n := 0; n <= 10; n++ {
		if n%shards != shard {
			continue
		}
		var items []string
		for i := 1; i <= n; i++ {
			items = append(items, fmt.Sprintf("it%d", i))
		}
		for _, typ := range []string{"str", "json", "jsonl"} {
			for _, fl := range []string{"", "e"} {
				for _, s := range vals {
					for _, e := range vals {
						c := Case{Type: typ, Items: items, Start: s, End: e, Flags: fl}
						total++
						if v := core.Eval(spec, c, true); v != nil {
							t.Fatalf("C17 violated: %s", v.Error())
						}
					}
				}
			}
		}
	}
	core.Count("exhaustive-cases", total)
	core.Note("exhaustive", "every range with start and end in {omitted, -5..15}, with and without the e flag, on lists of 0..10 items as str, json and jsonl (31944 cases); longer lists, bounds up to 40, the i flag and blank-padded spellings are sampled")
}
