// C25 — config values are scoped like variables.
//
// Domain: histories of `config set` / `config get` / `config default`
// (`!config`) operations over five test options (three non-global: str, int,
// bool; two global: str, int) defined once from Go, spread over 1–3 programs
// run one after the other in one session (each either at session level, i.e.
// on the shell's own config table as the interactive prompt does, or as a
// function scope of its own), up to three murex functions called from them and
// from each other, and if / else / switch / foreach / try bodies and `${ }`
// sub-shells inside any of these. Every `get` prints a unique tag.
// Oracle: scope model (one session table + one overlay per function call).
package c25

import (
	"fmt"
	"strconv"
	"strings"
	"testing"

	"github.com/lmorg/murex/config"
	"github.com/lmorg/murex/lang"
	"github.com/lmorg/murex/lang/ref"
	"github.com/lmorg/murex/lang/types"
	"pgregory.net/rapid"
	"verif/harness/core"
)

const app = "verifc25"

type option struct {
	key    string
	typ    string
	global bool
	def    any
	defStr string
}

var options = []option{
	{"ls", types.String, false, "dls", "dls"},
	{"li", types.Integer, false, 7, "7"},
	{"lb", types.Boolean, false, false, "false"},
	{"gs", types.String, true, "dgs", "dgs"},
	{"gi", types.Integer, true, 3, "3"},
}

func opt(key string) option {
	for _, o := range options {
		if o.key == key {
			return o
		}
	}
	panic("no option " + key)
}

var keys = []string{"ls", "li", "lb", "gs", "gi"}

func TestMain(m *testing.M) {
	core.InitMurex()
	for _, o := range options {
		config.InitConf.Define(app, o.key, config.Properties{
			Description: "verif C25 test option " + o.key,
			Default:     o.def,
			DataType:    o.typ,
			Global:      o.global,
		})
	}
	// vtag <tag>: prints "<tag>=<stdin without the trailing newline>"
	lang.DefineMethod("vtag", func(p *lang.Process) error {
		tag, _ := p.Parameters.String(0)
		b, _ := p.Stdin.ReadAll()
		p.Stdout.SetDataType(types.String)
		p.Stdout.Writeln([]byte(tag + "=" + strings.TrimRight(string(b), "\n")))
		return nil
	}, types.Any, types.String)
	core.Main(m, "C25")
}

// Op is one operation or one block of operations.
type Op struct {
	// K: set get default block call
	K string `json:"k"`
	// Form: default: default|bang   block: if|else|switch|foreach|foreach2|try|subshell
	Form string `json:"form,omitempty"`
	Key  string `json:"key,omitempty"`
	Val  string `json:"val,omitempty"`
	Tag  string `json:"tag,omitempty"`
	Body []Op   `json:"body,omitempty"`
	Fn   int    `json:"fn,omitempty"`
}

// Run is one top level program.
type Run struct {
	// Session: runs on the shell's own config table (what the interactive
	// prompt does); otherwise the program is a function scope of its own.
	Session bool `json:"session"`
	Ops     []Op `json:"ops"`
}

type Case struct {
	Fns  [][]Op `json:"fns"`
	Runs []Run  `json:"runs"`
}

func fname(i int) string { return "c25f" + strconv.Itoa(i) }

// ---------------------------------------------------------------------------
// generator

type gctx struct {
	fn, nfn int // fn = -1 at top level
	depth   int
	pool    []string
}

func genOps(t *rapid.T, g gctx, min, max int, label string) []Op {
	return rapid.SliceOfN(rapid.Custom(func(t *rapid.T) Op { return genOp(t, g) }), min, max).Draw(t, label)
}

func genOp(t *rapid.T, g gctx) Op {
	kinds := []string{"set", "set", "set", "default", "get", "get", "get", "get"}
	if g.depth < 3 {
		kinds = append(kinds, "block", "block")
	}
	if g.fn+1 < g.nfn {
		kinds = append(kinds, "call", "call", "call")
	}
	k := rapid.SampledFrom(kinds).Draw(t, "k")
	o := Op{K: k}
	switch k {
	case "set", "get":
		o.Key = rapid.SampledFrom(g.pool).Draw(t, "key")
	case "default":
		o.Key = rapid.SampledFrom(g.pool).Draw(t, "key")
		o.Form = rapid.SampledFrom([]string{"default", "bang"}).Draw(t, "form")
	case "block":
		o.Form = rapid.SampledFrom([]string{"if", "else", "switch", "foreach", "foreach2", "try", "subshell"}).Draw(t, "form")
		in := g
		in.depth++
		o.Body = genOps(t, in, 1, 4, "body")
	case "call":
		o.Fn = rapid.IntRange(g.fn+1, g.nfn-1).Draw(t, "fn")
	}
	return o
}

func gen(t *rapid.T) Case {
	var c Case
	nfn := rapid.IntRange(0, 3).Draw(t, "nfn")
	hot := rapid.SampledFrom(keys).Draw(t, "hot")
	pool := append([]string{hot, hot, hot, hot}, keys...)
	for f := 0; f < nfn; f++ {
		c.Fns = append(c.Fns, genOps(t, gctx{fn: f, nfn: nfn, depth: 1, pool: pool}, 1, 6, "fn"))
	}
	nrun := rapid.IntRange(1, 3).Draw(t, "nrun")
	for r := 0; r < nrun; r++ {
		c.Runs = append(c.Runs, Run{
			Session: rapid.Bool().Draw(t, "session"),
			Ops:     genOps(t, gctx{fn: -1, nfn: nfn, depth: 1, pool: pool}, 1, 8, "run"),
		})
	}
	// unique values and tags, in source order
	nv, nt := 0, 0
	var walk func(b []Op)
	walk = func(b []Op) {
		for i := range b {
			switch b[i].K {
			case "set":
				nv++
				switch opt(b[i].Key).typ {
				case types.String:
					b[i].Val = "s" + strconv.Itoa(nv)
				case types.Integer:
					b[i].Val = strconv.Itoa(100 + nv)
				default:
					b[i].Val = strconv.FormatBool(nv%2 == 1)
				}
			case "get":
				nt++
				b[i].Tag = "G" + strconv.Itoa(nt)
			}
			walk(b[i].Body)
		}
	}
	for f := range c.Fns {
		walk(c.Fns[f])
	}
	for r := range c.Runs {
		walk(c.Runs[r].Ops)
	}
	return c
}

// ---------------------------------------------------------------------------
// printer

func writeOps(b *strings.Builder, ops []Op, ind string) {
	for _, o := range ops {
		b.WriteString(ind)
		switch o.K {
		case "set":
			b.WriteString("config set " + app + " " + o.Key + " " + o.Val)
		case "get":
			b.WriteString("config get " + app + " " + o.Key + " -> vtag " + o.Tag)
		case "default":
			if o.Form == "bang" {
				b.WriteString("!config " + app + " " + o.Key)
			} else {
				b.WriteString("config default " + app + " " + o.Key)
			}
		case "call":
			b.WriteString(fname(o.Fn))
		case "block":
			switch o.Form {
			case "if":
				b.WriteString("if { true } then {\n")
			case "else":
				b.WriteString("if { false } then { out NEVER } else {\n")
			case "switch":
				b.WriteString("switch {\n" + ind + "case { true } then {\n")
			case "foreach":
				b.WriteString("%[1] -> foreach c25i {\n")
			case "foreach2":
				b.WriteString("%[1,2] -> foreach c25i {\n")
			case "try":
				b.WriteString("try {\n")
			case "subshell":
				b.WriteString("out ${\n")
			}
			writeOps(b, o.Body, ind+"  ")
			b.WriteString(ind + "}")
			if o.Form == "switch" {
				b.WriteString("\n" + ind + "}")
			}
		}
		b.WriteString("\n")
	}
}

func (c Case) defs() string {
	var b strings.Builder
	for f := range c.Fns {
		b.WriteString("function " + fname(f) + " {\n")
		writeOps(&b, c.Fns[f], "  ")
		b.WriteString("}\n")
	}
	return b.String()
}

func (c Case) runSrc(r int) string {
	var b strings.Builder
	writeOps(&b, c.Runs[r].Ops, "")
	return b.String()
}

// ---------------------------------------------------------------------------
// scope model

type model struct {
	c       Case
	session map[string]string
	out     []string
	acts    int
	over    bool

	setters map[string]map[int]bool // key -> activations that wrote it (set or default)

	// classification
	otherFrame, callerOverlayHidden, calleeGone, globalAcross, defaultScoped int
}

type frame struct {
	id      int
	session bool
	overlay map[string]string
	parent  *frame
	// children that have finished and had written a local overlay of the key
	finishedWrote map[string]bool
}

const maxLines = 600

func (m *model) emit(s string) {
	if len(m.out) >= maxLines {
		m.over = true
		return
	}
	m.out = append(m.out, s)
}

func (m *model) newFrame(session bool, parent *frame) *frame {
	m.acts++
	return &frame{id: m.acts, session: session, overlay: map[string]string{}, parent: parent, finishedWrote: map[string]bool{}}
}

func (m *model) write(f *frame, key, val string, isDefault bool) {
	if m.setters[key] == nil {
		m.setters[key] = map[int]bool{}
	}
	m.setters[key][f.id] = true
	if opt(key).global || f.session {
		// global options and settings made at session level are seen everywhere
		m.session[key] = val
		return
	}
	f.overlay[key] = val
	if isDefault {
		m.defaultScoped++
	}
}

func (m *model) exec(ops []Op, f *frame) {
	for _, o := range ops {
		if m.over {
			return
		}
		switch o.K {
		case "set":
			m.write(f, o.Key, o.Val, false)
		case "default":
			m.write(f, o.Key, opt(o.Key).defStr, true)
		case "get":
			for w := range m.setters[o.Key] {
				if w != f.id {
					m.otherFrame++
					break
				}
			}
			for p := f.parent; p != nil; p = p.parent {
				if _, ok := p.overlay[o.Key]; ok {
					m.callerOverlayHidden++
					break
				}
			}
			if f.finishedWrote[o.Key] {
				m.calleeGone++
			}
			if opt(o.Key).global {
				for w := range m.setters[o.Key] {
					if w != f.id {
						m.globalAcross++
						break
					}
				}
			}
			if v, ok := f.overlay[o.Key]; ok && !f.session {
				m.emit(o.Tag + "=" + v)
			} else {
				m.emit(o.Tag + "=" + m.session[o.Key])
			}
		case "block":
			// blocks share their function's settings
			m.exec(o.Body, f)
			if o.Form == "foreach2" {
				m.exec(o.Body, f)
			}
		case "call":
			// a call starts from the session values, not from its caller's
			ch := m.newFrame(false, f)
			m.exec(m.c.Fns[o.Fn], ch)
			for k := range ch.overlay {
				f.finishedWrote[k] = true
			}
			for k := range ch.finishedWrote {
				f.finishedWrote[k] = true
			}
		}
	}
}

func runModel(c Case) (*model, [][]string) {
	m := &model{c: c, session: map[string]string{}, setters: map[string]map[int]bool{}}
	for _, o := range options {
		m.session[o.key] = o.defStr
	}
	var per [][]string
	for r := range c.Runs {
		m.out = nil
		m.exec(c.Runs[r].Ops, m.newFrame(c.Runs[r].Session, nil))
		per = append(per, m.out)
	}
	return m, per
}

// ---------------------------------------------------------------------------

func lines(s string) []string {
	var out []string
	for _, l := range strings.Split(s, "\n") {
		if l != "" { // `out ${ }` of a silent sub-shell prints an empty line
			out = append(out, l)
		}
	}
	return out
}

var resetRef = &ref.File{Source: &ref.Source{Module: "verif/c25"}}

func check(c Case) *core.Violation {
	m, want := runModel(c)
	if m.over {
		core.Count("skipped_too_long", 1)
		return nil
	}
	for _, o := range options {
		if err := config.InitConf.Default(app, o.key, resetRef); err != nil {
			return core.Violf("reset", "cannot reset %s: %v", o.key, err)
		}
	}
	defs := c.defs()
	if defs != "" {
		if r := core.Run(defs); r.Hung || r.Err != nil || r.Exit != 0 {
			return core.Violf("defs", "function definitions failed: exit=%d err=%v stderr=%q\n%s", r.Exit, r.Err, r.Stderr, defs)
		}
	}
	for i := range c.Runs {
		src := c.runSrc(i)
		var o core.RunOpts
		level := "function scope"
		if c.Runs[i].Session {
			level = "session level"
			o.Prepare = func(f *lang.Fork) { f.Config = lang.ShellProcess.Config }
		}
		r := core.RunWith(src, o)
		if r.Hung {
			return core.Violf("hang", "program did not finish\n%s", src)
		}
		got := lines(string(r.Stdout))
		if strings.Join(got, " ") != strings.Join(want[i], " ") || len(r.Stderr) != 0 {
			return core.Violf("mismatch", "functions:\n%s\nprogram %d of %d (%s; earlier ones ran before it in the same session):\n%s\nwant gets: %s\ngot  gets: %s\nstderr=%q exit=%d err=%v",
				defs, i+1, len(c.Runs), level, src, strings.Join(want[i], " "), strings.Join(got, " "), r.Stderr, r.Exit, r.Err)
		}
	}
	return nil
}

func classify(c Case) core.Class {
	m, _ := runModel(c)
	cl := core.Class{}
	if m.over {
		cl.Label = "too-long(skipped)"
		return cl
	}
	cl.NonTrivial = m.otherFrame > 0
	var parts []string
	if m.callerOverlayHidden > 0 {
		parts = append(parts, "callee-does-not-see-caller-overlay")
	}
	if m.calleeGone > 0 {
		parts = append(parts, "caller-after-callee-set")
	}
	if m.globalAcross > 0 {
		parts = append(parts, "global-option-across-calls")
	}
	if m.defaultScoped > 0 && cl.NonTrivial {
		parts = append(parts, "default-in-call")
	}
	switch {
	case !cl.NonTrivial:
		cl.Label = "trivial"
	case len(parts) == 0:
		cl.Label = "set-in-other-frame"
	default:
		cl.Label = strings.Join(parts, "+")
	}
	return cl
}

func known(c Case, v *core.Violation) string { return "" }

var spec = core.Spec[Case]{
	ID: "C25", Gen: gen, Check: check, Classify: classify, Known: known,
	Sample: func(c Case) any {
		s := c.defs()
		for i := range c.Runs {
			lvl := "function scope"
			if c.Runs[i].Session {
				lvl = "session level"
			}
			s += fmt.Sprintf("# program %d (%s)\n%s", i+1, lvl, c.runSrc(i))
		}
		return s
	},
}

func TestProp(t *testing.T)   { core.RunProp(t, spec) }
func TestReplay(t *testing.T) { core.Replay(t, spec) }
