// C13 — Scalar values survive conversion to and from strings.
//
// Domain: integers of magnitude below 2^53 (dense near 0, ±2^31, ±2^32, the
// limit, powers of ten and two), finite float64 values (raw bit patterns,
// subnormals, −0, near-max, integers above 2^53, decimal strings of up to 17
// significant digits), booleans.
//
// Oracle (round trip):
//
//	api  types.ConvertGoType(v, str) and back to int / num / float / bool gives
//	     the identical value (floats by bits, so −0 must survive).
//	var  `set int|num|float|bool x = <string form>` through murex: the stored
//	     value is the original one, `out $x` prints text that converts back to
//	     it, and in an expression `$x == <literal>` is true and `$x * 1` (or
//	     + 0, - 0, / 1) is the IEEE result for the original number.
package c13

import (
	"fmt"
	"math"
	"strconv"
	"strings"
	"testing"

	"github.com/lmorg/murex/lang"
	"github.com/lmorg/murex/lang/types"
	"pgregory.net/rapid"
	"verif/harness/core"
)

func TestMain(m *testing.M) {
	core.InitMurex()
	core.Main(m, "C13")
}

const maxInt = int64(1)<<53 - 1 // "magnitude below 2^53"

type Case struct {
	Kind string `json:"kind"`           // int | float | bool
	I    int64  `json:"i,omitempty"`    // int value
	Bits uint64 `json:"bits,omitempty"` // float value (IEEE bits)
	Text string `json:"text,omitempty"` // human-readable form of the float (informational)
	B    bool   `json:"b,omitempty"`
	Mode string `json:"mode"`           // api | var
	Type string `json:"type,omitempty"` // var: declared type (int num float bool)
	Op   string `json:"op,omitempty"`   // var: neutral operation used in the expression
}

func (c Case) float() float64 { return math.Float64frombits(c.Bits) }

// ---------------------------------------------------------------------------
// generator

func clampInt(i int64) int64 {
	if i > maxInt {
		return maxInt
	}
	if i < -maxInt {
		return -maxInt
	}
	return i
}

func genInt(t *rapid.T) int64 {
	var i int64
	d := int64(rapid.IntRange(-3, 3).Draw(t, "delta"))
	switch rapid.IntRange(0, 7).Draw(t, "intkind") {
	case 0:
		i = int64(rapid.IntRange(-20, 20).Draw(t, "small"))
	case 1:
		i = int64(1)<<31 + d
	case 2:
		i = int64(1)<<32 + d
	case 3:
		i = maxInt - int64(rapid.IntRange(0, 1000).Draw(t, "below"))
	case 4:
		p := int64(1)
		for k := rapid.IntRange(0, 15).Draw(t, "pow10"); k > 0; k-- {
			p *= 10
		}
		i = p + d
	case 5:
		i = int64(1)<<uint(rapid.IntRange(0, 52).Draw(t, "pow2")) + d
	case 6:
		// by number of digits
		n := rapid.IntRange(1, 16).Draw(t, "ndigits")
		for k := 0; k < n; k++ {
			i = i*10 + int64(rapid.IntRange(0, 9).Draw(t, "digit"))
		}
	default:
		i = rapid.Int64Range(-maxInt, maxInt).Draw(t, "uniform")
	}
	if rapid.Bool().Draw(t, "negative") {
		i = -i
	}
	return clampInt(i)
}

var specialFloats = []float64{
	0, math.Copysign(0, -1), 1, -1, 0.1, 0.2, 0.3, 1.0 / 3, 2.0 / 3, 0.1 + 0.2, 1e21, 1e22, 1e23, 9.999999999999999e20, 1e-7, 1e-6, 9.999999999999999e-8,
	math.SmallestNonzeroFloat64, -math.SmallestNonzeroFloat64, math.MaxFloat64, -math.MaxFloat64,
	2.2250738585072014e-308, 2.225073858507201e-308, 4.9406564584124654e-324, 1.7976931348623157e308,
	9007199254740992, 9007199254740993, 9007199254740994, 18014398509481984, 1e15, 1e16, 1e17, 123456789012345678,
	5e-324, 1e-323, 1.5, 2.5, 0.5, 1e100, 1e-100, 3.141592653589793, 2.718281828459045, 4.35, 0.15, 1.005, 8.41, 5.0e-7,
	float64(math.MaxInt64), float64(math.MinInt64), 4294967296.5, 0.30000000000000004, 100, 1e300 * 10,
}

// mantissa draws 52 bits in four chunks (rapid biases every single integer
// draw towards small values; four chunks give dense bit patterns).
func mantissa(t *rapid.T) uint64 {
	var m uint64
	for i := 0; i < 4; i++ {
		m = m<<13 | uint64(rapid.IntRange(0, 1<<13-1).Draw(t, "mant13"))
	}
	return m
}

func genFloat(t *rapid.T) float64 {
	var f float64
	switch rapid.IntRange(0, 8).Draw(t, "floatkind") {
	case 0, 1:
		// raw bit pattern with a finite exponent field
		exp := uint64(rapid.IntRange(0, 2046).Draw(t, "exp"))
		man := mantissa(t)
		f = math.Float64frombits(exp<<52 | man)
	case 2:
		f = rapid.SampledFrom(specialFloats).Draw(t, "special")
	case 3:
		// subnormal
		if rapid.Bool().Draw(t, "dense") {
			f = math.Float64frombits(mantissa(t) | 1)
		} else {
			f = math.Float64frombits(rapid.Uint64Range(1, 1<<52-1).Draw(t, "subnormal"))
		}
	case 4:
		// near the largest finite values
		f = math.Float64frombits(uint64(2046)<<52 | mantissa(t))
	case 5:
		// integers above 2^53
		f = float64(rapid.Int64Range(1<<53, math.MaxInt64).Draw(t, "bigint"))
	case 6:
		// decimal text with up to 17 significant digits
		n := rapid.IntRange(1, 17).Draw(t, "sig")
		var b strings.Builder
		b.WriteByte(byte('1' + rapid.IntRange(0, 8).Draw(t, "lead")))
		for k := 1; k < n; k++ {
			b.WriteByte(byte('0' + rapid.IntRange(0, 9).Draw(t, "digit")))
		}
		s := b.String() + "e" + strconv.Itoa(rapid.IntRange(-40, 40).Draw(t, "exp10")-n)
		f, _ = strconv.ParseFloat(s, 64)
	case 7:
		// small rationals
		f = float64(rapid.IntRange(-1000, 1000).Draw(t, "num")) / float64(rapid.IntRange(1, 1000).Draw(t, "den"))
	default:
		// ordinary magnitudes: exponent field near the bias
		exp := uint64(rapid.IntRange(1023-60, 1023+70).Draw(t, "exp"))
		man := mantissa(t)
		f = math.Float64frombits(exp<<52 | man)
	}
	if rapid.IntRange(0, 3).Draw(t, "negative") == 0 {
		f = -f
	}
	if math.IsInf(f, 0) || math.IsNaN(f) {
		f = math.MaxFloat64
	}
	return f
}

var neutralOps = []string{"* 1", "+ 0", "- 0", "/ 1"}

func gen(t *rapid.T) Case {
	var c Case
	switch k := rapid.IntRange(0, 39).Draw(t, "kind"); {
	case k == 20:
		c.Kind = "bool"
		c.B = rapid.Bool().Draw(t, "b")
	case k > 20:
		c.Kind = "int"
		c.I = genInt(t)
	default:
		c.Kind = "float"
		f := genFloat(t)
		c.Bits = math.Float64bits(f)
		c.Text = strconv.FormatFloat(f, 'g', -1, 64)
	}
	c.Mode = rapid.SampledFrom([]string{"api", "var"}).Draw(t, "mode")
	if c.Mode == "var" {
		switch c.Kind {
		case "bool":
			c.Type = types.Boolean
		case "int":
			c.Type = rapid.SampledFrom([]string{types.Integer, types.Integer, types.Number, types.Float}).Draw(t, "type")
		default:
			c.Type = rapid.SampledFrom([]string{types.Number, types.Float}).Draw(t, "type")
		}
		if c.Kind != "bool" {
			c.Op = rapid.SampledFrom(neutralOps).Draw(t, "op")
		}
	}
	return c
}

// ---------------------------------------------------------------------------
// check

func fbits(f float64) string {
	return fmt.Sprintf("%s (bits %016x)", strconv.FormatFloat(f, 'g', -1, 64), math.Float64bits(f))
}

func sameBits(a, b float64) bool { return math.Float64bits(a) == math.Float64bits(b) }

// original returns the Go value the case is about.
func (c Case) original() any {
	switch c.Kind {
	case "int":
		return int(c.I)
	case "float":
		return c.float()
	default:
		return c.B
	}
}

func stringForm(v any) (string, *core.Violation) {
	s, err := types.ConvertGoType(v, types.String)
	if err != nil {
		return "", core.Violf("error", "ConvertGoType(%#v, str) failed: %v", v, err)
	}
	str, ok := s.(string)
	if !ok {
		return "", core.Violf("type", "ConvertGoType(%#v, str) returned %#v (%T), not a string", v, s, s)
	}
	return str, nil
}

// back converts text to dataType with murex's own converter and compares the
// result with the original value.
func back(text string, dataType string, c Case, where string) *core.Violation {
	got, err := types.ConvertGoType(text, dataType)
	if err != nil {
		return core.Violf("error", "%s: ConvertGoType(%q, %s) failed: %v", where, text, dataType, err)
	}
	switch c.Kind {
	case "int":
		switch dataType {
		case types.Integer:
			if i, ok := got.(int); !ok || int64(i) != c.I {
				return core.Violf("value", "%s: int %d → %q → %s gives %#v (%T)", where, c.I, text, dataType, got, got)
			}
		default:
			if f, ok := got.(float64); !ok || !sameBits(f, float64(c.I)) {
				return core.Violf("value", "%s: int %d → %q → %s gives %#v (%T)", where, c.I, text, dataType, got, got)
			}
		}
	case "float":
		if f, ok := got.(float64); !ok || !sameBits(f, c.float()) {
			gf, _ := got.(float64)
			return core.Violf("value", "%s: float %s → %q → %s gives %#v (%T) %s", where, fbits(c.float()), text, dataType, got, got, fbits(gf))
		}
	case "bool":
		if b, ok := got.(bool); !ok || b != c.B {
			return core.Violf("value", "%s: bool %v → %q → %s gives %#v (%T)", where, c.B, text, dataType, got, got)
		}
	}
	return nil
}

func checkAPI(c Case) *core.Violation {
	s, v := stringForm(c.original())
	if v != nil {
		return v
	}
	var targets []string
	switch c.Kind {
	case "int":
		targets = []string{types.Integer, types.Number, types.Float}
	case "float":
		targets = []string{types.Number, types.Float}
	default:
		targets = []string{types.Boolean}
	}
	for _, dt := range targets {
		if v := back(s, dt, c, "ConvertGoType round trip"); v != nil {
			return v
		}
	}
	return nil
}

func checkVar(c Case) *core.Violation {
	s, v := stringForm(c.original())
	if v != nil {
		return v
	}
	var prog string
	if c.Kind == "bool" {
		prog = fmt.Sprintf("set bool c13x = %s\nout $c13x\nc13w = ($c13x == %s)\n", s, s)
	} else {
		prog = fmt.Sprintf("set %s c13x = %s\nout $c13x\nc13y = $c13x %s\nc13w = ($c13x == %s)\n", c.Type, s, c.Op, s)
	}
	var fk *lang.Fork
	r := core.RunWith(prog, core.RunOpts{Prepare: func(f *lang.Fork) { fk = f }})
	if r.Hung {
		return core.Violf("hang", "program did not finish:\n%s", prog)
	}
	if r.Err != nil || len(r.Stderr) != 0 || r.Exit != 0 {
		return core.Violf("error", "program failed: err=%v exit=%d stderr=%q stdout=%q\n%s", r.Err, r.Exit, r.Stderr, r.Stdout, prog)
	}
	// 1. the stored value
	x, err := fk.Variables.GetValue("c13x")
	if err != nil {
		return core.Violf("error", "cannot read c13x: %v\n%s", err, prog)
	}
	if dt := fk.Variables.GetDataType("c13x"); dt != c.Type {
		return core.Violf("type", "`set %s c13x = %s`: data type is %s", c.Type, s, dt)
	}
	var num float64 // the number the variable must hold
	switch {
	case c.Kind == "bool":
		if b, ok := x.(bool); !ok || b != c.B {
			return core.Violf("value", "`set bool c13x = %s` stored %#v (%T)", s, x, x)
		}
	case c.Type == types.Integer:
		if i, ok := x.(int); !ok || int64(i) != c.I {
			return core.Violf("value", "`set int c13x = %s` stored %#v (%T)", s, x, x)
		}
		num = float64(c.I)
	default:
		num = c.float()
		if c.Kind == "int" {
			num = float64(c.I)
		}
		if f, ok := x.(float64); !ok || !sameBits(f, num) {
			gf, _ := x.(float64)
			return core.Violf("value", "`set %s c13x = %s` stored %#v (%T) %s, want %s", c.Type, s, x, x, fbits(gf), fbits(num))
		}
	}
	// 2. `$var` read back as text converts back to the value
	text := strings.TrimSuffix(string(r.Stdout), "\n")
	if v := back(text, c.Type, c, fmt.Sprintf("`set %s c13x = %s; out $c13x`", c.Type, s)); v != nil {
		return v
	}
	// 3. used in an expression
	w, err := fk.Variables.GetValue("c13w")
	if err != nil {
		return core.Violf("error", "cannot read c13w: %v\n%s", err, prog)
	}
	if b, ok := w.(bool); !ok || !b {
		return core.Violf("expr-eq", "after `set %s c13x = %s`, ($c13x == %s) is %#v (%T)", c.Type, s, s, w, w)
	}
	if c.Kind == "bool" {
		return nil
	}
	var want float64
	switch c.Op {
	case "* 1":
		want = float64(num * 1)
	case "+ 0":
		want = float64(num + 0)
	case "- 0":
		want = float64(num - 0)
	case "/ 1":
		want = float64(num / 1)
	}
	y, err := fk.Variables.GetValue("c13y")
	if err != nil {
		return core.Violf("error", "cannot read c13y: %v\n%s", err, prog)
	}
	if f, ok := y.(float64); !ok || !sameBits(f, want) {
		gf, _ := y.(float64)
		return core.Violf("expr-value", "after `set %s c13x = %s`, $c13x %s is %#v (%T) %s, want %s", c.Type, s, c.Op, y, y, fbits(gf), fbits(want))
	}
	return nil
}

func check(c Case) *core.Violation {
	switch c.Kind {
	case "int":
		if c.I > maxInt || c.I < -maxInt {
			panic("integer outside the domain")
		}
	case "float":
		if f := c.float(); math.IsNaN(f) || math.IsInf(f, 0) {
			panic("non-finite float outside the domain")
		}
	}
	if c.Mode == "api" {
		return checkAPI(c)
	}
	return checkVar(c)
}

// ---------------------------------------------------------------------------
// classification

func sigDigits(f float64) int {
	s := strconv.FormatFloat(math.Abs(f), 'e', -1, 64)
	s = s[:strings.IndexByte(s, 'e')]
	return len(strings.ReplaceAll(s, ".", ""))
}

func classify(c Case) core.Class {
	var cl core.Class
	switch c.Kind {
	case "bool":
		cl.Label = "bool"
		cl.Key = fmt.Sprintf("bool|%v|%s", c.B, c.Mode)
		cl.NonTrivial = false
	case "int":
		a := c.I
		if a < 0 {
			a = -a
		}
		switch {
		case a >= maxInt-1000:
			cl.Label = "int:near-2^53"
		case a >= 1<<31:
			cl.Label = "int:>=2^31"
		default:
			cl.Label = "int:<2^31"
		}
		cl.NonTrivial = a >= 1<<31
		cl.Key = fmt.Sprintf("int|%d|%s|%s", c.I, c.Mode, c.Type)
	default:
		f := c.float()
		a := math.Abs(f)
		switch {
		case f == 0 && math.Signbit(f):
			cl.Label = "float:-0"
			cl.NonTrivial = true
		case f == 0:
			cl.Label = "float:0"
		case a < 2.2250738585072014e-308:
			cl.Label = "float:subnormal"
			cl.NonTrivial = true
		case a > 1e21:
			cl.Label = "float:>1e21"
			cl.NonTrivial = true
		case a < 1e-7:
			cl.Label = "float:<1e-7"
			cl.NonTrivial = true
		case sigDigits(f) >= 16:
			cl.Label = "float:>=16-digits"
			cl.NonTrivial = true
		default:
			cl.Label = "float:short"
		}
		cl.Key = fmt.Sprintf("float|%016x|%s|%s", c.Bits, c.Mode, c.Type)
	}
	cl.Label += "/" + c.Mode
	return cl
}

func known(c Case, v *core.Violation) string { return "" }

var spec = core.Spec[Case]{
	ID: "C13", Gen: gen, Check: check, Classify: classify, Known: known,
	Sample: func(c Case) any {
		switch c.Kind {
		case "int":
			return fmt.Sprintf("%s %s int %d", c.Mode, c.Type, c.I)
		case "float":
			return fmt.Sprintf("%s %s float %s", c.Mode, c.Type, fbits(c.float()))
		}
		return fmt.Sprintf("%s bool %v", c.Mode, c.B)
	},
}

func TestProp(t *testing.T)   { core.RunProp(t, spec) }
func TestReplay(t *testing.T) { core.Replay(t, spec) }
