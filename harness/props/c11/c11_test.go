// C11 — variables are scoped per function call; globals are shared.
//
// Domain: histories of set / unset / read operations on three names, local
// and global forms mixed, spread over 1–2 top level programs (each its own
// function scope, run one after the other in the same session), up to three
// murex functions called from them (and from each other), and `if`, `else`,
// `switch`, `foreach`, `try` bodies and `${ }` sub-shells inside any of these.
// Every written value is a unique token, every read prints a unique tag.
// Oracle: scope-stack model (one table per function call, one global table).
package c11

import (
	"fmt"
	"strconv"
	"strings"
	"testing"

	"github.com/lmorg/murex/lang"
	"github.com/lmorg/murex/lang/types"
	"pgregory.net/rapid"
	"verif/harness/core"
)

var names = []string{"c11a", "c11b", "c11c"}

func TestMain(m *testing.M) {
	core.InitMurex()
	// vread <tag> <name> [value]: prints "<tag>=<value>" or "<tag>=UNDEF"
	// through Variables.GetString (the lookup `$name` inside a string uses) or
	// Variables.GetValue.
	lang.DefineFunction("vread", func(p *lang.Process) error {
		tag, _ := p.Parameters.String(0)
		name, _ := p.Parameters.String(1)
		p.Stdout.SetDataType(types.String)
		how, _ := p.Parameters.String(2)
		var s string
		var err error
		if how == "value" {
			// Variables.GetValue: the lookup expressions use for typed values
			var v any
			v, err = p.Variables.GetValue(name)
			if err == nil {
				s = fmt.Sprint(v)
			}
		} else {
			s, err = p.Variables.GetString(name)
		}
		if err != nil {
			if strings.Contains(err.Error(), lang.ErrDoesNotExist) ||
				(strings.HasPrefix(name, "GLOBAL.") && strings.Contains(err.Error(), "not found")) {
				s = "UNDEF"
			} else {
				s = "ERR(" + err.Error() + ")"
			}
		}
		p.Stdout.Writeln([]byte(tag + "=" + s))
		return nil
	}, types.String)
	// vnop: does nothing, succeeds (alternative of an unset that fails because
	// there is nothing to unset).
	lang.DefineFunction("vnop", func(p *lang.Process) error {
		p.Stdout.SetDataType(types.Null)
		return nil
	}, types.Null)
	core.Main(m, "C11")
}

// Op is one operation or one block of operations.
type Op struct {
	// K: set gset unset gunset read gread block call
	K string `json:"k"`
	// Form: set: set|expr|dexpr  gset: global|expr  read/gread: mx|api|apiv|copy
	//       block: if|else|switch|foreach|foreach2|try|subshell
	Form string `json:"form,omitempty"`
	Name string `json:"name,omitempty"`
	Val  string `json:"val,omitempty"`
	Num  bool   `json:"num,omitempty"` // set/gset: the value is a number
	Tag  string `json:"tag,omitempty"`
	Body []Op   `json:"body,omitempty"`
	Fn   int    `json:"fn,omitempty"`
}

// Case: Fns are function bodies, Runs the top level programs.
type Case struct {
	Fns  [][]Op `json:"fns"`
	Runs [][]Op `json:"runs"`
}

func fname(i int) string { return "c11f" + strconv.Itoa(i) }

// ---------------------------------------------------------------------------
// generator

type gctx struct {
	fn, nfn int // fn = -1 at top level
	depth   int
	pool    []string // names to draw from: one name of the case is favoured
	inTry   bool     // inside a try body (blocks nested in it inherit the run mode)
	// whether the local / global values of a name are numbers: fixed per case,
	// because `$GLOBAL.x = "text"` on a global holding an int is a type error
	// (element update semantics, not the subject here)
	numL, numG map[string]bool
}

func genOps(t *rapid.T, g gctx, min, max int, label string) []Op {
	return rapid.SliceOfN(rapid.Custom(func(t *rapid.T) Op { return genOp(t, g) }), min, max).Draw(t, label)
}

func genOp(t *rapid.T, g gctx) Op {
	kinds := []string{"set", "set", "gset", "gset", "unset", "unset", "gunset", "read", "read", "read", "read", "gread"}
	if g.depth < 3 {
		kinds = append(kinds, "block", "block")
	}
	if g.fn+1 < g.nfn {
		kinds = append(kinds, "call", "call")
	}
	k := rapid.SampledFrom(kinds).Draw(t, "k")
	o := Op{K: k}
	switch k {
	case "set":
		o.Form = rapid.SampledFrom([]string{"set", "expr", "dexpr"}).Draw(t, "form")
		o.Name = rapid.SampledFrom(g.pool).Draw(t, "name")
		o.Num = g.numL[o.Name]
	case "gset":
		o.Form = rapid.SampledFrom([]string{"global", "expr"}).Draw(t, "form")
		o.Name = rapid.SampledFrom(g.pool).Draw(t, "name")
		o.Num = g.numG[o.Name]
	case "unset", "gunset":
		o.Name = rapid.SampledFrom(g.pool).Draw(t, "name")
	case "read", "gread":
		forms := []string{"mx", "api", "apiv"}
		if !g.inTry {
			// the copy form has a statement that fails on an undefined
			// variable, which would end a try block
			forms = append(forms, "copy")
		}
		o.Form = rapid.SampledFrom(forms).Draw(t, "form")
		o.Name = rapid.SampledFrom(g.pool).Draw(t, "name")
	case "block":
		o.Form = rapid.SampledFrom([]string{"if", "else", "switch", "foreach", "foreach2", "try", "subshell"}).Draw(t, "form")
		in := g
		in.depth++
		if o.Form == "try" {
			in.inTry = true
		}
		o.Body = genOps(t, in, 1, 4, "body")
	case "call":
		o.Fn = rapid.IntRange(g.fn+1, g.nfn-1).Draw(t, "fn")
	}
	return o
}

func gen(t *rapid.T) Case {
	var c Case
	nfn := rapid.IntRange(0, 3).Draw(t, "nfn")
	hot := rapid.SampledFrom(names).Draw(t, "hot")
	pool := append([]string{hot, hot, hot, hot}, names...)
	numL, numG := map[string]bool{}, map[string]bool{}
	for _, n := range names {
		numL[n] = rapid.IntRange(0, 2).Draw(t, "numL") == 0
		numG[n] = rapid.IntRange(0, 2).Draw(t, "numG") == 0
	}
	for f := 0; f < nfn; f++ {
		c.Fns = append(c.Fns, genOps(t, gctx{fn: f, nfn: nfn, depth: 1, pool: pool, numL: numL, numG: numG}, 1, 6, "fn"))
	}
	nrun := rapid.IntRange(1, 2).Draw(t, "nrun")
	for r := 0; r < nrun; r++ {
		c.Runs = append(c.Runs, genOps(t, gctx{fn: -1, nfn: nfn, depth: 1, pool: pool, numL: numL, numG: numG}, 1, 8, "run"))
	}
	// unique values and tags, in source order
	nv, nt := 0, 0
	var walk func(b []Op)
	walk = func(b []Op) {
		for i := range b {
			switch b[i].K {
			case "set", "gset":
				nv++
				if b[i].Num {
					b[i].Val = strconv.Itoa(1000 + nv)
				} else {
					b[i].Val = "v" + strconv.Itoa(nv)
				}
			case "read", "gread":
				nt++
				b[i].Tag = "R" + strconv.Itoa(nt)
			}
			walk(b[i].Body)
		}
	}
	for f := range c.Fns {
		walk(c.Fns[f])
	}
	for r := range c.Runs {
		walk(c.Runs[r])
	}
	return c
}

// ---------------------------------------------------------------------------
// printer

func writeOps(b *strings.Builder, ops []Op, ind string) {
	for _, o := range ops {
		b.WriteString(ind)
		switch o.K {
		case "set":
			lit := `"` + o.Val + `"`
			typ := ""
			if o.Num {
				lit, typ = o.Val, "int "
			}
			switch o.Form {
			case "set":
				b.WriteString("set " + typ + o.Name + "=" + o.Val)
			case "expr":
				b.WriteString(o.Name + " = " + lit)
			default:
				b.WriteString("$" + o.Name + " = " + lit)
			}
		case "gset":
			if o.Form == "global" {
				typ := ""
				if o.Num {
					typ = "int "
				}
				b.WriteString("global " + typ + o.Name + "=" + o.Val)
			} else if o.Num {
				b.WriteString("$GLOBAL." + o.Name + " = " + o.Val)
			} else {
				b.WriteString("$GLOBAL." + o.Name + ` = "` + o.Val + `"`)
			}
		case "unset":
			// fails when there is nothing to unset; that is not the subject
			b.WriteString("!set " + o.Name + " || vnop")
		case "gunset":
			b.WriteString("!global " + o.Name + " || vnop")
		case "read", "gread":
			n := o.Name
			if o.K == "gread" {
				n = "GLOBAL." + n
			}
			switch o.Form {
			case "api":
				b.WriteString("vread " + o.Tag + " " + n)
			case "apiv":
				b.WriteString("vread " + o.Tag + " " + n + " value")
			case "copy":
				// the variable as an expression value (typed lookup); a failed
				// assignment leaves the marker in place
				b.WriteString(`c11r = "UNDEF"; c11r = $` + n + "; vread " + o.Tag + " c11r")
			default:
				// an undefined variable is an error: the command fails
				b.WriteString(`out "` + o.Tag + `=$` + n + `" || out ` + o.Tag + "=UNDEF")
			}
		case "call":
			b.WriteString(fname(o.Fn))
		case "block":
			switch o.Form {
			case "if":
				b.WriteString("if { true } then {\n")
			case "else":
				b.WriteString("if { false } then { out NEVER } else {\n")
			case "switch":
				b.WriteString("switch {\n" + ind + "case { true } then {\n")
			case "foreach":
				b.WriteString("%[1] -> foreach c11i {\n")
			case "foreach2":
				b.WriteString("%[1,2] -> foreach c11i {\n")
			case "try":
				b.WriteString("try {\n")
			case "subshell":
				b.WriteString("out ${\n")
			}
			writeOps(b, o.Body, ind+"  ")
			b.WriteString(ind + "}")
			if o.Form == "switch" {
				b.WriteString("\n" + ind + "}")
			}
		}
		b.WriteString("\n")
	}
}

func (c Case) defs() string {
	var b strings.Builder
	for f := range c.Fns {
		b.WriteString("function " + fname(f) + " {\n")
		writeOps(&b, c.Fns[f], "  ")
		b.WriteString("}\n")
	}
	return b.String()
}

func (c Case) runSrc(r int) string {
	var b strings.Builder
	writeOps(&b, c.Runs[r], "")
	return b.String()
}

// ---------------------------------------------------------------------------
// scope-stack model

type binding struct {
	val string
	by  int // activation that wrote it
}

type model struct {
	c      Case
	global map[string]binding
	out    []string
	acts   int
	over   bool

	localWriters map[string]map[int]bool // name -> activations that ever set it locally

	// classification
	isolation, crossGlobal, shadow, exposed int
}

type frame struct {
	id      int
	local   map[string]binding
	dropped map[string]bool // names this activation had locally and unset
}

const maxLines = 600

func (m *model) emit(s string) {
	if len(m.out) >= maxLines {
		m.over = true
		return
	}
	m.out = append(m.out, s)
}

func (m *model) newFrame() *frame {
	m.acts++
	return &frame{id: m.acts, local: map[string]binding{}, dropped: map[string]bool{}}
}

func (m *model) exec(ops []Op, f *frame) {
	for _, o := range ops {
		if m.over {
			return
		}
		switch o.K {
		case "set":
			f.local[o.Name] = binding{o.Val, f.id}
			delete(f.dropped, o.Name)
			if m.localWriters[o.Name] == nil {
				m.localWriters[o.Name] = map[int]bool{}
			}
			m.localWriters[o.Name][f.id] = true
		case "gset":
			m.global[o.Name] = binding{o.Val, f.id}
		case "unset":
			if _, ok := f.local[o.Name]; ok {
				delete(f.local, o.Name)
				f.dropped[o.Name] = true
			}
		case "gunset":
			delete(m.global, o.Name)
		case "read":
			for w := range m.localWriters[o.Name] {
				if w != f.id {
					m.isolation++
					break
				}
			}
			if b, ok := f.local[o.Name]; ok {
				if _, g := m.global[o.Name]; g {
					m.shadow++
				}
				m.emit(o.Tag + "=" + b.val)
			} else if b, ok := m.global[o.Name]; ok {
				if b.by != f.id {
					m.crossGlobal++
				}
				if f.dropped[o.Name] {
					m.exposed++
				}
				m.emit(o.Tag + "=" + b.val)
			} else {
				m.emit(o.Tag + "=UNDEF")
			}
		case "gread":
			if b, ok := m.global[o.Name]; ok {
				if b.by != f.id {
					m.crossGlobal++
				}
				m.emit(o.Tag + "=" + b.val)
			} else {
				m.emit(o.Tag + "=UNDEF")
			}
		case "block":
			// blocks share the enclosing function's variables
			m.exec(o.Body, f)
			if o.Form == "foreach2" {
				m.exec(o.Body, f)
			}
		case "call":
			m.exec(m.c.Fns[o.Fn], m.newFrame())
		}
	}
}

func runModel(c Case) (*model, [][]string) {
	m := &model{c: c, global: map[string]binding{}, localWriters: map[string]map[int]bool{}}
	var per [][]string
	for r := range c.Runs {
		m.out = nil
		m.exec(c.Runs[r], m.newFrame())
		per = append(per, m.out)
	}
	return m, per
}

// ---------------------------------------------------------------------------

func lines(s string) []string {
	var out []string
	for _, l := range strings.Split(s, "\n") {
		if l != "" { // `out ${ }` of a silent sub-shell prints an empty line
			out = append(out, l)
		}
	}
	return out
}

func check(c Case) *core.Violation {
	m, want := runModel(c)
	if m.over {
		core.Count("skipped_too_long", 1)
		return nil
	}
	for _, n := range names {
		lang.GlobalVariables.Unset(n)
	}
	defs := c.defs()
	if defs != "" {
		if r := core.Run(defs); r.Hung || r.Err != nil || r.Exit != 0 {
			return core.Violf("defs", "function definitions failed: exit=%d err=%v stderr=%q\n%s", r.Exit, r.Err, r.Stderr, defs)
		}
	}
	for i := range c.Runs {
		src := c.runSrc(i)
		r := core.Run(src)
		if r.Hung {
			return core.Violf("hang", "program did not finish\n%s", src)
		}
		got := lines(string(r.Stdout))
		if strings.Join(got, " ") != strings.Join(want[i], " ") {
			return core.Violf("mismatch", "functions:\n%s\nprogram %d of %d (earlier ones ran before it in the same session):\n%s\nwant reads: %s\ngot  reads: %s\nstderr=%q exit=%d err=%v",
				defs, i+1, len(c.Runs), src, strings.Join(want[i], " "), strings.Join(got, " "), r.Stderr, r.Exit, r.Err)
		}
	}
	return nil
}

func classify(c Case) core.Class {
	m, _ := runModel(c)
	cl := core.Class{}
	if m.over {
		cl.Label = "too-long(skipped)"
		return cl
	}
	cl.NonTrivial = m.isolation+m.crossGlobal+m.shadow+m.exposed > 0
	var parts []string
	if m.exposed > 0 {
		parts = append(parts, "unset-exposes-global")
	}
	if m.shadow > 0 {
		parts = append(parts, "local-shadows-global")
	}
	if m.isolation > 0 {
		parts = append(parts, "same-name-local-in-other-call")
	}
	if m.crossGlobal > 0 {
		parts = append(parts, "global-from-other-call")
	}
	if len(parts) == 0 {
		parts = []string{"trivial"}
	}
	cl.Label = strings.Join(parts, "+")
	return cl
}

func known(c Case, v *core.Violation) string { return "" }

var spec = core.Spec[Case]{
	ID: "C11", Gen: gen, Check: check, Classify: classify, Known: known,
	Sample: func(c Case) any {
		s := c.defs()
		for i := range c.Runs {
			s += fmt.Sprintf("# program %d\n%s", i+1, c.runSrc(i))
		}
		return s
	},
}

func TestProp(t *testing.T)   { core.RunProp(t, spec) }
func TestReplay(t *testing.T) { core.Replay(t, spec) }
