// C14 — `format` preserves structured data between formats.
//
// Domain: hostile JSON documents built per target so that the target can
// represent them (yaml: any JSON value; toml: a map without nulls whose arrays
// are homogeneous; jsonl: an array; csv: one or more objects sharing a set of
// distinct non-empty headers, string cells), written as bytes with data type
// json to the stdin of `format T`, whose output goes to `format json`.
// Oracle: the result, parsed with encoding/json, equals the original
// structurally (numbers as float64, key order irrelevant). A stage that
// exits non-zero with a message is a clean rejection (counted).
package c14

import (
	"bytes"
	"encoding/json"
	"fmt"
	"math"
	"os"
	"reflect"
	"sort"
	"strconv"
	"strings"
	"testing"
	"time"
	"unicode"

	"pgregory.net/rapid"
	"verif/harness/core"
	hgen "verif/harness/gen"
)

func TestMain(m *testing.M) {
	core.InitMurex()
	// format runs take about a millisecond; 20 s without finishing is a hang
	core.HangBudget = 20 * time.Second
	core.Main(m, "C14")
}

type Case struct {
	Target string `json:"target"` // yaml toml jsonl csv
	Doc    string `json:"doc"`    // JSON text
}

// ---------------------------------------------------------------------------
// generator

var keywords = []string{
	"yes", "no", "on", "off", "y", "n", "null", "Null", "NULL", "~", "true", "True", "false", "1e3", "0x1f", "0o7", "0b1", "1_000", "+1", "-0",
	".inf", "-.inf", ".nan", "1:30", "2001-01-01", "2001-01-01T00:00:00Z", "<<", "=", "- a", "a: b", "? x", "|", ">", "!!str x", "&a", "*a", "%x", "@x", "`x`",
	"#", "#x", " #x", "x #y", "x#y", ": ", "a:", ":a", "[x]", "{x}", "[", "]", "{", "}", ",", "a,b", "'", "''", "'''", `"`, `""`, `"""`, `\`, `\n`, `A`,
	" lead", "trail ", "  ", "\t", "a\tb", "a\nb", "a\n", "\na", "a\n\nb", "a\n b", " a\nb", "a\r\nb", "}{", "---", "...", "--- x", "\u00e9", "\u65e5\u672c", "\u00a0", "\u0085", "\u2028", "\ufeff", "\x01", "\x1b[0m", "\x7f",
	"inf", "nan", "Infinity", "1979-05-27", "07:32:00", "1.", ".5", "0.10", "00", "1e", "e1", "1 2", "-", "--", "key = 1", "[table]", "[[t]]",
}

func strGen(newlines bool) *rapid.Generator[string] {
	h := hgen.HostileString(hgen.StrOpts{MaxParts: 4, Newlines: newlines, Control: true})
	return rapid.Custom(func(t *rapid.T) string {
		var s string
		switch rapid.IntRange(0, 9).Draw(t, "strkind") {
		case 0, 1, 2, 3:
			s = rapid.SampledFrom(keywords).Draw(t, "kw")
		case 4:
			s = rapid.SampledFrom(keywords).Draw(t, "kw1") + rapid.SampledFrom(keywords).Draw(t, "kw2")
		case 5:
			s = rapid.SampledFrom(hgen.Words).Draw(t, "word")
		default:
			s = h.Draw(t, "hostile")
		}
		if !newlines {
			s = strings.NewReplacer("\n", "", "\r", "").Replace(s)
		}
		return s
	})
}

func numGen() *rapid.Generator[float64] {
	return rapid.Custom(func(t *rapid.T) float64 {
		var f float64
		switch rapid.IntRange(0, 7).Draw(t, "numkind") {
		case 0, 1, 2:
			f = float64(rapid.IntRange(-1000, 1000).Draw(t, "int"))
		case 3:
			f = float64(rapid.Int64Range(-1<<53, 1<<53).Draw(t, "bigint"))
		case 4:
			f = float64(rapid.IntRange(-100000, 100000).Draw(t, "q")) / 1000
		case 5:
			f = rapid.SampledFrom([]float64{1e21, -1e21, 1e-7, 1.5e300, 5e-324, 1.7976931348623157e308, 0.1, 1e15, 1e16, 123456789012345680000, 1e20}).Draw(t, "special")
		default:
			f = rapid.Float64().Draw(t, "float")
		}
		if f != f || f > 1.7976931348623157e308 || f < -1.7976931348623157e308 || (f == 0 && 1/f < 0) {
			return 0 // finite numbers only; -0 is not generated
		}
		return f
	})
}

type docGen struct {
	t     *rapid.T
	str   *rapid.Generator[string]
	key   *rapid.Generator[string]
	num   *rapid.Generator[float64]
	depth int
}

func (g *docGen) keyStr() string { return g.key.Draw(g.t, "key") }

func (g *docGen) scalar(noNull bool) any {
	switch rapid.IntRange(0, 7).Draw(g.t, "scalar") {
	case 0, 1, 2, 3:
		return g.str.Draw(g.t, "str")
	case 4, 5:
		return g.num.Draw(g.t, "num")
	case 6:
		return rapid.Bool().Draw(g.t, "bool")
	}
	if noNull {
		return g.str.Draw(g.t, "str")
	}
	return nil
}

// any JSON value
func (g *docGen) value(depth int) any {
	k := rapid.IntRange(0, 9).Draw(g.t, "kind")
	if depth >= g.depth || k < 5 {
		return g.scalar(false)
	}
	n := rapid.IntRange(0, 4).Draw(g.t, "width")
	if k < 7 {
		a := make([]any, 0, n)
		for i := 0; i < n; i++ {
			a = append(a, g.value(depth+1))
		}
		return a
	}
	m := map[string]any{}
	for i := 0; i < n; i++ {
		m[g.keyStr()] = g.value(depth + 1)
	}
	return m
}

// toml: no nulls; arrays homogeneous (all strings, numbers, booleans, arrays
// or tables)
func (g *docGen) tomlValue(depth int) any {
	k := rapid.IntRange(0, 9).Draw(g.t, "kind")
	if depth >= g.depth || k < 5 {
		return g.scalar(true)
	}
	if k < 7 {
		return g.tomlArray(depth)
	}
	return g.tomlMap(depth)
}

func (g *docGen) tomlMap(depth int) map[string]any {
	n := rapid.IntRange(0, 4).Draw(g.t, "width")
	m := map[string]any{}
	for i := 0; i < n; i++ {
		m[g.keyStr()] = g.tomlValue(depth + 1)
	}
	return m
}

func (g *docGen) tomlArray(depth int) []any {
	n := rapid.IntRange(0, 4).Draw(g.t, "width")
	kind := rapid.IntRange(0, 4).Draw(g.t, "elemkind")
	if depth+1 >= g.depth && kind > 2 {
		kind = 0
	}
	a := make([]any, 0, n)
	for i := 0; i < n; i++ {
		switch kind {
		case 0:
			a = append(a, g.str.Draw(g.t, "str"))
		case 1:
			a = append(a, g.num.Draw(g.t, "num"))
		case 2:
			a = append(a, rapid.Bool().Draw(g.t, "bool"))
		case 3:
			a = append(a, g.tomlArray(depth+1))
		default:
			a = append(a, g.tomlMap(depth+1))
		}
	}
	return a
}

func gen(t *rapid.T) Case {
	target := rapid.SampledFrom([]string{"yaml", "toml", "jsonl", "csv"}).Draw(t, "target")
	g := &docGen{t: t, str: strGen(true), key: strGen(true), num: numGen(), depth: 4}
	// one document in ten is large (tens of KiB serialised)
	big := rapid.IntRange(0, 9).Draw(t, "big") == 0
	var doc any
	switch target {
	case "yaml":
		if big {
			n := rapid.IntRange(150, 500).Draw(t, "bign")
			a := make([]any, 0, n)
			for i := 0; i < n; i++ {
				a = append(a, g.value(2))
			}
			doc = a
			break
		}
		if rapid.IntRange(0, 9).Draw(t, "top") == 0 {
			doc = g.scalar(false)
		} else {
			doc = g.value(0)
		}
	case "toml":
		m := g.tomlMap(0)
		if big {
			n := rapid.IntRange(150, 500).Draw(t, "bign")
			a := make([]any, 0, n)
			for i := 0; i < n; i++ {
				a = append(a, g.str.Draw(t, "bigstr"))
			}
			m["bigarray"] = a
		}
		doc = m
	case "jsonl":
		n := rapid.IntRange(0, 6).Draw(t, "n")
		if big {
			// several KiB of lines: larger than the 4 KiB buffers of line readers
			n = rapid.IntRange(400, 1200).Draw(t, "bign")
		}
		a := make([]any, 0, n)
		uniform := big && rapid.Bool().Draw(t, "uniform")
		suffix := ""
		if uniform {
			suffix = g.str.Draw(t, "suffix")
		}
		for i := 0; i < n; i++ {
			if uniform {
				// every line has the same width
				a = append(a, fmt.Sprintf("s%05d%s", i, suffix))
				continue
			}
			if big {
				// strings, numbers and flat maps only: a null or a leading
				// array would make the whole large document a rejected /
				// known-finding case
				switch rapid.IntRange(0, 3).Draw(t, "bigelem") {
				case 0:
					a = append(a, map[string]any{"k": g.str.Draw(t, "bigstr"), "n": float64(i)})
				case 1:
					a = append(a, float64(rapid.IntRange(-1000000, 1000000).Draw(t, "bignum")))
				default:
					// stamped with its position, so every line differs
					a = append(a, fmt.Sprintf("s%05d%s", i, g.str.Draw(t, "bigstr")))
				}
				continue
			}
			a = append(a, g.value(1))
		}
		doc = a
	case "csv":
		// go's csv reader documents that it turns \r\n inside a quoted field
		// into \n: cells and headers carry no \r
		cell := rapid.Custom(func(t *rapid.T) string {
			return strings.ReplaceAll(g.str.Draw(t, "cell"), "\r", "")
		})
		ncol := rapid.IntRange(1, 4).Draw(t, "ncol")
		seen := map[string]bool{}
		var heads []string
		for len(heads) < ncol {
			h := cell.Draw(t, "head")
			if h == "" || seen[h] {
				h = fmt.Sprintf("h%d%s", len(heads), h)
				if seen[h] {
					continue
				}
			}
			seen[h] = true
			heads = append(heads, h)
		}
		nrow := rapid.IntRange(1, 5).Draw(t, "nrow")
		if big {
			nrow = rapid.IntRange(100, 500).Draw(t, "bigrows")
		}
		a := make([]any, 0, nrow)
		for i := 0; i < nrow; i++ {
			m := map[string]any{}
			for _, h := range heads {
				m[h] = cell.Draw(t, "cell")
			}
			a = append(a, m)
		}
		doc = a
	}
	b, err := json.Marshal(doc)
	if err != nil {
		panic(err)
	}
	return Case{Target: target, Doc: string(b)}
}

// ---------------------------------------------------------------------------
// oracle

func parse(b []byte) (any, error) {
	var v any
	err := json.Unmarshal(b, &v)
	return v, err
}

// emptyTableHang: `format json` (and yaml) of a csv document in which no line
// is left panics in the marshaller (make([]map, len(table)-1)) and the
// pipeline never finishes.
const emptyTableHang = "C14-empty-csv-table-hangs-format-json"

func clean(r core.Result) bool { return r.Exit != 0 && len(r.Stderr) > 0 && !r.Hung }

// lastGot is what the failing round trip of the most recent check produced
// (known() is called right after check() on the same goroutine).
var lastGot struct {
	ok bool
	v  any
}

func clip(s string) string {
	if len(s) > 600 {
		return s[:600] + "…"
	}
	return s
}

func check(c Case) *core.Violation {
	lastGot.ok, lastGot.v = false, nil
	want, err := parse([]byte(c.Doc))
	if err != nil {
		panic("bad case: " + err.Error())
	}
	// stage 1: json -> target
	r1 := core.RunStdin("<stdin> -> format "+c.Target, []byte(c.Doc), "json")
	if r1.Hung {
		return core.Violf("hang", "format %s did not finish on %s", c.Target, c.Doc)
	}
	if r1.Exit != 0 || r1.Err != nil {
		if clean(r1) {
			core.Count("rejected:"+c.Target+":marshal", 1)
			return nil
		}
		return core.Violf("unclean-failure", "json -> format %s on %s: exit %d err=%v with no message\nstdout=%q", c.Target, c.Doc, r1.Exit, r1.Err, r1.Stdout)
	}
	// stage 2: target -> json
	if c.Target == "csv" && core.IsKnownOpen(emptyTableHang) && os.Getenv("VERIF_REPLAY") == "" {
		// while that finding is open a csv text without any line left is not
		// fed to `format json` during the search (a replay does feed it): it
		// would park the run for the hang budget every time
		if _, kept, messy, changed := csvLineSim(want, true, true); changed && kept == 0 && !messy {
			core.ExcludedKnown(emptyTableHang)
			return nil
		}
	}
	stdin := r1.Stdout
	if stdin == nil {
		stdin = []byte{}
	}
	r2 := core.RunStdin("<stdin> -> format json", stdin, c.Target)
	if r2.Hung {
		return core.Violf("hang", "format json did not finish on the %s text %q (from %s)", c.Target, r1.Stdout, c.Doc)
	}
	if r2.Exit != 0 || r2.Err != nil {
		if clean(r2) {
			// jsonl is murex's own reader and writer: a text that `format
			// jsonl` has just produced from a non-empty array must read back.
			// (An empty array gives an empty text, "no data returned". For the
			// other targets a refusal on the way back is counted, not judged:
			// most come from what the yaml / toml libraries write.)
			if a, ok := want.([]any); c.Target == "jsonl" && ok && len(a) > 0 && len(bytes.TrimSpace(r1.Stdout)) > 0 {
				return core.Violf("refused-on-return", "json %s\n-> format jsonl gives %q\n-> format json refuses it: %s", clip(c.Doc), clip(string(r1.Stdout)), r2.Stderr)
			}
			core.Count("rejected:"+c.Target+":unmarshal", 1)
			if f := os.Getenv("VERIF_C14_DUMP_REJECTED"); f != "" {
				if fh, err := os.OpenFile(f, os.O_APPEND|os.O_CREATE|os.O_WRONLY, 0o644); err == nil {
					fmt.Fprintf(fh, "%s\t%s\t%q\t%q\n", c.Target, c.Doc, r1.Stdout, r2.Stderr)
					fh.Close()
				}
			}
			return nil
		}
		return core.Violf("unclean-failure", "%s -> format json on %q (from %s): exit %d err=%v with no message\nstdout=%q", c.Target, r1.Stdout, c.Doc, r2.Exit, r2.Err, r2.Stdout)
	}
	got, err := parse(r2.Stdout)
	if err != nil {
		return core.Violf("not-json", "json %s\n-> format %s gives %q\n-> format json gives %q which is not JSON: %v", c.Doc, c.Target, r1.Stdout, r2.Stdout, err)
	}
	if !reflect.DeepEqual(got, want) {
		lastGot.ok, lastGot.v = true, got
		return core.Violf("mismatch", "json %s\n-> format %s gives %q\n-> format json gives %s", c.Doc, c.Target, r1.Stdout, r2.Stdout)
	}
	core.Count("roundtrip-ok:"+c.Target, 1)
	// the pipeline of the statement, in one go
	rp := core.RunStdin("<stdin> -> format "+c.Target+" -> format json", []byte(c.Doc), "json")
	if rp.Hung {
		return core.Violf("hang", "the pipeline did not finish on %s", c.Doc)
	}
	gp, err := parse(rp.Stdout)
	if rp.Exit != 0 || err != nil || !reflect.DeepEqual(gp, want) {
		return core.Violf("pipeline-mismatch", "json %s -> format %s -> format json: exit %d stdout %q stderr %q (the two stages run one after the other give the original back)", c.Doc, c.Target, rp.Exit, rp.Stdout, rp.Stderr)
	}
	return nil
}

// ---------------------------------------------------------------------------
// classification

func significantStr(s string) bool {
	if s == "" {
		return false
	}
	for _, k := range keywords {
		if s == k {
			return true
		}
	}
	for _, r := range s {
		if r >= 0x80 || r < 0x20 || unicode.IsSpace(r) || unicode.IsPunct(r) || unicode.IsSymbol(r) {
			return true
		}
	}
	return false
}

func inspect(v any, depth int, maxDepth *int, sig *bool) {
	switch v := v.(type) {
	case string:
		if significantStr(v) {
			*sig = true
		}
	case []any:
		if depth+1 > *maxDepth {
			*maxDepth = depth + 1
		}
		for _, e := range v {
			inspect(e, depth+1, maxDepth, sig)
		}
	case map[string]any:
		if depth+1 > *maxDepth {
			*maxDepth = depth + 1
		}
		for k, e := range v {
			if significantStr(k) {
				*sig = true
			}
			inspect(e, depth+1, maxDepth, sig)
		}
	}
}

func classify(c Case) core.Class {
	v, _ := parse([]byte(c.Doc))
	depth, sig := 0, false
	inspect(v, 0, &depth, &sig)
	cl := core.Class{NonTrivial: sig || depth >= 2}
	if len(c.Doc) > 8192 {
		cl.NonTrivial = true
		cl.Label = c.Target + "/large(>8KiB)"
		return cl
	}
	switch {
	case sig && depth >= 2:
		cl.Label = c.Target + "/significant-string,nested"
	case sig:
		cl.Label = c.Target + "/significant-string"
	case depth >= 2:
		cl.Label = c.Target + "/nested"
	default:
		cl.Label = c.Target + "/plain"
	}
	return cl
}

// ---------------------------------------------------------------------------
// known findings
//
// Every exclusion below re-creates what the named defect does to the original
// document and matches only when the result of the round trip is exactly
// that; anything else is still reported.

// csvNeedsQuotes mirrors encoding/csv's rule for the default separator.
func csvNeedsQuotes(f string) bool {
	if f == "" {
		return false
	}
	if f == `\.` || strings.ContainsAny(f, ",\"\r\n") {
		return true
	}
	r := []rune(f)[0]
	return unicode.IsSpace(r)
}

// csvLineSim gives what comes back when the reader loses lines: with
// comment, the lines that start with its comment character `#`; with blank,
// the lines that are empty (a one-column row holding the empty string).
// changed=false when the document has no such line; kept is the number of
// lines left (header included); messy=true when a lost comment line has a cell with a line
// break in it (the reader then resumes in the middle of the row: not modelled).
func csvLineSim(doc any, comment, blank bool) (sim any, kept int, messy, changed bool) {
	rows, isArr := doc.([]any)
	if !isArr || len(rows) == 0 {
		return nil, 0, false, false
	}
	first, isMap := rows[0].(map[string]any)
	if !isMap {
		return nil, 0, false, false
	}
	var heads []string
	for k := range first {
		heads = append(heads, k)
	}
	sort.Strings(heads)
	table := [][]string{heads}
	for _, r := range rows {
		m, _ := r.(map[string]any)
		line := make([]string, len(heads))
		for i, h := range heads {
			line[i], _ = m[h].(string)
		}
		table = append(table, line)
	}
	var keptLines [][]string
	for _, line := range table {
		if comment && strings.HasPrefix(line[0], "#") && !csvNeedsQuotes(line[0]) {
			changed = true
			for _, cell := range line {
				if strings.Contains(cell, "\n") {
					messy = true
				}
			}
			continue
		}
		if blank && len(line) == 1 && line[0] == "" {
			changed = true
			continue
		}
		keptLines = append(keptLines, line)
	}
	if !changed {
		return nil, len(keptLines), false, false
	}
	if len(keptLines) == 0 {
		return nil, 0, messy, true
	}
	out := []any{}
	for _, line := range keptLines[1:] {
		m := map[string]any{}
		for i, h := range keptLines[0] {
			m[h] = line[i]
		}
		out = append(out, m)
	}
	return out, len(keptLines), messy, true
}

// jsonlTableSim gives what comes back when the leading run of array elements
// is read as a table of strings (every cell through fmt.Sprint).
func jsonlTableSim(doc any) (any, bool) {
	a, ok := doc.([]any)
	if !ok || len(a) == 0 {
		return nil, false
	}
	out := make([]any, len(a))
	copy(out, a)
	changed := false
	for i, e := range a {
		row, isArr := e.([]any)
		if !isArr {
			break
		}
		cells := make([]any, len(row))
		for j, v := range row {
			s := fmt.Sprint(v)
			cells[j] = s
			if sv, isStr := v.(string); !isStr || sv != s {
				changed = true
			}
		}
		out[i] = cells
	}
	return out, changed
}

// tomlFloatSim: go-toml v1 prints a non-integer float64 that float32 holds
// exactly with float32's shortest digits.
func tomlFloatSim(v any, changed *bool) any {
	switch v := v.(type) {
	case float64:
		if v != math.Trunc(v) && float64(float32(v)) == v {
			f, err := strconv.ParseFloat(strconv.FormatFloat(v, 'f', -1, 32), 64)
			if err == nil && f != v {
				*changed = true
				return f
			}
		}
		return v
	case []any:
		out := make([]any, len(v))
		for i := range v {
			out[i] = tomlFloatSim(v[i], changed)
		}
		return out
	case map[string]any:
		out := map[string]any{}
		for k, e := range v {
			out[k] = tomlFloatSim(e, changed)
		}
		return out
	}
	return v
}

// encodeTomlString is go-toml v1's string escaper (table names are written
// with it but read back without unescaping).
func encodeTomlString(value string) string {
	var b strings.Builder
	for _, rr := range value {
		switch rr {
		case '\b':
			b.WriteString(`\b`)
		case '\t':
			b.WriteString(`\t`)
		case '\n':
			b.WriteString(`\n`)
		case '\f':
			b.WriteString(`\f`)
		case '\r':
			b.WriteString(`\r`)
		case '"':
			b.WriteString(`\"`)
		case '\\':
			b.WriteString(`\\`)
		default:
			if rr < 0x1F {
				fmt.Fprintf(&b, "\\u%0.4X", rr)
			} else {
				b.WriteRune(rr)
			}
		}
	}
	return b.String()
}

// tomlTruncRunes: the same escaper looks at uint16(rune), so a character
// above U+FFFF whose low 16 bits are below 0x1F is written as that control
// character.
func tomlTruncRunes(s string) string {
	var b strings.Builder
	for _, r := range s {
		if r > 0xFFFF && uint16(r) < 0x1F {
			b.WriteRune(rune(uint16(r)))
		} else {
			b.WriteRune(r)
		}
	}
	return b.String()
}

// yamlMergeSim gives what comes back when a map key `<<` is written without
// quotes and read as YAML's merge key: its map value (or the maps of its
// array value) is merged into the parent, keys of the parent winning.
// ok=false: a `<<` key holds something a merge cannot take.
func yamlMergeSim(v any, changed, ok *bool) any {
	switch v := v.(type) {
	case []any:
		out := make([]any, len(v))
		for i := range v {
			out[i] = yamlMergeSim(v[i], changed, ok)
		}
		return out
	case map[string]any:
		out := map[string]any{}
		for k, e := range v {
			if k != "<<" {
				out[k] = yamlMergeSim(e, changed, ok)
			}
		}
		if m, has := v["<<"]; has {
			*changed = true
			var maps []map[string]any
			switch m := yamlMergeSim(m, changed, ok).(type) {
			case map[string]any:
				maps = []map[string]any{m}
			case []any:
				for _, e := range m {
					em, isMap := e.(map[string]any)
					if !isMap {
						*ok = false
						return out
					}
					maps = append(maps, em)
				}
			default:
				*ok = false
				return out
			}
			for _, m := range maps {
				for k, e := range m {
					if _, exists := out[k]; !exists {
						out[k] = e
					}
				}
			}
		}
		return out
	}
	return v
}

func hasKey(v any, pred func(string) bool) bool {
	switch v := v.(type) {
	case []any:
		for _, e := range v {
			if hasKey(e, pred) {
				return true
			}
		}
	case map[string]any:
		for k, e := range v {
			if pred(k) || hasKey(e, pred) {
				return true
			}
		}
	}
	return false
}

// altT is one accepted other form of a string, with the finding it belongs to.
type altT struct{ s, id string }

// equalAlt compares like reflect.DeepEqual but lets a string value of want
// come back as one of altVal(value) and a map key as one of altKey(key); the
// findings whose alternatives were needed are added to used.
func equalAlt(want, got any, altVal, altKey func(string) []altT, used map[string]bool) bool {
	switch w := want.(type) {
	case string:
		g, ok := got.(string)
		if !ok {
			return false
		}
		if g == w {
			return true
		}
		for _, a := range altVal(w) {
			if g == a.s {
				used[a.id] = true
				return true
			}
		}
		return false
	case []any:
		g, ok := got.([]any)
		if !ok || len(g) != len(w) {
			return false
		}
		for i := range w {
			if !equalAlt(w[i], g[i], altVal, altKey, used) {
				return false
			}
		}
		return true
	case map[string]any:
		g, ok := got.(map[string]any)
		if !ok || len(g) != len(w) {
			return false
		}
		taken := map[string]bool{}
		keys := make([]string, 0, len(w))
		for k := range w {
			keys = append(keys, k)
		}
		sort.Strings(keys)
		for _, k := range keys {
			matched := false
			for _, cand := range append([]altT{{k, ""}}, altKey(k)...) {
				gv, has := g[cand.s]
				if !has || taken[cand.s] {
					continue
				}
				u := map[string]bool{}
				if equalAlt(w[k], gv, altVal, altKey, u) {
					taken[cand.s] = true
					matched = true
					if cand.id != "" {
						used[cand.id] = true
					}
					for id := range u {
						used[id] = true
					}
					break
				}
			}
			if !matched {
				return false
			}
		}
		return true
	}
	return reflect.DeepEqual(want, got)
}

func firstUsed(used map[string]bool, order ...string) string {
	for _, id := range order {
		if used[id] {
			return id
		}
	}
	return ""
}

func noAlt(string) []altT { return nil }

func known(c Case, v *core.Violation) string {
	doc, err := parse([]byte(c.Doc))
	if err != nil {
		return ""
	}
	switch c.Target {
	case "csv":
		const hash, blank = "C14-csv-hash-row-dropped", "C14-csv-single-empty-cell-row-dropped"
		for _, try := range []struct {
			comment, blank bool
			id             string
		}{{true, false, hash}, {false, true, blank}, {true, true, hash}} {
			sim, kept, messy, changed := csvLineSim(doc, try.comment, try.blank)
			if !changed {
				continue
			}
			if v.Kind == "hang" {
				if kept == 0 && !messy && try.comment && try.blank {
					return emptyTableHang
				}
				continue
			}
			if kept <= 1 || messy {
				// nothing, or only a header, is left, or the reader resumed in
				// the middle of a row: whatever happens next has this cause
				return try.id
			}
			if v.Kind == "mismatch" && lastGot.ok && reflect.DeepEqual(lastGot.v, sim) {
				return try.id
			}
		}
	case "jsonl":
		sim, changed := jsonlTableSim(doc)
		if !changed {
			return ""
		}
		if v.Kind == "mismatch" && lastGot.ok && reflect.DeepEqual(lastGot.v, sim) {
			return "C14-jsonl-leading-arrays-stringified"
		}
	case "yaml":
		if v.Kind != "mismatch" || !lastGot.ok {
			return ""
		}
		const merge, nl = "C14-yaml-merge-key-not-quoted", "C14-yaml-leading-newline-lost"
		// yaml.v3 writes a multi-line string (or key) that starts with a line
		// break or blank as a block scalar with an indentation indicator;
		// leading line breaks / blanks are lost on the way back
		lead := func(s string) []altT {
			if !strings.ContainsAny(s, "\n\u2028\u2029\u0085") {
				return nil
			}
			var a []altT
			// any part of the leading run of line breaks / blanks can go
			// missing ("\n\n  A" comes back as "\nA"): every proper
			// subsequence of the run, followed by the rest
			run := []rune{}
			for _, r := range s {
				if !strings.ContainsRune("\n\r\t \u2028\u2029\u0085", r) {
					break
				}
				run = append(run, r)
			}
			if k := len(run); k >= 2 && k <= 10 {
				rest := s[len(string(run)):]
				seen := map[string]bool{}
				for mask := 0; mask < 1<<k-1; mask++ {
					var b strings.Builder
					for j := 0; j < k; j++ {
						if mask&(1<<j) != 0 {
							b.WriteRune(run[j])
						}
					}
					if t := b.String() + rest; !seen[t] {
						seen[t] = true
						a = append(a, altT{t, nl})
					}
				}
			}
			for i, r := range s {
				if !strings.ContainsRune("\n\r\t \u2028\u2029\u0085", r) {
					// nested in a list or map the block scalar is also
					// under-indented for its indicator and ends at once: what
					// remains is read as ordinary text, so a `#` line is a
					// comment and the string comes back empty (any other text
					// is refused with an error)
					if r == '#' {
						a = append(a, altT{"", nl})
					}
					break
				}
				a = append(a, altT{s[i+len(string(r)):], nl})
			}
			return a
		}
		changed, ok := false, true
		sim := yamlMergeSim(doc, &changed, &ok)
		for _, want := range []any{doc, sim} {
			used := map[string]bool{}
			if equalAlt(want, lastGot.v, lead, lead, used) {
				if changed && ok && !reflect.DeepEqual(want, doc) {
					return merge
				}
				return firstUsed(used, nl)
			}
		}
	case "toml":
		if v.Kind != "mismatch" || !lastGot.ok {
			return ""
		}
		const fl, qk, tn, ar = "C14-toml-float32-digits", "C14-toml-quoted-looking-key", "C14-toml-table-name-escapes-not-undone", "C14-toml-astral-rune-truncated"
		altVal := func(s string) []altT {
			if t := tomlTruncRunes(s); t != s {
				return []altT{{t, ar}}
			}
			return nil
		}
		altKey := func(k string) []altT {
			var a []altT
			// a key that starts and ends with a double quote is taken to be
			// quoted already and written as it is
			if len(k) >= 2 && k[0] == '"' && k[len(k)-1] == '"' && !strings.ContainsAny(k[1:len(k)-1], "\"\\\n") {
				a = append(a, altT{k[1 : len(k)-1], qk})
			}
			t := tomlTruncRunes(k)
			if t != k {
				a = append(a, altT{t, ar})
			}
			// table names are escaped on the way out and not unescaped on the
			// way back
			if e := encodeTomlString(t); e != t {
				a = append(a, altT{e, tn})
			}
			return a
		}
		floatChanged := false
		fdoc := tomlFloatSim(doc, &floatChanged)
		for i, want := range []any{doc, fdoc} {
			if i == 1 && !floatChanged {
				break
			}
			used := map[string]bool{}
			if equalAlt(want, lastGot.v, altVal, altKey, used) {
				if i == 1 {
					return fl
				}
				return firstUsed(used, tn, qk, ar)
			}
		}
		// go-toml v1's key parser does not cope with an escaped double quote
		// inside a quoted key: what comes back is not modelled, the
		// exclusion is "some key holds a double quote"
		if hasKey(doc, func(k string) bool { return strings.Contains(k, `"`) }) {
			return "C14-toml-key-with-double-quote"
		}
	}
	return ""
}

var spec = core.Spec[Case]{
	ID: "C14", Gen: gen, Check: check, Classify: classify, Known: known, Journal: true,
}

func TestProp(t *testing.T)   { core.RunProp(t, spec) }
func TestReplay(t *testing.T) { core.Replay(t, spec) }
