// extmarker is the external command of the C22 check: it prints
// "external:<name it was called as>(<arguments joined by ,>)".
package main

import (
	"os"
	"path/filepath"
	"strings"
)

func main() {
	os.Stdout.WriteString("external:" + filepath.Base(os.Args[0]) + "(" + strings.Join(os.Args[1:], ",") + ")\n")
}
