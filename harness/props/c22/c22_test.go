// C22 — Commands resolve in precedence order; aliases expand once.
//
// Domain: a pool of three command names; each may be defined as a private in
// the caller's module, a private in a foreign module, an alias (pointing at
// itself, at another pool name or at a name defined nowhere; with 0-2 alias
// parameters), a murex function, a Go builtin and an external executable on
// $PATH, in any combination. The first name is called with 0-2 parameters from
// the top of a module or from inside a function of that module.
// Oracle: resolver model of the statement. Every definition is a marker that
// prints its kind, its name and the parameters it received.
package c22

import (
	"fmt"
	"os"
	"os/exec"
	"path/filepath"
	"runtime"
	"strings"
	"sync/atomic"
	"testing"

	"github.com/lmorg/murex/lang"
	"github.com/lmorg/murex/lang/ref"
	"github.com/lmorg/murex/lang/types"
	"pgregory.net/rapid"
	"verif/harness/core"
)

var pool = []string{"c22a", "c22b", "c22c"}

const nowhere = "c22nowhere" // defined as nothing

type Def struct {
	Private        bool     `json:"private,omitempty"`
	PrivateForeign bool     `json:"private_foreign,omitempty"` // private of another module: must be invisible
	Alias          []string `json:"alias,omitempty"`           // [target, parameters...]
	Function       bool     `json:"function,omitempty"`
	Builtin        bool     `json:"builtin,omitempty"`
	External       bool     `json:"external,omitempty"`
}

type Case struct {
	Defs        []Def    `json:"defs"` // one per pool name
	Params      []string `json:"params"`
	Caller      string   `json:"caller"`        // top | function
	AliasViaAPI bool     `json:"alias_via_api"` // aliases created with lang.GlobalAliases.Add instead of the `alias` builtin
}

var binDir, marker string

func TestMain(m *testing.M) {
	core.InitMurex()
	// c22mark <kind> <name>: used inside murex functions and privates; prints
	// the parameters of the enclosing function.
	lang.DefineFunction("c22mark", func(p *lang.Process) error {
		kind, _ := p.Parameters.String(0)
		name, _ := p.Parameters.String(1)
		p.Stdout.SetDataType(types.String)
		_, err := p.Stdout.Writeln([]byte(kind + ":" + name + "(" + strings.Join(p.Scope.Parameters.StringArray(), ",") + ")"))
		return err
	}, types.String)
	core.Main(m, "C22")
}

func setup(t *testing.T) func() {
	dir := core.WorkDir("C22")
	binDir = filepath.Join(dir, "bin")
	os.MkdirAll(binDir, 0o755)
	_, file, _, _ := runtime.Caller(0)
	src := filepath.Join(filepath.Dir(file), "extmarker")
	if _, err := os.Stat(src); err != nil {
		src = "/verif/harness/props/c22/extmarker"
	}
	marker = filepath.Join(dir, "extmarker")
	cmd := exec.Command("go", "build", "-o", marker, ".")
	cmd.Dir = src
	var env []string
	for _, e := range os.Environ() {
		if strings.HasPrefix(e, "GOFLAGS=") || strings.HasPrefix(e, "GOPROXY=") || strings.HasPrefix(e, "GOTOOLCHAIN=") || strings.HasPrefix(e, "GOSUMDB=") {
			continue
		}
		env = append(env, e)
	}
	cmd.Env = append(env, "GOFLAGS=-mod=mod", "GOPROXY=off", "CGO_ENABLED=0")
	if b, err := cmd.CombinedOutput(); err != nil {
		core.CleanWorkDir("C22")
		t.Skipf("cannot build the external marker (inconclusive): %v\n%s", err, b)
	}
	oldPath := os.Getenv("PATH")
	os.Setenv("PATH", binDir+string(os.PathListSeparator)+oldPath)
	return func() {
		os.Setenv("PATH", oldPath)
		core.CleanWorkDir("C22")
	}
}

// ---------------------------------------------------------------------------
// resolver model

type resolved struct {
	Kind   string // private | function | builtin | external | none
	Name   string
	Params []string
	Alias  bool // an alias was expanded on the way
}

func (c Case) def(name string) (Def, bool) {
	for i, n := range pool {
		if n == name && i < len(c.Defs) {
			return c.Defs[i], true
		}
	}
	return Def{}, false
}

func (c Case) resolve() resolved {
	name := pool[0]
	params := append([]string{}, c.Params...)
	used := false
	for {
		d, _ := c.def(name)
		switch {
		case d.Private:
			return resolved{"private", name, params, used}
		case len(d.Alias) > 0 && !used:
			used = true
			params = append(append([]string{}, d.Alias[1:]...), params...)
			name = d.Alias[0]
			continue
		case d.Function:
			return resolved{"function", name, params, used}
		case d.Builtin:
			return resolved{"builtin", name, params, used}
		case d.External:
			return resolved{"external", name, params, used}
		}
		return resolved{"none", name, params, used}
	}
}

// ---------------------------------------------------------------------------
// program

func (c Case) Source() string {
	var b strings.Builder
	for i, d := range c.Defs {
		n := pool[i]
		if d.Private {
			fmt.Fprintf(&b, "private %s {\n    c22mark private %s\n}\n", n, n)
		}
		if d.Function {
			fmt.Fprintf(&b, "function %s {\n    c22mark function %s\n}\n", n, n)
		}
		if len(d.Alias) > 0 && !c.AliasViaAPI {
			fmt.Fprintf(&b, "alias %s=%s\n", n, strings.Join(d.Alias, " "))
		}
	}
	call := pool[0]
	if len(c.Params) > 0 {
		call += " " + strings.Join(c.Params, " ")
	}
	if c.Caller == "function" {
		fmt.Fprintf(&b, "function c22caller {\n    %s\n}\nc22caller\n", call)
	} else {
		b.WriteString(call + "\n")
	}
	return b.String()
}

var modCounter int64

func builtinMarker(name string) func(*lang.Process) error {
	return func(p *lang.Process) error {
		p.Stdout.SetDataType(types.String)
		_, err := p.Stdout.Writeln([]byte("builtin:" + name + "(" + strings.Join(p.Parameters.StringArray(), ",") + ")"))
		return err
	}
}

func check(c Case) *core.Violation {
	if len(c.Defs) != len(pool) {
		return nil
	}
	mod := fmt.Sprintf("c22/m%d", atomic.AddInt64(&modCounter, 1))
	foreign := &ref.File{Source: &ref.Source{Module: "c22/foreign"}}
	own := &ref.File{Source: &ref.Source{Module: mod}}
	// definitions that do not go through murex source
	for i, d := range c.Defs {
		n := pool[i]
		if d.PrivateForeign {
			lang.PrivateFunctions.Define(n, nil, []rune("c22mark private-foreign "+n), foreign)
		}
		if d.Builtin {
			lang.GoFunctions[n] = builtinMarker(n)
		}
		if d.External {
			if err := os.Symlink(marker, filepath.Join(binDir, n)); err != nil {
				panic(err)
			}
		}
		if len(d.Alias) > 0 && c.AliasViaAPI {
			lang.GlobalAliases.Add(n, append([]string{}, d.Alias...), own)
		}
	}
	defer func() {
		for _, n := range pool {
			lang.PrivateFunctions.Undefine(n, foreign)
			lang.PrivateFunctions.Undefine(n, own)
			delete(lang.GoFunctions, n)
			os.Remove(filepath.Join(binDir, n))
			lang.GlobalAliases.Delete(n)
			lang.MxFunctions.Undefine(n)
		}
		lang.MxFunctions.Undefine("c22caller")
	}()

	src := c.Source()
	r := core.RunWith(src, core.RunOpts{Module: mod})
	want := c.resolve()
	desc := fmt.Sprintf("%s(defined outside the source: %s)\nthe model resolves `%s` to %s `%s` with parameters %q", src, c.outside(), pool[0], want.Kind, want.Name, want.Params)
	if r.Hung {
		return core.Violf("hang", "program did not finish\n%s", desc)
	}
	if r.Err != nil {
		return core.Violf("exec-error", "%s\nerr=%v", desc, r.Err)
	}
	got := string(r.Stdout)
	if want.Kind == "none" {
		if got != "" || r.Exit == 0 {
			return core.Violf("ran-something", "%s\nwant: no definition runs and a non-zero exit number\ngot stdout=%q exit=%d stderr=%q", desc, got, r.Exit, r.Stderr)
		}
		return nil
	}
	exp := want.Kind + ":" + want.Name + "(" + strings.Join(want.Params, ",") + ")\n"
	if got != exp || r.Exit != 0 {
		kind := "wrong-definition"
		if strings.HasPrefix(got, want.Kind+":"+want.Name+"(") {
			kind = "wrong-parameters"
		}
		return core.Violf(kind, "%s\nwant stdout=%q exit=0\ngot  stdout=%q exit=%d stderr=%q", desc, exp, got, r.Exit, r.Stderr)
	}
	return nil
}

func (c Case) outside() string {
	var parts []string
	for i, d := range c.Defs {
		n := pool[i]
		if d.PrivateForeign {
			parts = append(parts, "private "+n+" in another module")
		}
		if d.Builtin {
			parts = append(parts, "builtin "+n)
		}
		if d.External {
			parts = append(parts, "executable "+n+" on $PATH")
		}
		if len(d.Alias) > 0 && c.AliasViaAPI {
			parts = append(parts, "alias "+n+"="+strings.Join(d.Alias, " "))
		}
	}
	if len(parts) == 0 {
		return "nothing"
	}
	return strings.Join(parts, "; ")
}

// ---------------------------------------------------------------------------
// generator

var words = []string{"x", "y", "1", "foo", "--flag", "a=b"}

func genDef(t *rapid.T, label string, self string) Def {
	var d Def
	d.Private = rapid.IntRange(0, 3).Draw(t, label+"-private") == 0
	d.PrivateForeign = rapid.IntRange(0, 3).Draw(t, label+"-foreign") == 0
	d.Function = rapid.IntRange(0, 2).Draw(t, label+"-function") == 0
	d.Builtin = rapid.IntRange(0, 2).Draw(t, label+"-builtin") == 0
	d.External = rapid.IntRange(0, 3).Draw(t, label+"-external") == 0
	if rapid.IntRange(0, 1).Draw(t, label+"-alias") == 0 {
		targets := append(append([]string{}, pool...), self, nowhere)
		d.Alias = []string{rapid.SampledFrom(targets).Draw(t, label+"-target")}
		n := rapid.IntRange(0, 2).Draw(t, label+"-nap")
		for i := 0; i < n; i++ {
			d.Alias = append(d.Alias, "A"+rapid.SampledFrom(words).Draw(t, label+"-ap"))
		}
	}
	return d
}

func gen(t *rapid.T) Case {
	var c Case
	for _, n := range pool {
		c.Defs = append(c.Defs, genDef(t, n, n))
	}
	np := rapid.IntRange(0, 2).Draw(t, "nparams")
	c.Params = []string{}
	for i := 0; i < np; i++ {
		c.Params = append(c.Params, rapid.SampledFrom(words).Draw(t, "param"))
	}
	c.Caller = rapid.SampledFrom([]string{"top", "function"}).Draw(t, "caller")
	c.AliasViaAPI = rapid.IntRange(0, 3).Draw(t, "aliasapi") == 0
	return c
}

func classify(c Case) core.Class {
	if len(c.Defs) != len(pool) {
		return core.Class{Label: "malformed"}
	}
	d := c.Defs[0]
	kinds := 0
	for _, b := range []bool{d.Private, len(d.Alias) > 0, d.Function, d.Builtin, d.External} {
		if b {
			kinds++
		}
	}
	w := c.resolve()
	label := "runs=" + w.Kind
	chain := ""
	if len(d.Alias) > 0 && !d.Private {
		t := d.Alias[0]
		td, _ := c.def(t)
		switch {
		case t == pool[0]:
			chain = "alias→itself"
		case len(td.Alias) > 0:
			chain = "alias→alias"
		case t == nowhere:
			chain = "alias→nothing"
		default:
			chain = "alias→name"
		}
		label += "," + chain
	}
	nt := kinds >= 2 || chain == "alias→itself" || chain == "alias→alias"
	if nt {
		label += fmt.Sprintf(",kinds=%d", kinds)
	}
	return core.Class{NonTrivial: nt, Label: label}
}

func known(c Case, v *core.Violation) string { return "" }

func sample(c Case) any {
	return map[string]string{"source": c.Source(), "defined_outside_source": c.outside()}
}

var spec = core.Spec[Case]{ID: "C22", Gen: gen, Check: check, Classify: classify, Known: known, Sample: sample, Journal: true}

func TestProp(t *testing.T)   { defer setup(t)(); core.RunProp(t, spec) }
func TestReplay(t *testing.T) { defer setup(t)(); core.Replay(t, spec) }
