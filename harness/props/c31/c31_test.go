// C31 — The test framework passes a unit test only if every assertion holds.
//
// Domain: a murex function with fixed behaviour (stdout bytes + data type,
// stderr bytes, exit number) and a unit-test plan whose assertions (ExitNum,
// StdoutMatch, StdoutRegex, StdoutType, StdoutIsArray, StdoutIsMap,
// StdoutGreaterThan, StderrMatch, StderrRegex) are each chosen to hold or not.
// Run through the Go API (fresh lang.UnitTests, Add + Run) and end to end
// (`function …; test unit function … {plan}; test run …`).
// Oracle: passed <=> every assertion of the plan holds (evaluated by the
// oracle itself from the function's behaviour); both directions.
package c31

import (
	"encoding/hex"
	"encoding/json"
	"fmt"
	"regexp"
	"sort"
	"strconv"
	"strings"
	"sync"
	"sync/atomic"
	"testing"

	"github.com/lmorg/murex/lang"
	"github.com/lmorg/murex/lang/types"
	"pgregory.net/rapid"
	"verif/harness/core"
	"verif/harness/gen"
)

// Plan holds the assertions of one case. Zero values mean "not asserted",
// exactly like lang.UnitTestPlan; ExitNum is always asserted.
type Plan struct {
	ExitNum           int    `json:"ExitNum"`
	StdoutMatch       string `json:"StdoutMatch,omitempty"`
	StdoutRegex       string `json:"StdoutRegex,omitempty"`
	StdoutType        string `json:"StdoutType,omitempty"`
	StdoutIsArray     bool   `json:"StdoutIsArray,omitempty"`
	StdoutIsMap       bool   `json:"StdoutIsMap,omitempty"`
	StdoutGreaterThan int    `json:"StdoutGreaterThan,omitempty"`
	StderrMatch       string `json:"StderrMatch,omitempty"`
	StderrRegex       string `json:"StderrRegex,omitempty"`
	StderrType        string `json:"StderrType,omitempty"`
	StderrIsArray     bool   `json:"StderrIsArray,omitempty"`
	StderrIsMap       bool   `json:"StderrIsMap,omitempty"`
}

type Case struct {
	Mode    string `json:"mode"`     // api | e2e
	OutType string `json:"out_type"` // str | json
	Stdout  string `json:"stdout"`
	Stderr  string `json:"stderr"`
	ErrType string `json:"err_type,omitempty"` // "" (not declared) | json: the data type the function declares for its stderr
	Exit    int    `json:"exit"`
	Plan    Plan   `json:"plan"`
}

// ---------------------------------------------------------------------------
// the function under test and the API driver

type apiJob struct {
	block  string
	plan   lang.UnitTestPlan
	passed bool
	ran    bool
	report string
}

var (
	jobs    sync.Map
	counter int64
)

func enc(s string) string {
	if s == "" {
		return "-"
	}
	return hex.EncodeToString([]byte(s))
}

func dec(s string) []byte {
	if s == "-" {
		return nil
	}
	b, _ := hex.DecodeString(s)
	return b
}

func TestMain(m *testing.M) {
	core.InitMurex()
	// c31emit <type> <hex stdout> <hex stderr> <exit>: the whole behaviour of
	// the function under test, free of murex quoting.
	lang.DefineFunction("c31emit", func(p *lang.Process) error {
		typ, _ := p.Parameters.String(0)
		so, _ := p.Parameters.String(1)
		se, _ := p.Parameters.String(2)
		n, _ := p.Parameters.Int(3)
		if et, err := p.Parameters.String(4); err == nil && et != "" {
			p.Stderr.SetDataType(et)
		}
		p.Stdout.SetDataType(typ)
		if b := dec(so); len(b) > 0 {
			p.Stdout.Write(b)
		}
		if b := dec(se); len(b) > 0 {
			p.Stderr.Write(b)
		}
		p.ExitNum = n
		return nil
	}, types.Any)
	// c31api <job>: defines the function, adds the plan to a fresh
	// lang.UnitTests and runs it with this process.
	lang.DefineFunction("c31api", func(p *lang.Process) error {
		id, _ := p.Parameters.String(0)
		v, ok := jobs.Load(id)
		if !ok {
			return fmt.Errorf("no job %s", id)
		}
		job := v.(*apiJob)
		name := "c31fn_" + id
		lang.MxFunctions.Define(name, nil, []rune(job.block), p.FileRef)
		defer lang.MxFunctions.Undefine(name)
		p.Config.Set("test", "auto-report", false, nil)
		ut := new(lang.UnitTests)
		ut.Add(name, &job.plan, p.FileRef)
		job.passed = ut.Run(p, name)
		job.ran = true
		if b, err := json.Marshal(p.Tests.Results.Dump()); err == nil {
			job.report = string(b)
		}
		p.Tests.Results = new(lang.TestResults)
		return nil
	}, types.Null)
	core.Main(m, "C31")
}

func (c Case) block() string {
	return fmt.Sprintf("c31emit %s %s %s %d %s", c.OutType, enc(c.Stdout), enc(c.Stderr), c.Exit, c.ErrType)
}

func (c Case) planJSON() string {
	b, _ := json.Marshal(c.Plan)
	return string(b)
}

func (c Case) e2eSource(name string) string {
	return fmt.Sprintf("function %s {\n    %s\n}\ntest unit function %s %s\ntest run %s\n", name, c.block(), name, c.planJSON(), name)
}

// ---------------------------------------------------------------------------
// oracle: which assertions hold

type verdict struct {
	name  string
	holds bool
}

// evaluate returns the verdict of every assertion in the plan; ok = false when
// the plan contains something the statement does not decide.
func evaluate(c Case) (vs []verdict, ok bool, why string) {
	p := c.Plan
	vs = append(vs, verdict{"ExitNum", p.ExitNum == c.Exit})
	if p.StdoutMatch != "" {
		vs = append(vs, verdict{"StdoutMatch", p.StdoutMatch == c.Stdout})
	}
	if p.StdoutRegex != "" {
		rx, err := regexp.Compile(p.StdoutRegex)
		if err != nil {
			return nil, false, "invalid regexp"
		}
		vs = append(vs, verdict{"StdoutRegex", rx.MatchString(c.Stdout)})
	}
	if p.StdoutType != "" {
		vs = append(vs, verdict{"StdoutType", p.StdoutType == c.OutType})
	}
	if p.StdoutIsArray || p.StdoutIsMap || p.StdoutGreaterThan > 0 {
		if c.OutType != "json" {
			return nil, false, "structure assertion on a non-json stream"
		}
		var v any
		if err := json.Unmarshal([]byte(c.Stdout), &v); err != nil {
			return nil, false, "stdout is not valid json"
		}
		a, isA := v.([]any)
		m, isM := v.(map[string]any)
		if p.StdoutIsArray {
			vs = append(vs, verdict{"StdoutIsArray", isA})
		}
		if p.StdoutIsMap {
			vs = append(vs, verdict{"StdoutIsMap", isM})
		}
		if n := p.StdoutGreaterThan; n > 0 {
			l := -1
			if isA {
				l = len(a)
			}
			if isM {
				l = len(m)
			}
			if l == n {
				// "GreaterThan" by name, ">=" by implementation and report text
				return nil, false, "StdoutGreaterThan equal to the length"
			}
			vs = append(vs, verdict{"StdoutGreaterThan", l > n})
		}
	}
	if p.StderrMatch != "" {
		vs = append(vs, verdict{"StderrMatch", p.StderrMatch == c.Stderr})
	}
	if p.StderrRegex != "" {
		rx, err := regexp.Compile(p.StderrRegex)
		if err != nil {
			return nil, false, "invalid regexp"
		}
		vs = append(vs, verdict{"StderrRegex", rx.MatchString(c.Stderr)})
	}
	if p.StderrType != "" {
		if c.ErrType == "" {
			return nil, false, "StderrType on a stream without a declared type"
		}
		vs = append(vs, verdict{"StderrType", p.StderrType == c.ErrType})
	}
	if p.StderrIsArray || p.StderrIsMap {
		if c.ErrType != "json" {
			return nil, false, "structure assertion on a non-json stream"
		}
		var v any
		if err := json.Unmarshal([]byte(c.Stderr), &v); err != nil {
			return nil, false, "stderr is not valid json"
		}
		_, isA := v.([]any)
		_, isM := v.(map[string]any)
		if p.StderrIsArray {
			vs = append(vs, verdict{"StderrIsArray", isA})
		}
		if p.StderrIsMap {
			vs = append(vs, verdict{"StderrIsMap", isM})
		}
	}
	if p.StderrMatch == "" && p.StderrRegex == "" && c.Stderr != "" {
		// murex then requires an empty stderr; neither statement nor docs say so
		return nil, false, "stderr output without a stderr assertion"
	}
	return vs, true, ""
}

func describe(vs []verdict) string {
	var s []string
	for _, v := range vs {
		s = append(s, fmt.Sprintf("%s=%v", v.name, v.holds))
	}
	return strings.Join(s, " ")
}

func check(c Case) *core.Violation {
	vs, ok, why := evaluate(c)
	if !ok {
		core.Count("unstated: "+why, 1)
		return nil
	}
	want := true
	for _, v := range vs {
		want = want && v.holds
	}
	id := strconv.FormatInt(atomic.AddInt64(&counter, 1), 10)
	ctx := fmt.Sprintf("function: stdout(%s)=%q stderr=%q exit=%d\nplan: %s\nassertions: %s", c.OutType, c.Stdout, c.Stderr, c.Exit, c.planJSON(), describe(vs))

	switch c.Mode {
	case "api":
		job := &apiJob{block: c.block(), plan: lang.UnitTestPlan{
			ExitNum: c.Plan.ExitNum, StdoutMatch: c.Plan.StdoutMatch, StdoutRegex: c.Plan.StdoutRegex,
			StdoutType: c.Plan.StdoutType, StdoutIsArray: c.Plan.StdoutIsArray, StdoutIsMap: c.Plan.StdoutIsMap,
			StdoutGreaterThan: c.Plan.StdoutGreaterThan, StderrMatch: c.Plan.StderrMatch, StderrRegex: c.Plan.StderrRegex,
			StderrType: c.Plan.StderrType, StderrIsArray: c.Plan.StderrIsArray, StderrIsMap: c.Plan.StderrIsMap,
		}}
		jobs.Store(id, job)
		defer jobs.Delete(id)
		r := core.Run("c31api " + id)
		if r.Hung {
			return core.Violf("hang", "UnitTests.Run did not finish\n%s\n%s", ctx, r.Dump)
		}
		if !job.ran || r.Err != nil {
			return core.Violf("harness", "the api driver did not run: err=%v stderr=%q", r.Err, r.Stderr)
		}
		if job.passed != want {
			return core.Violf(kindOf(want), "UnitTests.Run returned passed=%v, want %v\n%s\nreport: %s", job.passed, want, ctx, job.report)
		}
		if (r.Exit == 0) != want {
			return core.Violf("exit-number", "UnitTests.Run set exit number %d but passed=%v\n%s", r.Exit, job.passed, ctx)
		}
	case "e2e":
		lang.GlobalUnitTests = new(lang.UnitTests) // keep the run independent of earlier cases
		src := c.e2eSource("c31e2e_" + id)
		r := core.Run(src)
		if r.Hung {
			return core.Violf("hang", "`test run` did not finish\n%s\n%s", src, r.Dump)
		}
		if r.Err != nil {
			return core.Violf("harness", "program did not compile: %v\n%s", r.Err, src)
		}
		if strings.Contains(string(r.Stderr), "Error in `test`") || strings.Contains(string(r.Stderr), "Error in `function`") {
			return core.Violf("harness", "the test could not be defined or run\n%s\nstderr=%q", src, r.Stderr)
		}
		if (r.Exit == 0) != want {
			return core.Violf(kindOf(want), "`test run` finished with exit number %d, want passed=%v\n%s\nprogram:\n%s\nstdout=%q\nstderr=%q", r.Exit, want, ctx, src, r.Stdout, r.Stderr)
		}
	default:
		return core.Violf("bad-case", "mode %q", c.Mode)
	}
	return nil
}

func kindOf(want bool) string {
	if want {
		return "false-fail" // every assertion holds, reported failed
	}
	return "false-pass" // an assertion does not hold, reported passed
}

// ---------------------------------------------------------------------------
// generator

var safeTok = []string{"a", "b", "foo", "bar", "Hello World", "x1", "0", "1", "42", " ", "_", "-", ".", ",", ":", "ok", "error", "E", "Z"}

func safeString(t *rapid.T, min int, label string) string {
	n := rapid.IntRange(min, 4).Draw(t, label+"-parts")
	var b strings.Builder
	for i := 0; i < n; i++ {
		if rapid.IntRange(0, 5).Draw(t, label+"-nl") == 5 {
			b.WriteString("\n")
			continue
		}
		b.WriteString(rapid.SampledFrom(safeTok).Draw(t, label+"-tok"))
	}
	return b.String()
}

func genText(t *rapid.T, rich bool, min int, label string) string {
	if rich {
		s := gen.HostileString(gen.StrOpts{MaxParts: 5, Newlines: true}).Draw(t, label)
		if len(s) >= min {
			return s
		}
	}
	return safeString(t, min, label)
}

// different returns a string that differs from s.
func different(t *rapid.T, s string, rich bool, label string) string {
	switch rapid.IntRange(0, 3).Draw(t, label+"-how") {
	case 0:
		return s + "x"
	case 1:
		if len(s) > 1 {
			return s[:len(s)-1]
		}
		return s + " "
	case 2:
		if strings.HasSuffix(s, "\n") {
			return strings.TrimSuffix(s, "\n")
		}
		return s + "\n"
	default:
		o := genText(t, rich, 1, label+"-other")
		if o == s {
			return s + "y"
		}
		return o
	}
}

// regexFor returns a regexp that matches (hold) or does not match s.
func regexFor(t *rapid.T, s string, hold bool, label string) string {
	if !hold {
		switch rapid.IntRange(0, 2).Draw(t, label+"-miss") {
		case 0:
			return "^" + regexp.QuoteMeta(s+"x") + "$"
		case 1:
			return regexp.QuoteMeta("NOT-IN-OUTPUT-") + "[0-9]+"
		default:
			if s == "" {
				return "."
			}
			return "^" + regexp.QuoteMeta(s) + ".+$"
		}
	}
	switch rapid.IntRange(0, 4).Draw(t, label+"-hit") {
	case 0:
		return "^" + regexp.QuoteMeta(s) + "$"
	case 1:
		if len(s) > 0 {
			i := rapid.IntRange(0, len(s)-1).Draw(t, label+"-from")
			j := rapid.IntRange(i+1, len(s)).Draw(t, label+"-to")
			sub := s[i:j]
			if strings.ToValidUTF8(sub, "") == sub {
				return regexp.QuoteMeta(sub)
			}
		}
		return "^"
	case 2:
		return "(?s)^.*$"
	case 3:
		if s == "" {
			return "^$"
		}
		for _, r := range s { // first rune
			return "(?s)^" + regexp.QuoteMeta(string(r))
		}
		return "^"
	default:
		return "^" + regexp.QuoteMeta(s)
	}
}

var types_ = []string{"str", "json", "generic", "yaml", "int"}

func gen_(t *rapid.T) Case {
	var c Case
	c.Mode = rapid.SampledFrom([]string{"api", "api", "e2e"}).Draw(t, "mode")
	rich := c.Mode == "api"
	c.OutType = rapid.SampledFrom([]string{"json", "str"}).Draw(t, "type")
	c.Exit = rapid.SampledFrom([]int{0, 0, 1, 2, 13, 255}).Draw(t, "exit")
	var jv any
	if c.OutType == "json" {
		str := rapid.Custom(func(t *rapid.T) string { return genText(t, rich, 0, "jstr") })
		key := rapid.StringMatching(`[a-z]{1,3}`)
		switch rapid.IntRange(0, 4).Draw(t, "json-shape") {
		case 0, 1:
			jv = rapid.SliceOfN(gen.JSONValue(gen.JSONOpts{MaxDepth: 1, Str: str, Key: key, NoFloat: true}), 0, 5).Draw(t, "arr")
		case 2, 3:
			jv = rapid.MapOfN(key, gen.JSONValue(gen.JSONOpts{MaxDepth: 1, Str: str, Key: key, NoFloat: true}), 0, 5).Draw(t, "map")
		default:
			jv = gen.JSONValue(gen.JSONOpts{MaxDepth: 0, Str: str, Key: key, NoFloat: true, NoNull: true}).Draw(t, "scalar")
		}
		var b []byte
		if rapid.Bool().Draw(t, "indent") {
			b, _ = json.MarshalIndent(jv, "", "  ")
		} else {
			b, _ = json.Marshal(jv)
		}
		c.Stdout = string(b)
		if rapid.Bool().Draw(t, "json-nl") {
			c.Stdout += "\n"
		}
	} else {
		c.Stdout = genText(t, rich, 0, "stdout")
	}
	var ev any
	switch rapid.IntRange(0, 5).Draw(t, "has-stderr") {
	case 4:
		c.Stderr = genText(t, rich, 1, "stderr")
	case 5:
		// structured stderr with a declared data type
		c.ErrType = "json"
		str := rapid.Custom(func(t *rapid.T) string { return genText(t, rich, 0, "ejstr") })
		key := rapid.StringMatching(`[a-z]{1,3}`)
		if rapid.Bool().Draw(t, "stderr-array") {
			ev = rapid.SliceOfN(gen.JSONValue(gen.JSONOpts{MaxDepth: 1, Str: str, Key: key, NoFloat: true}), 0, 4).Draw(t, "earr")
		} else {
			ev = rapid.MapOfN(key, gen.JSONValue(gen.JSONOpts{MaxDepth: 1, Str: str, Key: key, NoFloat: true}), 0, 4).Draw(t, "emap")
		}
		b, _ := json.Marshal(ev)
		c.Stderr = string(b)
	}

	// which assertions, and which of them are falsified
	kinds := []string{"StdoutMatch", "StdoutRegex", "StdoutType"}
	if c.OutType == "json" {
		kinds = append(kinds, "StdoutIsArray", "StdoutIsMap", "StdoutGreaterThan")
	}
	kinds = append(kinds, "StderrMatch", "StderrRegex")
	if c.ErrType == "json" {
		kinds = append(kinds, "StderrIsArray", "StderrIsMap", "StderrType")
	}
	chosen := map[string]bool{"ExitNum": true}
	for _, k := range kinds {
		if rapid.IntRange(0, 2).Draw(t, "use-"+k) != 0 {
			chosen[k] = true
		}
	}
	if c.Stderr != "" && !chosen["StderrMatch"] && !chosen["StderrRegex"] {
		chosen[rapid.SampledFrom([]string{"StderrMatch", "StderrRegex"}).Draw(t, "stderr-assert")] = true
	}
	var names []string
	for k := range chosen {
		names = append(names, k)
	}
	sort.Strings(names)
	nFalse := rapid.SampledFrom([]int{0, 0, 1, 1, 1, 2, 3}).Draw(t, "falsified")
	falsify := map[string]bool{}
	for i := 0; i < nFalse && len(names) > 0; i++ {
		falsify[rapid.SampledFrom(names).Draw(t, "which-false")] = true
	}

	// ExitNum
	c.Plan.ExitNum = c.Exit
	if falsify["ExitNum"] {
		c.Plan.ExitNum = rapid.SampledFrom([]int{c.Exit + 1, c.Exit - 1, 0, 1, 255}).Draw(t, "wrong-exit")
		if c.Plan.ExitNum == c.Exit {
			c.Plan.ExitNum = c.Exit + 2
		}
	}
	if chosen["StdoutMatch"] {
		if falsify["StdoutMatch"] {
			c.Plan.StdoutMatch = different(t, c.Stdout, rich, "so-diff")
		} else {
			c.Plan.StdoutMatch = c.Stdout // "" = not asserted
		}
	}
	if chosen["StdoutRegex"] {
		c.Plan.StdoutRegex = regexFor(t, c.Stdout, !falsify["StdoutRegex"], "so-rx")
	}
	if chosen["StdoutType"] {
		c.Plan.StdoutType = c.OutType
		if falsify["StdoutType"] {
			for c.Plan.StdoutType == c.OutType {
				c.Plan.StdoutType = rapid.SampledFrom(types_).Draw(t, "wrong-type")
			}
		}
	}
	if c.OutType == "json" {
		a, isA := jv.([]any)
		m, isM := jv.(map[string]any)
		// IsArray / IsMap can only be asserted, so "falsified" means asserting
		// the one the value is not; "holds" means asserting the one it is
		if chosen["StdoutIsArray"] && (isA != falsify["StdoutIsArray"]) {
			c.Plan.StdoutIsArray = true
		}
		if chosen["StdoutIsMap"] && (isM != falsify["StdoutIsMap"]) {
			c.Plan.StdoutIsMap = true
		}
		if chosen["StdoutGreaterThan"] {
			l := -1
			if isA {
				l = len(a)
			}
			if isM {
				l = len(m)
			}
			if falsify["StdoutGreaterThan"] || l < 2 {
				if falsify["StdoutGreaterThan"] {
					c.Plan.StdoutGreaterThan = l + 1 + rapid.IntRange(0, 3).Draw(t, "gt-over")
					if c.Plan.StdoutGreaterThan < 1 {
						c.Plan.StdoutGreaterThan = 1
					}
				}
			} else {
				c.Plan.StdoutGreaterThan = rapid.IntRange(1, l-1).Draw(t, "gt-under")
			}
		}
	}
	if c.ErrType == "json" {
		_, isA := ev.([]any)
		_, isM := ev.(map[string]any)
		if chosen["StderrIsArray"] && (isA != falsify["StderrIsArray"]) {
			c.Plan.StderrIsArray = true
		}
		if chosen["StderrIsMap"] && (isM != falsify["StderrIsMap"]) {
			c.Plan.StderrIsMap = true
		}
		if chosen["StderrType"] {
			c.Plan.StderrType = "json"
			if falsify["StderrType"] {
				c.Plan.StderrType = rapid.SampledFrom([]string{"str", "yaml", "int"}).Draw(t, "wrong-errtype")
			}
		}
	}
	if chosen["StderrMatch"] {
		if falsify["StderrMatch"] {
			c.Plan.StderrMatch = different(t, c.Stderr, rich, "se-diff")
		} else {
			c.Plan.StderrMatch = c.Stderr
		}
	}
	if chosen["StderrRegex"] || (c.Stderr != "" && c.Plan.StderrMatch == "") {
		c.Plan.StderrRegex = regexFor(t, c.Stderr, !falsify["StderrRegex"], "se-rx")
	}
	return c
}

// ---------------------------------------------------------------------------

func classify(c Case) core.Class {
	vs, ok, _ := evaluate(c)
	if !ok {
		return core.Class{Label: c.Mode + " unstated"}
	}
	nFalse := 0
	var shape []string
	for _, v := range vs {
		if !v.holds {
			nFalse++
			shape = append(shape, "!"+v.name)
		} else {
			shape = append(shape, v.name)
		}
	}
	cl := core.Class{Key: c.Mode + "|" + c.OutType + "|" + strings.Join(shape, ",") + "|" + fmt.Sprint(core.Hash64(c.Stdout+"\x00"+c.Stderr+"\x00"+c.planJSON()))}
	switch {
	case len(vs) >= 2 && nFalse == 1:
		cl.NonTrivial = true
		cl.Label = fmt.Sprintf("%s exactly-one-false (%s)", c.Mode, strings.Join(shape, ","))
		// the histogram would have hundreds of shapes: name only the falsified one
		for _, v := range vs {
			if !v.holds {
				cl.Label = fmt.Sprintf("%s one-false:%s", c.Mode, v.name)
			}
		}
	case nFalse == 0 && len(vs) >= 3:
		cl.NonTrivial = true
		cl.Label = c.Mode + " all-true(>=3)"
	case nFalse == 0:
		cl.Label = c.Mode + " all-true(<3)"
	case nFalse > 1:
		cl.Label = c.Mode + " several-false"
	default:
		cl.Label = c.Mode + " single-assertion-false"
	}
	return cl
}

func known(c Case, v *core.Violation) string { return "" }

var spec = core.Spec[Case]{
	ID: "C31", Gen: gen_, Check: check, Classify: classify, Known: known,
	Sample: func(c Case) any {
		vs, _, _ := evaluate(c)
		return map[string]any{"mode": c.Mode, "stdout": c.Stdout, "stdout_type": c.OutType, "stderr": c.Stderr, "exit": c.Exit, "plan": c.Plan, "assertions": describe(vs)}
	},
}

func TestProp(t *testing.T)   { core.RunProp(t, spec) }
func TestReplay(t *testing.T) { core.Replay(t, spec) }
