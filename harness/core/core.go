// Package core is the shared runtime of the /verif harness: an in-process murex
// runner, the per-run statistics collector (evidence), the journal used to
// attribute process-killing cases, the failure recorder that turns a shrunk
// rapid failure into a replay file, and the known-finding filter.
//
// Every property package has the same shape:
//
//	type Case struct{ ... }                      // JSON-serialisable
//	func gen(t *rapid.T) Case                    // all randomness comes from rapid
//	func check(c Case) *core.Violation           // pure function of c and the code under test
//	func classify(c Case) core.Class             // non-trivial rule + class label
//	func TestProp(t *testing.T)   { core.RunProp(t, spec) }
//	func TestReplay(t *testing.T) { core.Replay(t, spec) }
//	func TestMain(m *testing.M)   { core.Main(m, "Cxx") }
package core

import (
	"encoding/json"
	"fmt"
	"hash/fnv"
	"os"
	"sort"
	"strconv"
	"sync"
	"testing"
	"time"

	"pgregory.net/rapid"
)

// Violation describes one failing case.
type Violation struct {
	// Kind is a short stable label of the way the property failed; known
	// finding predicates may look at it.
	Kind string `json:"kind"`
	// Msg is the human readable explanation (expected vs. got).
	Msg string `json:"msg"`
}

func (v *Violation) Error() string { return v.Kind + ": " + v.Msg }

// Violf builds a Violation.
func Violf(kind, format string, a ...any) *Violation {
	return &Violation{Kind: kind, Msg: fmt.Sprintf(format, a...)}
}

// Class is the classification of one generated case.
type Class struct {
	// NonTrivial reports whether the case is non-trivial by the property's
	// stated rule.
	NonTrivial bool
	// Label names the class the case belongs to (histogram key).
	Label string
	// Key identifies the case for the distinct count. When empty the JSON
	// encoding of the case is used.
	Key string
}

// Spec binds a property's generator, oracle and classifier.
type Spec[C any] struct {
	ID       string
	Gen      func(t *rapid.T) C
	Check    func(c C) *Violation
	Classify func(c C) Class
	// Known maps a failing case to the id of a known finding (see
	// known_findings.json) or "" when the failure is not a listed finding.
	// It must be as narrow as the root cause allows.
	Known func(c C, v *Violation) string
	// Journal makes the runner write every case to $VERIF_JOURNAL before it
	// is executed, so a case that kills or wedges the process is still known
	// to the driver.
	Journal bool
	// JournalOf, when set, gives the value journalled for a case instead of the
	// case itself (a case that has to be replayed together with earlier ones
	// whose delayed effects are still pending).
	JournalOf func(c C) any
	// Sample renders a case for the evidence file (defaults to the case).
	Sample func(c C) any
}

// ---------------------------------------------------------------------------
// statistics

type stats struct {
	mu          sync.Mutex
	Property    string            `json:"property"`
	Evaluations int               `json:"evaluations"`
	NonTrivial  int               `json:"nontrivial"`
	Hashes      []string          `json:"hashes"`
	hashSet     map[uint64]bool   `json:"-"`
	Classes     map[string]int    `json:"classes"`
	Excluded    map[string]int    `json:"excluded_known"`
	Samples     []any             `json:"samples"`
	sampleCls   map[string]int    `json:"-"`
	Extra       map[string]int    `json:"extra"`
	Notes       map[string]string `json:"notes"`
	Failed      bool              `json:"failed"`
	WallS       float64           `json:"wall_s"`
	start       time.Time
}

var st = &stats{
	hashSet:   map[uint64]bool{},
	Classes:   map[string]int{},
	Excluded:  map[string]int{},
	sampleCls: map[string]int{},
	Extra:     map[string]int{},
	Notes:     map[string]string{},
}

const maxHashes = 3_000_000
const maxSamplesPerClass = 2
const maxSamples = 16

// Hash64 is the hash used for the distinct count.
func Hash64(s string) uint64 {
	h := fnv.New64a()
	h.Write([]byte(s))
	return h.Sum64()
}

// Record counts one evaluated case.
func Record(cl Class, key string, sample func() any) {
	st.mu.Lock()
	defer st.mu.Unlock()
	st.Evaluations++
	label := cl.Label
	if label == "" {
		if cl.NonTrivial {
			label = "nontrivial"
		} else {
			label = "trivial"
		}
	}
	st.Classes[label]++
	if !cl.NonTrivial {
		return
	}
	st.NonTrivial++
	h := Hash64(key)
	if !st.hashSet[h] && len(st.hashSet) < maxHashes {
		st.hashSet[h] = true
		if st.sampleCls[label] < maxSamplesPerClass && len(st.Samples) < maxSamples && sample != nil {
			st.sampleCls[label]++
			st.Samples = append(st.Samples, sample())
		}
	}
}

// Count adds n to a named extra counter of the evidence file.
func Count(name string, n int) {
	st.mu.Lock()
	st.Extra[name] += n
	st.mu.Unlock()
}

// Note records a free-text fact for the evidence file.
func Note(name, text string) {
	st.mu.Lock()
	st.Notes[name] = text
	st.mu.Unlock()
}

// ExcludedKnown counts a case excluded because it matches a known finding.
func ExcludedKnown(id string) {
	st.mu.Lock()
	st.Excluded[id]++
	st.mu.Unlock()
}

func flushStats() {
	path := os.Getenv("VERIF_STATS")
	if path == "" {
		return
	}
	st.mu.Lock()
	defer st.mu.Unlock()
	st.Hashes = st.Hashes[:0]
	for h := range st.hashSet {
		st.Hashes = append(st.Hashes, strconv.FormatUint(h, 16))
	}
	sort.Strings(st.Hashes)
	st.WallS = time.Since(st.start).Seconds()
	b, err := json.Marshal(st)
	if err != nil {
		fmt.Fprintln(os.Stderr, "verif: cannot marshal stats:", err)
		return
	}
	tmp := path + ".tmp"
	if err := os.WriteFile(tmp, b, 0o644); err == nil {
		os.Rename(tmp, path)
	}
}

// Main is the TestMain of every property package.
func Main(m *testing.M, id string) { MainWith(m, id, nil) }

// MainWith is Main with a cleanup function run before the process exits.
func MainWith(m *testing.M, id string, cleanup func()) {
	st.Property = id
	st.start = time.Now()
	loadKnown()
	code := m.Run()
	if code != 0 {
		st.Failed = true
	}
	flushStats()
	if cleanup != nil {
		cleanup()
	}
	os.Exit(code)
}

// ---------------------------------------------------------------------------
// known findings

type knownFinding struct {
	Property string `json:"property"`
	ID       string `json:"id"`
	Status   string `json:"status"` // "open" (known finding) or "fixed"
}

var knownOpen = map[string]bool{}

func loadKnown() {
	path := os.Getenv("VERIF_KNOWN")
	if path == "" {
		path = "/verif/known_findings.json"
	}
	b, err := os.ReadFile(path)
	if err != nil {
		return
	}
	var doc struct {
		Findings []knownFinding `json:"findings"`
	}
	if json.Unmarshal(b, &doc) != nil {
		return
	}
	for _, f := range doc.Findings {
		if f.Status == "open" {
			knownOpen[f.ID] = true
		}
	}
}

// IsKnownOpen reports whether the finding id is listed as an open known
// finding. A "fixed" entry suppresses nothing.
func IsKnownOpen(id string) bool { return id != "" && knownOpen[id] }

// ---------------------------------------------------------------------------
// journal and failure recording

var journalFile *os.File
var journalMu sync.Mutex

func journal(b []byte) {
	path := os.Getenv("VERIF_JOURNAL")
	if path == "" {
		return
	}
	journalMu.Lock()
	defer journalMu.Unlock()
	if journalFile == nil {
		f, err := os.OpenFile(path, os.O_CREATE|os.O_RDWR|os.O_TRUNC, 0o644)
		if err != nil {
			return
		}
		journalFile = f
	}
	journalFile.WriteAt(b, 0)
	journalFile.Truncate(int64(len(b)))
}

// FailRecord is the on-disk form of a failing case (replay file).
type FailRecord struct {
	Property  string          `json:"property"`
	Kind      string          `json:"kind"`
	Msg       string          `json:"msg"`
	Known     string          `json:"known,omitempty"`
	Case      json.RawMessage `json:"case"`
	RapidSeed string          `json:"rapid_seed,omitempty"`
}

func writeFail(id string, caseJSON []byte, v *Violation) {
	path := os.Getenv("VERIF_FAILCASE")
	if path == "" {
		return
	}
	rec := FailRecord{Property: id, Kind: v.Kind, Msg: v.Msg, Case: caseJSON}
	b, _ := json.MarshalIndent(rec, "", " ")
	tmp := path + ".tmp"
	if os.WriteFile(tmp, b, 0o644) == nil {
		os.Rename(tmp, path)
	}
}

// RunProp drives the property with rapid.
func RunProp[C any](t *testing.T, s Spec[C]) {
	rapid.Check(t, func(rt *rapid.T) {
		c := s.Gen(rt)
		if v := Eval(s, c, true); v != nil {
			rt.Fatalf("%s violated: %s", s.ID, v.Error())
		}
	})
}

// Eval classifies, journals, executes and filters one case. It returns a
// violation only when the failure is not a listed known finding.
func Eval[C any](s Spec[C], c C, record bool) *Violation {
	b, err := json.Marshal(c)
	if err != nil {
		panic("verif: case not serialisable: " + err.Error())
	}
	if s.Journal {
		jb := b
		if s.JournalOf != nil {
			if x, err := json.Marshal(s.JournalOf(c)); err == nil {
				jb = x
			}
		}
		journal(jb)
	}
	if record {
		cl := Class{NonTrivial: true}
		if s.Classify != nil {
			cl = s.Classify(c)
		}
		key := cl.Key
		if key == "" {
			key = string(b)
		}
		Record(cl, key, func() any {
			if s.Sample != nil {
				return s.Sample(c)
			}
			return json.RawMessage(b)
		})
	}
	v := s.Check(c)
	if v == nil {
		return nil
	}
	if s.Known != nil {
		if id := s.Known(c, v); IsKnownOpen(id) {
			ExcludedKnown(id)
			return nil
		}
	}
	writeFail(s.ID, b, v)
	return v
}

// Replay re-runs the case stored in $VERIF_REPLAY (a FailRecord or a bare
// case) without rapid. With VERIF_REPLAY_EXPECT=known the failure is matched
// against the Known predicate and reported as "KNOWN <id>" on stdout.
func Replay[C any](t *testing.T, s Spec[C]) {
	path := os.Getenv("VERIF_REPLAY")
	if path == "" {
		t.Skip("VERIF_REPLAY not set")
	}
	raw, err := os.ReadFile(path)
	if err != nil {
		t.Fatalf("cannot read replay: %v", err)
	}
	var rec FailRecord
	caseJSON := raw
	if json.Unmarshal(raw, &rec) == nil && len(rec.Case) > 0 {
		caseJSON = rec.Case
	}
	var c C
	if err := json.Unmarshal(caseJSON, &c); err != nil {
		t.Fatalf("cannot decode case: %v", err)
	}
	if s.Journal {
		journal(caseJSON)
	}
	v := s.Check(c)
	if v == nil {
		fmt.Println("REPLAY-RESULT holds")
		return
	}
	id := ""
	if s.Known != nil {
		id = s.Known(c, v)
	}
	fmt.Printf("REPLAY-RESULT fails known=%q kind=%s msg=%s\n", id, v.Kind, strconv.Quote(v.Msg))
	writeFail(s.ID, caseJSON, v)
	t.Fatalf("%s violated on replay: %s", s.ID, v.Error())
}

// EnvInt reads an integer environment variable with a default.
func EnvInt(name string, def int) int {
	if s := os.Getenv(name); s != "" {
		if n, err := strconv.Atoi(s); err == nil {
			return n
		}
	}
	return def
}

// Thorough reports whether the thorough tier is running.
func Thorough() bool { return os.Getenv("VERIF_TIER") == "thorough" }
