package core

import (
	"fmt"
	"os"
	"runtime"
	"sync"
	"sync/atomic"
	"time"

	_ "github.com/lmorg/murex/builtins"
	"github.com/lmorg/murex/config"
	"github.com/lmorg/murex/config/defaults"
	"github.com/lmorg/murex/lang"
	"github.com/lmorg/murex/lang/ref"
)

var initOnce sync.Once

// InitMurex initialises the interpreter once per process, exactly like the
// repository's own test.RunMurexTests does.
func InitMurex() {
	initOnce.Do(func() {
		defaults.Config(config.InitConf, false)
		lang.InitEnv()
	})
}

// Result is what one in-process execution produced.
type Result struct {
	Stdout []byte
	Stderr []byte
	Exit   int
	// Err is the error returned by Fork.Execute (parse / compile errors).
	Err error
	// Hung is set when the program did not finish within the hang budget.
	Hung bool
	// Dump holds a goroutine dump taken when Hung.
	Dump string
}

var modCounter int64

// HangBudget is the no-progress budget after which an in-process execution
// is declared hung. It is deliberately generous: ordinary cases take well
// under 10 ms.
var HangBudget = 120 * time.Second

// RunOpts tunes Run.
type RunOpts struct {
	// Stdin, when non-nil, is written to the fork's stdin with StdinType.
	Stdin     []byte
	StdinType string
	// Module overrides the module name (default: a unique one per call).
	Module string
	// Flags are extra fork flags.
	Flags int
	// Prepare is called with the fork before execution.
	Prepare func(f *lang.Fork)
}

// Run executes a murex block in-process in a fresh function-scoped fork and
// returns its stdout, stderr and exit number.
func Run(src string) Result { return RunWith(src, RunOpts{}) }

// RunStdin executes the block with the given bytes on its stdin.
func RunStdin(src string, stdin []byte, dataType string) Result {
	return RunWith(src, RunOpts{Stdin: stdin, StdinType: dataType})
}

// RunWith is Run with options.
func RunWith(src string, o RunOpts) Result {
	InitMurex()
	flags := lang.F_FUNCTION | lang.F_NEW_MODULE | lang.F_CREATE_STDOUT | lang.F_CREATE_STDERR | o.Flags
	if o.Stdin != nil {
		flags |= lang.F_CREATE_STDIN
	} else {
		flags |= lang.F_NO_STDIN
	}
	fork := lang.ShellProcess.Fork(flags)
	fork.Name.Set("verif")
	mod := o.Module
	if mod == "" {
		mod = fmt.Sprintf("verif/m%d", atomic.AddInt64(&modCounter, 1))
	}
	fork.FileRef = &ref.File{Source: &ref.Source{Module: mod}}
	if o.Stdin != nil {
		fork.Stdin.Open()
		if o.StdinType != "" {
			fork.Stdin.SetDataType(o.StdinType)
		}
		go func() {
			fork.Stdin.Write(o.Stdin)
			fork.Stdin.Close()
		}()
	}
	if o.Prepare != nil {
		o.Prepare(fork)
	}

	type out struct {
		r Result
	}
	done := make(chan Result, 1)
	go func() {
		var r Result
		r.Exit, r.Err = fork.Execute([]rune(src))
		r.Stderr, _ = fork.Stderr.ReadAll()
		r.Stdout, _ = fork.Stdout.ReadAll()
		done <- r
	}()
	select {
	case r := <-done:
		return r
	case <-time.After(HangBudget):
		buf := make([]byte, 1<<20)
		n := runtime.Stack(buf, true)
		return Result{Hung: true, Dump: string(buf[:n]), Exit: -1}
	}
}

// WorkDir returns a per-process scratch directory under /verif/.work which is
// removed by CleanWorkDir.
func WorkDir(id string) string {
	base := os.Getenv("VERIF_WORK")
	if base == "" {
		base = "/verif/.work"
	}
	d := fmt.Sprintf("%s/%s/%d", base, id, os.Getpid())
	os.MkdirAll(d, 0o755)
	return d
}

// CleanWorkDir removes the scratch directory of this process.
func CleanWorkDir(id string) {
	base := os.Getenv("VERIF_WORK")
	if base == "" {
		base = "/verif/.work"
	}
	os.RemoveAll(fmt.Sprintf("%s/%s/%d", base, id, os.Getpid()))
}
