#!/bin/bash
# usage: [AGENT_WT=<agent worktree>] [OUT_NAME=<dir under seeded/>] tools/seedcheck.sh <ID> [seeddir-name(SEED)] [extra property ids to run...]
# Confirms a seeded change written by a sub-agent in /tmp/seed-<ID>/<SEED>/patch.diff:
#  1. applies it to a fresh scratch worktree of /repo HEAD (/tmp/sv-<ID>), builds;
#  2. runs the repository test suite there (JSON) and lists failing tests not in the always-failing set;
#  3. runs ./check <ID> (quick) against it via VERIF_REPO and reports whether a VIOLATION was printed;
#  4. removes the worktree.
id=$1; sd=${2:-SEED}; shift; shift
awt=${AGENT_WT:-/tmp/seed-$id}
src=$awt/$sd
wt=/tmp/sv-$id-$sd
sfx=${sd#SEED}; out=/verif/seeded/${OUT_NAME:-$id${sfx:+-$sfx}}
mkdir -p $out
git -C /repo worktree remove --force $wt 2>/dev/null
git -C /repo worktree add -q --detach $wt HEAD || exit 1
cp $src/patch.diff $out/patch.diff
if ! git -C $wt apply $out/patch.diff; then echo "PATCH DOES NOT APPLY"; git -C /repo worktree remove --force $wt; exit 1; fi
(cd $wt && go build ./...) || { echo "DOES NOT BUILD"; git -C /repo worktree remove --force $wt; exit 1; }
# demonstration: DEMO_FILES="relpath ..." (copied from the agent's worktree), DEMO_CMD="command run inside the worktree"
if [ -n "$DEMO_CMD" ]; then
  mkdir -p $out/demo
  # each entry is src[:dst] relative to the agent's worktree / the scratch worktree
  for e in $DEMO_FILES; do f=${e%%:*}; d=${e##*:}; mkdir -p $wt/$(dirname $d); cp $awt/$f $wt/$d; cp $awt/$f $out/demo/$(basename $d); done
  echo "== demo WITH the change (must fail)"
  (cd $wt && eval "$DEMO_CMD" > $out/demo_with.txt 2>&1; echo "demo exit with change: $?") | tee -a $out/demo_result.txt
  git -C $wt apply -R $out/patch.diff
  echo "== demo WITHOUT the change (must pass)"
  (cd $wt && eval "$DEMO_CMD" > $out/demo_without.txt 2>&1; echo "demo exit without change: $?") | tee -a $out/demo_result.txt
  git -C $wt apply $out/patch.diff
  for e in $DEMO_FILES; do rm -f $wt/${e##*:}; done
fi
echo "== test suite on patched tree"
(cd $wt && MUREX_TEST_NO_HTTP=true nice -n -10 go test -vet=off -count=1 -p 3 -json ./... 2>/dev/null | python3 -c "
import sys,json
fails=set()
for l in sys.stdin:
    try: e=json.loads(l)
    except: continue
    if e.get('Action')=='fail' and e.get('Test'): fails.add(e['Package'].replace('github.com/lmorg/murex','.')+'::'+e['Test'])
print('FAILING:', sorted(fails))
") | tee $out/suite.txt
echo "== check $id against patched tree"
(cd /verif && VERIF_REPO=$wt timeout 1500 ./check $id 2>&1 | grep -E "VIOLATION|quick:|BUILD|INCONCL" | cut -c1-250 | head -8) | tee $out/check.txt
for extra in "$@"; do
  echo "== check $extra against patched tree"
  (cd /verif && VERIF_REPO=$wt timeout 1500 ./check $extra 2>&1 | grep -E "VIOLATION|quick:|BUILD|INCONCL" | cut -c1-250 | head -4) | tee -a $out/check.txt
done
git -C /repo worktree remove --force $wt
rm -f /verif/harness/.bin/*.$(echo -n $wt | sha256sum | cut -c1-8).test
