#!/bin/bash
# usage: tools/thoroughpass.sh <seed> <log> [ids...]   runs the thorough tier of every (or the given) property, one after the other
cd /verif
ids="${@:3}"; [ -z "$ids" ] && ids=$(ls harness/props/*/config.json | sed 's#.*/props/\(.*\)/config.json#\1#' | tr a-z A-Z)
for id in $ids; do
  s=$(date +%s)
  out=$(VERIF_SEED=$1 ./check $id --tier thorough 2>&1); rc=$?
  echo "$id seed=$1 rc=$rc wall=$(( $(date +%s)-s ))s $(echo "$out" | grep -E "thorough:" | sed 's/.*evaluations=/ev=/' | cut -c1-70)" >> $2
  if [ $rc -ne 0 ]; then echo "$out" | grep -E "VIOLATION|INCONCL|BUILD|inconclusive" | cut -c1-300 >> $2; fi
done
echo PASSDONE >> $2
