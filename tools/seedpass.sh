#!/bin/bash
# usage: seedpass.sh <seed> <log>
cd /verif
for id in $(ls harness/props/*/config.json | sed 's#.*/props/\(.*\)/config.json#\1#' | tr a-z A-Z); do
  s=$(date +%s)
  out=$(VERIF_SEED=$1 ./check $id 2>&1); rc=$?
  echo "$id seed=$1 rc=$rc wall=$(( $(date +%s)-s ))s $(echo "$out" | grep -E "quick:" | sed 's/.*evaluations=/ev=/' | cut -c1-60)" >> $2
  if [ $rc -ne 0 ]; then echo "$out" | grep -E "VIOLATION|INCONCL|BUILD" | cut -c1-300 >> $2; fi
done
echo PASSDONE >> $2
