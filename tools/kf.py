#!/usr/bin/env python3
"""Add or update an entry of /verif/known_findings.json (file-locked; used while building,
never by a registered check).

  tools/kf.py add --property C16 --id C16-negative-index-panic --status open|fixed \
        --what "<what fails, one line>" --witness known/C16/neg.json [--commit <sha>] [--crashes]
"""
import argparse, fcntl, json, os, sys
ROOT = os.path.dirname(os.path.dirname(os.path.abspath(__file__)))
PATH = os.path.join(ROOT, "known_findings.json")

def main():
    ap = argparse.ArgumentParser()
    ap.add_argument("cmd", choices=["add", "list"])
    ap.add_argument("--property"); ap.add_argument("--id"); ap.add_argument("--status", default="open")
    ap.add_argument("--what"); ap.add_argument("--witness", default=""); ap.add_argument("--commit", default="")
    ap.add_argument("--crashes", action="store_true")
    a = ap.parse_args()
    with open(PATH + ".lock", "w") as lk:
        fcntl.flock(lk, fcntl.LOCK_EX)
        doc = json.load(open(PATH))
        if a.cmd == "list":
            for f in doc["findings"]:
                print(f["property"], f["status"], f["id"], "-", f["what"])
            return
        ent = {"property": a.property, "id": a.id, "status": a.status, "what": a.what, "witness": a.witness}
        if a.commit: ent["commit"] = a.commit
        if a.crashes: ent["crashes"] = True
        if a.status == "fixed":
            ent["line"] = f"fixed: property={a.property} {a.commit} {a.what}"
        doc["findings"] = [f for f in doc["findings"] if f["id"] != a.id] + [ent]
        doc["findings"].sort(key=lambda f: (f["property"], f["id"]))
        tmp = PATH + ".tmp"
        json.dump(doc, open(tmp, "w"), indent=1, ensure_ascii=False)
        os.replace(tmp, PATH)
main()
