#!/bin/bash
# Runs the repository's pinned test suite on /repo's working tree (build tag off) and lists
# every test of /root/.vp/BASELINE.json "stable_pass" that did not pass.   usage: tools/baseline.sh <out.json>
out=${1:-/tmp/baseline.json}
cd /repo && export GOFLAGS=-mod=mod GOPROXY=off MUREX_TEST_NO_HTTP=true
go test -json -vet=off -count=1 -timeout 25m ./... > $out 2>/dev/null
python3 - $out <<'PY'
import json,sys
st=set(json.load(open('/root/.vp/BASELINE.json'))['stable_pass'])
res={}
for l in open(sys.argv[1]):
    try: e=json.loads(l)
    except: continue
    if e.get('Test') and e.get('Action') in ('pass','fail','skip'):
        res[e['Package']+'::'+e['Test']]=e['Action']
bad=sorted(t for t in st if res.get(t)!='pass')
print('stable tests:',len(st),'passed:',sum(1 for t in st if res.get(t)=='pass'))
for t in bad: print('NOT PASSED',t,res.get(t))
PY
cd /repo && git status --short | head -3
