#!/opt/veriftools/pyvenv/bin/python
"""Validates MANIFEST.json and every evidence file against the given schemas."""
import json, os, sys, glob, jsonschema
ROOT = os.path.dirname(os.path.dirname(os.path.abspath(__file__)))
ok = True
man = json.load(open(os.path.join(ROOT, "MANIFEST.json")))
try:
    jsonschema.validate(man, json.load(open("/root/.vp/MANIFEST.schema.json")))
except Exception as e:
    ok = False; print("MANIFEST invalid:", str(e)[:300])
es = json.load(open("/root/.vp/EVIDENCE.schema.json"))
for c in man["checks"]:
    p = os.path.join(ROOT, c["evidence_file"])
    if not os.path.exists(p):
        ok = False; print("missing evidence", p); continue
    try:
        jsonschema.validate(json.load(open(p)), es)
    except Exception as e:
        ok = False; print("evidence invalid", p, str(e)[:300])
print("valid" if ok else "INVALID"); sys.exit(0 if ok else 1)
