#!/bin/bash
# usage: tools/applyfix.sh <Cnn-slug> <go test package patterns...>
# Applies /verif/proposed_fixes/<slug>.diff to /repo, builds, runs the given package tests,
# commits it as a fix: commit and flips the known_findings entry to fixed.
slug=$1; shift
cd /repo; export MUREX_TEST_NO_HTTP=true
git apply --check /verif/proposed_fixes/$slug.diff || exit 1
git apply /verif/proposed_fixes/$slug.diff
ok=0
if go build ./... ; then
  for try in 1 2 3; do
    if nice -n -15 go test -vet=off -count=1 -p 2 "$@" > /tmp/applyfix.log 2>&1; then ok=1; break; fi
    # the repository's test helper panics when a package needs > 30 s (loaded machine): retry
    grep -q "panic: timeout in" /tmp/applyfix.log || break
  done
fi
if [ $ok = 1 ]; then
  git add -A
  git commit -q -F /verif/proposed_fixes/$slug.msg
  sha=$(git rev-parse --short HEAD)
  python3 - "$slug" "$sha" <<'PY'
import json,sys
slug,sha=sys.argv[1],sys.argv[2]
p='/verif/known_findings.json'
d=json.load(open(p))
for f in d['findings']:
    if f['id']==slug:
        f['status']='fixed'; f['commit']=sha
        f['line']=f"fixed: property={f['property']} {sha} {f['what']}"
json.dump(d,open(p,'w'),indent=1,ensure_ascii=False)
PY
  echo "APPLIED $slug as $sha"
else
  tail -30 /tmp/applyfix.log
  git checkout -- . ; git clean -fdq
  echo "FAILED $slug (reverted)"
  exit 1
fi
