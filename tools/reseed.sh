#!/bin/bash
# Re-verify every kept seeded change against the current checks:
#   tools/reseed.sh [<seed-dir> ...]      (default: all of seeded/*/)
# For each: fresh scratch worktree of /repo HEAD, apply patch.diff, run the quick
# tier of the property (plus the ids in meta.json "also") with VERIF_REPO, and
# write CAUGHT/MISSED to seeded/<dir>/recheck.txt. Nothing is kept in /tmp.
cd /verif
dirs="$@"; [ -z "$dirs" ] && dirs=$(ls -d seeded/C*/ | xargs -n1 basename)
for d in $dirs; do
  id=${d%%-*}
  wt=/tmp/rs-$d
  git -C /repo worktree remove --force $wt 2>/dev/null
  git -C /repo worktree add -q --detach $wt HEAD || continue
  if ! (cd $wt && git apply /verif/seeded/$d/patch.diff 2>/tmp/rs-$d.err); then
    echo "$d PATCH-DOES-NOT-APPLY $(head -1 /tmp/rs-$d.err)" | tee seeded/$d/recheck.txt
    git -C /repo worktree remove --force $wt; rm -f /tmp/rs-$d.err; continue
  fi
  rm -f /tmp/rs-$d.err
  out=$(VERIF_REPO=$wt ./check $id 2>&1); rc=$?
  if echo "$out" | grep -q "^VIOLATION property=$id"; then r=CAUGHT; else r=MISSED; fi
  echo "$d $r rc=$rc head=$(git -C /repo log --format=%h -1) $(echo "$out" | grep -E 'quick:' | cut -c1-120)" | tee seeded/$d/recheck.txt
  git -C /repo worktree remove --force $wt
  rm -f /verif/harness/.bin/*.$(echo -n $wt | sha256sum | cut -c1-8).test
  rm -rf failures/$id
done
