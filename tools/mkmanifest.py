#!/usr/bin/env python3
"""Regenerates /verif/MANIFEST.json from harness/props/*/config.json (one per claimed property)."""
import json, os, glob
ROOT = os.path.dirname(os.path.dirname(os.path.abspath(__file__)))
props = [json.loads(l) for l in open(os.path.join(ROOT, "properties.jsonl"))]
ids = [p["id"] for p in props]
na_path = os.path.join(ROOT, "not_applicable.json")
na = json.load(open(na_path)) if os.path.exists(na_path) else {}
checks, claimed = [], []
for pid in ids:
    cp = os.path.join(ROOT, "harness", "props", pid.lower(), "config.json")
    if not os.path.exists(cp) or pid in na:
        continue
    cfg = json.load(open(cp)); m = cfg["manifest"]
    claimed.append(pid)
    c = {"property_id": pid, "quick_cmd": f"./check {pid} --tier quick", "thorough_cmd": f"./check {pid} --tier thorough",
         "evidence_file": f"evidence/{pid}.json", "replay_cmd_template": f"./check {pid} --replay {{path}}", "engine": "harness",
         "level_claimed": {"category": "exploration", "text": m["level_text"], "design_ref": f"DESIGN.md §6 {pid}"},
         "level_note": m["level_note"], "technique": m["technique"]}
    checks.append(c)
hooks_path = os.path.join(ROOT, "hooks.json")
hooks = json.load(open(hooks_path)) if os.path.exists(hooks_path) else {"source_commits": []}
man = {
 "version": 1,
 "setup_cmd": "./setup",
 "hooks": {"guard": "verif",
  "enable": "go test -tags verif (the harness module replaces github.com/lmorg/murex with /repo, so every check compiles /repo's working tree with the tag on)",
  "baseline_off_cmd": "cd /repo && go build ./... && go test -vet=off -count=1 -timeout 25m ./...",
  "source_commits": hooks.get("source_commits", []), "add_only": True},
 "engines": [{"name": "harness", "path": "harness", "serves_properties": claimed,
   "kind_free_text": "Go module driven by pgregory.net/rapid v1.3.0 (property-based and stateful generation with shrinking) and native go fuzzing in the thorough tier; ./check is the driver (sharding, journal-based crash attribution, replay tier, known-finding filter, evidence)"}],
 "checks": checks,
 "notes": "All checks: exit 0 held / exit 1 + VIOLATION line / exit 2 inconclusive (build failure, time budget). Known findings: known_findings.json. See DESIGN.md.",
 "not_applicable": [{"property_id": pid, "reason": na.get(pid, "check not built yet in this session (see DESIGN.md §6 for its design)")} for pid in ids if pid not in claimed],
}
json.dump(man, open(os.path.join(ROOT, "MANIFEST.json"), "w"), indent=1, ensure_ascii=False)
print("claimed", len(claimed), "not_applicable", len(ids) - len(claimed))
