#!/usr/bin/env python3
"""tools/seedmeta.py <seeded-subdir> <agent-worktree-seeddir> --property Cnn --what "..." --needs "..." --caught "..." [--also "..."]
Writes seeded/<subdir>/meta.json (and copies the agent's NOTES.md) after tools/seedcheck.sh confirmed the change."""
import argparse, json, os, shutil
ROOT = os.path.dirname(os.path.dirname(os.path.abspath(__file__)))
ap = argparse.ArgumentParser()
ap.add_argument("sub"); ap.add_argument("src")
ap.add_argument("--property"); ap.add_argument("--what"); ap.add_argument("--needs"); ap.add_argument("--caught"); ap.add_argument("--demo", default="")
a = ap.parse_args()
d = os.path.join(ROOT, "seeded", a.sub)
if os.path.exists(os.path.join(a.src, "NOTES.md")):
    shutil.copy(os.path.join(a.src, "NOTES.md"), os.path.join(d, "NOTES.md"))
def rd(n):
    p = os.path.join(d, n)
    return open(p).read().strip() if os.path.exists(p) else ""
meta = {
 "property": a.property,
 "what": a.what,
 "needs": a.needs,
 "written_by": "fresh sub-agent given only the property text and its own worktree (seeded/PROMPT.md)",
 "confirmed": {
   "how": "tools/seedcheck.sh: patch applied to a fresh scratch worktree of /repo HEAD, go build ./..., demonstration run with and without the change, full repository suite on the patched tree (go test -json ./...), then VERIF_REPO=<worktree> ./check <ID> (quick tier)",
   "demo": a.demo,
   "demo_result": rd("demo_result.txt"),
   "suite_failing_on_patched_tree": rd("suite.txt"),
   "suite_note": "TestAspellInstalled (no aspell), TestForEachParallel / shell/autocomplete time-outs (wall-clock, loaded machine) and the 30 s watchdog panic of test/murex.go fail on the unmodified tree as well",
   "check_output": rd("check.txt"),
 },
 "caught_by": a.caught,
}
json.dump(meta, open(os.path.join(d, "meta.json"), "w"), indent=1, ensure_ascii=False)
print("wrote", os.path.join(d, "meta.json"))
