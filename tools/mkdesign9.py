#!/usr/bin/env python3
"""Regenerates the generated part of DESIGN.md §9 (between the markers) from
known_findings.json, seeded/*/meta.json and harness/props/*/config.json."""
import json, os, glob, re
ROOT = os.path.dirname(os.path.dirname(os.path.abspath(__file__)))
props = [json.loads(l) for l in open(os.path.join(ROOT, "properties.jsonl"))]
kf = json.load(open(os.path.join(ROOT, "known_findings.json")))["findings"]
out = []
out.append("### 9.3 Findings on the unchanged tree (generated from known_findings.json)\n")
out.append("`fixed` = repaired by the named `fix:` commit in /repo (the witness is replayed on every run and must hold; nothing is suppressed). `open` = known finding (KNOWN-FINDING line; matching generated cases are excluded by the narrow predicate in the property package and counted in the evidence as `excluded_known`).\n")
out.append("| property | finding id | status | commit | what fails |")
out.append("|---|---|---|---|---|")
for f in kf:
    what = f['what'].replace('|', '/')
    out.append(f"| {f['property']} | {f['id']} | {f['status']} | {f.get('commit','')} | {what} |")
nfix = sum(1 for f in kf if f['status']=='fixed'); nopen = sum(1 for f in kf if f['status']=='open')
out.append(f"\n{nfix} repaired, {nopen} recorded as known findings.\n")
out.append("### 9.4 Independently seeded changes (generated from seeded/*/meta.json)\n")
out.append("Each change was written by a fresh sub-agent that saw only the property text and its own worktree, confirmed by the coordinator in a scratch worktree (patch applies, builds, repository suite unchanged, demonstration fails with / passes without), then run against the quick tier with `VERIF_REPO`.\n")
out.append("| seeded change | breaks | needs | caught by (quick tier) | final re-check |")
out.append("|---|---|---|---|---|")
for m in sorted(glob.glob(os.path.join(ROOT, "seeded", "*", "meta.json"))):
    d = json.load(open(m))
    needs = d.get('needs','').replace('|','/'); caught = d.get('caught_by','').replace('|','/')
    rc = os.path.join(os.path.dirname(m), "recheck.txt")
    re_ = ""
    if os.path.exists(rc):
        w = open(rc).read().split()
        re_ = (w[1].lower() + " @" + w[3].replace("head=", "")) if len(w) > 3 else ""
    out.append(f"| seeded/{os.path.basename(os.path.dirname(m))} | {d.get('property','')} | {needs} | {caught} | {re_} |")
text = "\n".join(out) + "\n"
p = os.path.join(ROOT, "DESIGN.md")
s = open(p).read()
b, e = "<!-- GENERATED-9 BEGIN -->", "<!-- GENERATED-9 END -->"
if b in s:
    s = s[:s.index(b)+len(b)] + "\n" + text + s[s.index(e):]
else:
    s += "\n" + b + "\n" + text + e + "\n"
open(p, "w").write(s)
print("ok")
